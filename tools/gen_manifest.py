#!/usr/bin/env python3
"""Regenerates /verif/MANIFEST.json from the table below (kept in one place so that the
manifest stays valid and not_applicable stays current)."""
import json, os
ROOT = os.path.dirname(os.path.dirname(os.path.abspath(__file__)))
props = [json.loads(l) for l in open(os.path.join(ROOT, 'properties.jsonl'))]

PBT = "property-based testing (proptest generation from VERIF_SEED + structure-aware shrinking)"
CHECKS = {
 "C01": dict(cat="exploration",
   text="generated histories of Thrift values written back to back with one writer and read with one reader, 4 protocols x 3 buffer kinds, compared with an independent value model item by item (value, bytes consumed, identical bytes across buffer kinds, guard bytes around the unchecked writer's region)",
   note="trusted: harness value interpreter and TVal model; the unchecked writer is only exercised inside its documented buffer contract",
   tech=PBT + "; round-trip oracle over operation histories"),
 "C03": dict(cat="exploration",
   text="differential against reference binary/compact codecs written from the Apache specs, both directions, random spec-legal variants; exhaustive enumeration of all 256 type bytes in every type position, every i8/i16 (value and field id), 2^k+-1 boundaries, sequence ids, TApplicationException",
   note="trusted: the reference codecs (harness/vcore/src/refthrift.rs), themselves cross-checked by round trip and by spec examples",
   tech=PBT + "; differential oracle (independent reference codec) + exhaustive enumeration of small domains"),
 "C04": dict(cat="exploration",
   text="size reported by a fresh TLengthProtocol instance and by the writing instance itself compared with buffer growth per item for generated value histories under binary, binary-LE, compact and the unchecked codec",
   note="runtime part; the generated-type part is added by the generated-code pipeline",
   tech=PBT + "; invariant size == bytes written"),
 "C07": dict(cat="exploration",
   text="generated (value, following value, trailing bytes) reference-encoded and skipped by every sync and async skipper standing alone and in field position; reported count, position and the following value are compared with the reference; nesting 1..81 through struct/list/map/set hops checked against the documented limit; 1e3..2e5-level chains in a 2 MiB-stack child process",
   note="61..65 levels accepted either way; the iterative unchecked skipper may skip exactly or refuse with DepthLimit",
   tech=PBT + "; reference-length oracle, metamorphic 'following value unaffected', enumerated depths, crash-isolated child for stack exhaustion"),
 "C09": dict(cat="fault_enumeration",
   text="random bytes and single-fault mutants (truncation, bit flip, length/count/id marks overwritten with boundary values, type bytes) of reference encodings fed to the generic reader, skip, envelope and TApplicationException decoders, sync and async, binary/LE/compact, under panic capture, a counting allocator (bound 1 MiB + 4096 x input) and a deterministic poll budget; strict prefixes of struct encodings must be rejected",
   note="runtime part in-process; a wall-clock watchdog is not used, async non-termination is decided by poll counts",
   tech=PBT + "; structured fault injection located through reference-encoder marks; oracle: no panic / bounded allocation / bounded polls"),
 "C11": dict(cat="exploration",
   text="unchecked writer in an exact-size canary-guarded region (BytesMut pre-sized; LinkedBytes spare capacity, zero-copy off/on) compared byte for byte and position for position with the checked writer; unchecked reader compared with the checked reader on reference bytes including reader schemas that skip arbitrary field subsets",
   note="only inputs inside the unchecked codec's documented contract are generated (complete well-formed encodings, output region >= reported size)",
   tech=PBT + "; differential oracle checked vs unchecked codec, guard bytes"),
 "C12": dict(cat="exploration",
   text="async decode under generated delivery schedules (whole, bytewise, every single split point of short messages, scripted chunks with Pending) compared with the in-memory decode of the same bytes (valid, truncated, bit-flipped, type-corrupted); values equal, errors agree, bytes taken from the stream equal bytes consumed in memory",
   note="schedules are owned by a scripted AsyncRead and a single-thread executor; inputs that enlarge length fields are C09's subject and excluded (counted)",
   tech=PBT + "; differential oracle sync vs async over generated schedules, exhaustive split points for short messages"),
 "C15": dict(cat="exploration",
   text="generated descriptor-level documents printed under generated layouts (blank/comment style at every blank position, ','/';'/none separators, quote style, keyword-prefixed identifiers) and parsed back; nothing may be left unparsed and the Debug rendering of items and package must equal that of the AST built from the document",
   note="only layouts allowed by the Apache IDL grammar are printed; failure signatures distinguish layout-dependent from layout-independent disagreements",
   tech=PBT + "; print/parse round trip with metamorphic layout variation"),
 "C16": dict(cat="exploration",
   text="random IDL-biased text, token-level mutants of printed valid documents and nesting probes up to depth 64 parsed on a 2 MiB-stack thread inside a journaled child process; a panic or the child's death is a violation",
   note="nesting beyond 64 is outside the property and removed from generated inputs by construction",
   tech=PBT + " / grammar-aware mutation fuzzing; oracle: returns without panic, child process survives"),
}
ORDER = sorted(CHECKS)
checks = []
for pid in ORDER:
    c = CHECKS[pid]
    checks.append({
        "property_id": pid,
        "quick_cmd": f"harness/run.sh {pid} quick",
        "thorough_cmd": f"harness/run.sh {pid} thorough",
        "evidence_file": f"evidence/{pid}.json",
        "replay_cmd_template": f"harness/run.sh {pid} quick --replay {{path}}",
        "engine": c.get("engine", "vcheck"),
        "level_claimed": {"category": c["cat"], "text": c["text"], "design_ref": f"DESIGN.md section 5, {pid}"},
        "level_note": c["note"],
        "technique": c["tech"],
    })
m = {
 "version": 1,
 "setup_cmd": "cd harness && CARGO_NET_OFFLINE=true cargo build --offline -p vcheck -p vbuild",
 "hooks": {"guard": "--cfg pilota_verif",
           "enable": "no hooks are needed: every observation goes through public API, process status, the allocator or emitted files",
           "baseline_off_cmd": "cd /repo && cargo test --workspace --no-fail-fast --offline",
           "source_commits": [], "add_only": True},
 "engines": [{"name": "vcheck", "path": "harness/vcheck", "serves_properties": ORDER,
              "kind_free_text": "proptest TestRunner driven from a binary (seed = VERIF_SEED); reference codecs and models in harness/vcore; pilota-facing interpreters, scripted AsyncRead, executor and counting allocator in harness/vrt"}],
 "checks": checks,
 "not_applicable": [{"property_id": p['id'], "reason": "check not built yet (work in progress; planned check described in DESIGN.md section 5)"}
                    for p in props if p['id'] not in CHECKS],
 "notes": "Every check rebuilds the harness (path dependencies on /repo) before running; exit 2 = infrastructure failure or inconclusive, never a violation.",
}
json.dump(m, open(os.path.join(ROOT, 'MANIFEST.json'), 'w'), indent=1)
print("checks:", ORDER)

#!/usr/bin/env python3
"""Regenerates /verif/MANIFEST.json from the table below (kept in one place so that the
manifest stays valid and not_applicable stays current)."""
import json, os
ROOT = os.path.dirname(os.path.dirname(os.path.abspath(__file__)))
props = [json.loads(l) for l in open(os.path.join(ROOT, 'properties.jsonl'))]

PBT = "property-based testing (proptest generation from VERIF_SEED + structure-aware shrinking)"
CHECKS = {
 "C01": dict(cat="exploration",
   text="generated histories of Thrift values written back to back with one writer and read with one reader, 4 protocols x 3 buffer kinds, compared with an independent value model item by item (value, bytes consumed, identical bytes across buffer kinds, guard bytes around the unchecked writer's region)",
   note="trusted: harness value interpreter and TVal model; the unchecked writer is only exercised inside its documented buffer contract",
   tech=PBT + "; round-trip oracle over operation histories"),
 "C03": dict(cat="exploration",
   text="differential against reference binary/compact codecs written from the Apache specs, both directions, random spec-legal variants; exhaustive enumeration of all 256 type bytes in every type position, every i8/i16 (value and field id), 2^k+-1 boundaries, sequence ids, TApplicationException",
   note="trusted: the reference codecs (harness/vcore/src/refthrift.rs), themselves cross-checked by round trip and by spec examples",
   tech=PBT + "; differential oracle (independent reference codec) + exhaustive enumeration of small domains"),
 "C04": dict(cat="exploration",
   text="size reported by a fresh TLengthProtocol instance and by the writing instance itself compared with buffer growth per item for generated value histories under binary, binary-LE, compact and the unchecked codec",
   note="runtime part; the generated-type part is added by the generated-code pipeline",
   tech=PBT + "; invariant size == bytes written"),
 "C07": dict(cat="exploration",
   text="generated (value, following value, trailing bytes) reference-encoded and skipped by every sync and async skipper standing alone and in field position; reported count, position and the following value are compared with the reference; nesting 1..81 through struct/list/map/set hops checked against the documented limit; 1e3..2e5-level chains in a 2 MiB-stack child process",
   note="61..65 levels accepted either way; the iterative unchecked skipper may skip exactly or refuse with DepthLimit",
   tech=PBT + "; reference-length oracle, metamorphic 'following value unaffected', enumerated depths, crash-isolated child for stack exhaustion"),
 "C09": dict(cat="fault_enumeration",
   text="random bytes and single-fault mutants (truncation, bit flip, length/count/id marks overwritten with boundary values, type bytes) of reference encodings fed to the generic reader, skip, envelope and TApplicationException decoders, sync and async, binary/LE/compact, under panic capture, a counting allocator (bound 1 MiB + 4096 x input) and a deterministic poll budget; strict prefixes of struct encodings must be rejected",
   note="runtime part in-process; a wall-clock watchdog is not used, async non-termination is decided by poll counts",
   tech=PBT + "; structured fault injection located through reference-encoder marks; oracle: no panic / bounded allocation / bounded polls"),
 "C11": dict(cat="exploration",
   text="unchecked writer in an exact-size canary-guarded region (BytesMut pre-sized; LinkedBytes spare capacity, zero-copy off/on) compared byte for byte and position for position with the checked writer; unchecked reader compared with the checked reader on reference bytes including reader schemas that skip arbitrary field subsets",
   note="only inputs inside the unchecked codec's documented contract are generated (complete well-formed encodings, output region >= reported size)",
   tech=PBT + "; differential oracle checked vs unchecked codec, guard bytes"),
 "C12": dict(cat="exploration",
   text="async decode under generated delivery schedules (whole, bytewise, every single split point of short messages, scripted chunks with Pending) compared with the in-memory decode of the same bytes (valid, truncated, bit-flipped, type-corrupted); values equal, errors agree, bytes taken from the stream equal bytes consumed in memory",
   note="schedules are owned by a scripted AsyncRead and a single-thread executor; inputs that enlarge length fields are C09's subject and excluded (counted)",
   tech=PBT + "; differential oracle sync vs async over generated schedules, exhaustive split points for short messages"),
 "C15": dict(cat="exploration",
   text="generated descriptor-level documents printed under generated layouts (blank/comment style at every blank position, ','/';'/none separators, quote style, keyword-prefixed identifiers) and parsed back; nothing may be left unparsed and the Debug rendering of items and package must equal that of the AST built from the document",
   note="only layouts allowed by the Apache IDL grammar are printed; failure signatures distinguish layout-dependent from layout-independent disagreements",
   tech=PBT + "; print/parse round trip with metamorphic layout variation"),
 "C16": dict(cat="exploration",
   text="random IDL-biased text, token-level mutants of printed valid documents and nesting probes up to depth 64 parsed on a 2 MiB-stack thread inside a journaled child process; a panic or the child's death is a violation",
   note="nesting beyond 64 is outside the property and removed from generated inputs by construction",
   tech=PBT + " / grammar-aware mutation fuzzing; oracle: returns without panic, child process survives"),
 "C02": dict(cat="exploration", engine="vcheck+gent",
   text="pilota-build is run (child process per unit) on kitchen-sink and seed-generated Thrift documents in plain, keep_unknown_fields and split configurations, the output is type-checked and linked into a test binary; for every generated Message type schema-directed values are reference-encoded, decoded, sized, encoded and decoded again by the generated code under 4 protocols, sync and async, BytesMut and LinkedBytes, and compared with the reference semantics (IDL defaults filled in) through an independent reference decoder",
   note="the Rust type of a declaration is located by name (plain identifier pool); values are observed only through the wire, never through Rust field names; units that fail to build are excluded (C14's subject)",
   tech=PBT + "; generated-code pipeline, round-trip + differential oracle (reference codec and schema-level reference semantics)"),
 "C08": dict(cat="exploration", engine="vcheck+gent",
   text="values of the reader type with generated writer-side edits (unknown fields of any type at any struct/union node, removed, retyped, reordered fields, unknown enum numbers) are reference-encoded and decoded by the generated reader types; outcome compared with the schema-level projection (ignore unknown / mismatched, fill defaults, Err iff required field missing or union with 0 / >= 2 known variants), all protocols, sync and async",
   note="known finding union-variant-wire-type-mismatch is excluded from the main stream by a model-level predicate and exercised in a child process",
   tech=PBT + "; model-based oracle (projection onto the reader schema)"),
 "C13": dict(cat="exploration", engine="vcheck+gent",
   text="corpus built with keep_unknown_fields; unknown fields of every wire type inserted at generated positions of every struct/union node (top level, nested, container elements, unions, argument structs); decode + re-encode with the checked and unchecked binary codec; the reference decoder must recover every inserted field next to the known fields",
   note="types named as method argument/return types are affected by the known finding arg-type-tail-swallow once all their known fields are present: excluded by a model-level predicate (counted) and exercised by a side stream",
   tech=PBT + "; round-trip through a narrower reader, multiset comparison via the reference decoder"),
 "C19": dict(cat="fault_enumeration", engine="vcheck+gent",
   text="for every generated Thrift type, truncations and single-mark corruptions of reference encodings on which decode fails, sync and async, binary and compact; the failing call is repeated three times under a counting global allocator and must not leave a repeating growth of live bytes nor a reference to the input buffer",
   note="per-thread allocation counters; known finding list-elem-leak classified by schema (types containing a list of heap-owning elements, sync decode) and counted; protobuf types are covered by the protobuf pipeline when present",
   tech=PBT + " fault injection; invariant on allocator state (live bytes, buffer uniqueness)"),
 "C20": dict(cat="exploration", engine="vcheck+gent",
   text="for every generated struct/exception of the corpus (kitchen sink with defaults of every kind + generated documents) under 4 protocols: encode(T::default()) reference-decodes to the defaults evaluated from the IDL by the harness; decode(empty struct) equals T::default() whenever it succeeds",
   note="enumerates all struct types of the corpus (exhaustive for the corpus, the corpus itself is generated); known finding struct-literal-default-ignores-member-defaults lives in a side document",
   tech="generated corpus + independent default evaluator; differential oracle"),
 "C14": dict(cat="exploration",
   text="documents of G_thrift with identifiers from the hostile pool (Rust keywords, case-conversion collisions, underscores, mixed case) and from the plain pool, plus the kitchen sinks, are built by pilota-build in a child process under builder configurations drawn from {single, split} x {keep_unknown_fields} x {change_case} x {ignore_unused + touch} (all 16 for every tenth document and for the kitchen sinks) and the output is type-checked with rustc against the current pilota runtime; failures are grouped by signature and minimised",
   note="six known-finding classes (recursive unions, literal conversion gaps, defaults on annotated types, prelude-name shadowing, btree + double, const/newtype name collision) are excluded from the main generator by construction and exercised by one side stream each; protobuf documents are covered once the protobuf model exists",
   tech=PBT + " over IDL documents; oracle: builder child exit status + rustc type-check"),
}
ORDER = sorted(CHECKS)
checks = []
for pid in ORDER:
    c = CHECKS[pid]
    checks.append({
        "property_id": pid,
        "quick_cmd": f"harness/run.sh {pid} quick",
        "thorough_cmd": f"harness/run.sh {pid} thorough",
        "evidence_file": f"evidence/{pid}.json",
        "replay_cmd_template": f"harness/run.sh {pid} quick --replay {{path}}",
        "engine": c.get("engine", "vcheck"),
        "level_claimed": {"category": c["cat"], "text": c["text"], "design_ref": f"DESIGN.md section 5, {pid}"},
        "level_note": c["note"],
        "technique": c["tech"],
    })
m = {
 "version": 1,
 "setup_cmd": "cd harness && CARGO_NET_OFFLINE=true cargo build --offline -p vcheck -p vbuild -p vgen",
 "hooks": {"guard": "--cfg pilota_verif",
           "enable": "no hooks are needed: every observation goes through public API, process status, the allocator or emitted files",
           "baseline_off_cmd": "cd /repo && cargo test --workspace --no-fail-fast --offline",
           "source_commits": [], "add_only": True},
 "engines": [{"name": "vcheck+gent", "path": "harness/vgen", "serves_properties": [k for k in ORDER if CHECKS[k].get("engine") == "vcheck+gent" or k in ("C04", "C09", "C11", "C12")],
              "kind_free_text": "generated-code pipeline: corpus (harness/vcore: kitchen.rs, tgen.rs) -> pilota-build child per unit (harness/vbuild) -> rustc type-check -> test binary harness/gent linking the generated code with the value-level checks of harness/vgen; journaled worker restarts behind process deaths"},
             {"name": "vcheck", "path": "harness/vcheck", "serves_properties": ORDER,
              "kind_free_text": "proptest TestRunner driven from a binary (seed = VERIF_SEED); reference codecs and models in harness/vcore; pilota-facing interpreters, scripted AsyncRead, executor and counting allocator in harness/vrt"}],
 "checks": checks,
 "not_applicable": [{"property_id": p['id'], "reason": "check not built yet (work in progress; planned check described in DESIGN.md section 5)"}
                    for p in props if p['id'] not in CHECKS],
 "notes": "Every check rebuilds the harness (path dependencies on /repo) before running; exit 2 = infrastructure failure or inconclusive, never a violation.",
}
json.dump(m, open(os.path.join(ROOT, 'MANIFEST.json'), 'w'), indent=1)
print("checks:", ORDER)

#!/bin/bash
# Validation of the checks against seeded changes (DESIGN.md section 8).
#
#   tools/seeded.sh verify <scratch-worktree> <dir with patch.diff + demo.rs> <name> [demo-crate] [extra test pkgs...]
#       (DEMO_FEATURES=<feature> adds --features to the demonstration run)
#       confirms in the scratch worktree that the change compiles, the existing tests pass with it,
#       the demonstration fails with it and passes without it; then stores it as seeded/<name>/.
#   tools/seeded.sh run <name> <Cxx>...
#       applies seeded/<name>/patch.diff to /repo, runs the quick tier of the named checks, undoes the change
#       straight afterwards, and appends the outcome to seeded/<name>/runs.log.
set -u
ROOT="$(cd "$(dirname "$0")/.." && pwd)"
cmd="$1"; shift
case "$cmd" in
verify)
  WT="$1"; SRC="$2"; NAME="$3"; CRATE="${4:-pilota}"; shift 3; shift || true
  EXTRA=("$@")
  cd "$WT" || exit 2
  git checkout -q -- . ; rm -f "$CRATE/tests/seeded_demo.rs"
  git apply "$SRC/patch.diff" || { echo "patch does not apply"; exit 2; }
  res="$SRC/verify.log"; : >"$res"
  echo "## existing tests with the change" >>"$res"
  ok=1
  for p in pilota "${EXTRA[@]}"; do
    if [ "$p" = pilota-build ]; then
      # the two workspace tests need the network in every tree
      CARGO_NET_OFFLINE=true cargo test -p pilota-build --offline --no-fail-fast >>"$res.full" 2>&1
      grep -E "^test .* FAILED|^test result" "$res.full" >>"$res"
      if grep -E "^test .* FAILED" "$res.full" | grep -v workspace >/dev/null; then ok=0; fi
    else
      if CARGO_NET_OFFLINE=true cargo test -p "$p" --offline >>"$res.full" 2>&1; then echo "$p: pass" >>"$res"; else echo "$p: FAIL" >>"$res"; ok=0; fi
      grep -E "^test result" "$res.full" | tail -4 >>"$res"
    fi
  done
  mkdir -p "$CRATE/tests"; cp "$SRC/demo.rs" "$CRATE/tests/seeded_demo.rs"
  for x in thrift proto; do [ -f "$SRC/demo.$x" ] && cp "$SRC/demo.$x" "$CRATE/tests/seeded_demo.$x"; done
  echo "## demonstration with the change (must fail)" >>"$res"
  if CARGO_NET_OFFLINE=true cargo test -p "$CRATE" --offline ${DEMO_FEATURES:+--features $DEMO_FEATURES} --test seeded_demo >>"$res.full" 2>&1; then echo "demo passed with the change: NOT a valid seeded change" >>"$res"; ok=0; else echo "demo fails with the change" >>"$res"; fi
  grep -E "^test result" "$res.full" | tail -1 >>"$res"
  git apply -R "$SRC/patch.diff"
  echo "## demonstration without the change (must pass)" >>"$res"
  if CARGO_NET_OFFLINE=true cargo test -p "$CRATE" --offline ${DEMO_FEATURES:+--features $DEMO_FEATURES} --test seeded_demo >>"$res.full" 2>&1; then echo "demo passes without the change" >>"$res"; else echo "demo FAILS without the change" >>"$res"; ok=0; fi
  grep -E "^test result" "$res.full" | tail -1 >>"$res"
  rm -f "$CRATE/tests/seeded_demo.rs" "$CRATE/tests/seeded_demo.thrift" "$CRATE/tests/seeded_demo.proto"; rmdir "$CRATE/tests" 2>/dev/null
  git checkout -q -- .
  cat "$res"
  if [ $ok = 1 ]; then
    mkdir -p "$ROOT/seeded/$NAME"
    cp "$SRC/patch.diff" "$SRC"/demo.* "$ROOT/seeded/$NAME/"
    [ -f "$SRC/README.md" ] && cp "$SRC/README.md" "$ROOT/seeded/$NAME/README.md"
    cp "$res" "$ROOT/seeded/$NAME/verify.log"
    echo "KEPT as seeded/$NAME"
  else
    echo "REJECTED"; exit 1
  fi
  ;;
run)
  NAME="$1"; shift
  P="$ROOT/seeded/$NAME/patch.diff"
  if [ -n "$(git -C /repo status --porcelain --untracked-files=no | grep -v Cargo.lock)" ]; then echo "/repo is not clean"; exit 2; fi
  git -C /repo apply "$P" || { echo "patch does not apply to /repo"; exit 2; }
  mkdir -p "$ROOT/work"
  for c in "$@"; do
    out="$ROOT/work/seeded-$NAME-$c.out"
    start=$(date +%s)
    "$ROOT/harness/run.sh" "$c" quick >"$out" 2>&1; code=$?
    end=$(date +%s)
    v=$(grep -a -m1 "^VIOLATION" "$out")
    k=$(grep -a -A1 -m1 "^VIOLATION" "$out" | tail -1 | cut -c1-300)
    echo "$(date -u +%FT%TZ) $NAME $c quick exit=$code $((end-start))s ${v:-no-violation-line} | $k" | tee -a "$ROOT/seeded/$NAME/runs.log"
  done
  git -C /repo checkout -- .
  git -C /repo status --porcelain --untracked-files=no | grep -v Cargo.lock
  ;;
esac

#!/usr/bin/env python3
"""Writes seeded/<id>/meta.json for every seeded change and prints the table for DESIGN.md section 8.

The descriptions were written by hand from the sub-agents' reports after each change had been
confirmed (tools/seeded.sh verify); the outcomes are read from seeded/<id>/runs.log, which
tools/seeded.sh run appends to."""
import json, os, re, sys

ROOT = os.path.dirname(os.path.dirname(os.path.abspath(__file__)))
S = os.path.join(ROOT, "seeded")

# id -> (property, where, what it does, what it needs in order to manifest)
D = {
 "C01-m1": ("C01", "pilota/src/thrift/compact.rs (3 sites)", "compact field-id delta computed in i16 again (the casts to i32 'cleaned up')", "two consecutive fields of one struct whose ids are more than 32767 apart (e.g. 20000 then -20000)"),
 "C01-m2": ("C01", "pilota/src/thrift/binary_unsafe.rs", "unchecked writer on LinkedBytes: zero-copy write_faststr appends the length prefix directly instead of staging it", "zero_copy on, a FastStr >= 4096 bytes that is an element of a list/set/map (something still staged), not a direct field value"),
 "C02-m1": ("C02", "pilota-build/src/codegen/thrift/ty.rs", "field header of a typedef whose target is a named type is written with TType::Struct", "a field typed by a typedef of an enum or a typedef of a typedef; golden IDLs have none"),
 "C02-m2": ("C02", "pilota-build/src/codegen/thrift/ty.rs", "bool container elements / typedef bool written with write_i8", "compact protocol, a bool inside list/set/map (or typedef bool) holding at least one false"),
 "C03-m1": ("C03", "pilota/src/thrift/compact.rs (sync + async read_field_begin)", "short-form field header with delta 15 read as long form", "peer-written compact bytes with two fields exactly 15 ids apart in short form; pilota's own writer never emits it"),
 "C03-m2": ("C03", "pilota/src/thrift/binary.rs, binary_unsafe.rs read_bool", "bool byte read as i8 > 0", "a binary-protocol bool byte with the high bit set (0x80..0xFF), legal 'true' for the spec"),
 "C04-m1": ("C04", "pilota/src/thrift/compact.rs length pass", "length pass no longer records the id of a bool field", "compact, a bool field followed by another field whose delta lands on the other side of the 1..15 rule"),
 "C04-m2": ("C04", "pilota/src/thrift/binary.rs faststr_len", "FastStr sized by chars().count()", "binary protocol, a FastStr with a non-ASCII character"),
 "C05-m1": ("C05", "pilota/src/prost/encoding.rs map! encode_with_default", "feature pb-encode-default-value: map key default still skipped while encoded_len counts it", "feature on, a map entry whose key is the default (0, \"\", false)"),
 "C05-m2": ("C05", "pilota-build/src/codegen/protobuf/mod.rs codegen_encoded_len", "encoded_len of an Option<Message> field drops key and length prefix", "a singular, non-required, non-oneof message field that is set; golden protos have none"),
 "C06-m1": ("C06", "pilota-build/src/codegen/protobuf/mod.rs ty_module", "repeated sint/fixed/sfixed fall through to the int/uint codecs (self-consistent)", "repeated sint32/sint64/fixed32/fixed64/sfixed32/sfixed64 compared against a conforming peer"),
 "C06-m2": ("C06", "pilota/src/prost/encoding.rs int32::merge_repeated", "packed branch passes the outer wire type down", "packed input for repeated int32 / repeated enum (pilota itself writes unpacked)"),
 "C07-m1": ("C07", "pilota/src/thrift/binary_unsafe.rs skip_till_depth map fast path", "lost parentheses: key_size * n + val_size", "unchecked reader, a map with fixed-size key and value and >= 2 entries"),
 "C07-m2": ("C07", "pilota/src/thrift/compact.rs skip_till_depth struct arm", "returns at Stop without read_struct_end (field-id context not restored); byte count stays right", "sync compact, skipped value contains a struct, skip happens inside an enclosing struct, a short-form sibling field follows"),
 "C08-m1": ("C08", "pilota/src/thrift/compact.rs skip_till_depth struct arm", "struct skip without read_struct_begin/end", "sync compact, unknown field containing a non-empty struct, followed by a known field with a short-form header"),
 "C08-m2": ("C08", "pilota/src/thrift/binary_unsafe.rs skip map fast path", "fast path taken when only one side is fixed-width (|| for &&)", "unchecked reader, unknown/retyped non-empty map with exactly one fixed-width side"),
 "C09-m1": ("C09", "pilota/src/thrift/compact.rs skip_till_depth binary arm", "length checked as signed i32, then advance(size as usize)", "sync compact skip of a binary/string whose varint length has bit 31 set (e.g. ff ff ff ff 0f)"),
 "C09-m2": ("C09", "pilota/src/thrift/mod.rs async skip_till_depth map arm", "map values skipped with depth instead of depth - 1", "async skip of maps nested through their values deeper than the limit of 64; ~2e5 levels overflow the stack"),
 "C10-m1": ("C10", "pilota/src/prost/encoding.rs skip_field StartGroup", "ctx.clone() instead of ctx.enter_recursion()", "unknown groups nested deeper than 100"),
 "C10-m2": ("C10", "pilota/src/prost/encoding.rs bytes::merge", "length compared with remaining() taken before the prefix was read", "bytes field (Bytes / Vec<u8>) last in the buffer with a prefix exceeding the true remainder by 1 .. prefix length"),
 "C11-m1": ("C11", "pilota/src/thrift/binary_unsafe.rs LinkedBytes write_bytes_without_len", "index not reset after a zero-copy insert", "LinkedBytes, zero_copy on, a Bytes payload >= 4096 (binary field or retained unknown blob)"),
 "C11-m2": ("C11", "pilota/src/thrift/binary_unsafe.rs skip set fast path", "reported length counts one element only", "unchecked reader skipping a set of fixed-size elements with >= 2 elements, caller using the returned count"),
 "C12-m1": ("C12", "pilota/src/thrift/rw_ext.rs read_exact_to_vec", "'fast path' uses read instead of read_exact for payloads <= 64 KiB", "a chunk boundary (or EOF) strictly inside a string/binary payload"),
 "C12-m2": ("C12", "pilota/src/thrift/mod.rs async skip_till_depth struct arm", "returns at Stop without read_struct_end", "async compact, unknown field containing a struct, later sibling in short delta form"),
 "C13-m1": ("C13", "pilota/src/thrift/mod.rs sync skip_till_depth map arm", "value bytes not added to the returned count (position still right)", "checked binary reader with retention, unknown field containing a non-empty map"),
 "C13-m2": ("C13", "pilota/src/thrift/binary_unsafe.rs skip set fast path", "reported length counts one element only", "unchecked reader with retention, unknown set of >= 2 fixed-size elements"),
 "C14-m1": ("C14", "pilota-build/src/middle/type_graph.rs", "typedef -> target edge dropped from the type graph (no Box for cycles through a typedef)", "typedef Node NodeRef; struct Node { optional NodeRef next }"),
 "C14-m2": ("C14", "pilota-build/src/middle/resolver.rs related_path", "common prefix counted with filter instead of take_while", "cross-file reference between multi-segment namespaces that differ in the first segment and agree later (shop.model -> base.model)"),
 "C15-m1": ("C15", "pilota-thrift-parser/src/parser/field.rs", "'optional' loses its keyword-boundary check", "a field without requiredness whose type name begins with 'optional'"),
 "C15-m2": ("C15", "pilota-thrift-parser/src/parser/constant.rs", "map constant entries accept ',' only", "a map constant with ';' after an entry"),
 "C16-m1": ("C16", "pilota-thrift-parser/src/parser/enum_.rs", "enum value parsed with parse::<i64>().unwrap()", "a decimal enum value above i64::MAX"),
 "C16-m2": ("C16", "pilota-thrift-parser/src/parser/mod.rs", "hand-written block comment scanner indexes bytes[i + 1]", "an unterminated /* comment whose last byte is '*' at the very end of input"),
 "C18-m1": ("C18", "pilota/src/prost/encoding.rs skip_field", "nested group skipped with the outer group's tag", "an unknown group containing a nested group with a different field number"),
 "C18-m2": ("C18", "pilota-build/src/codegen/protobuf/mod.rs codegen_merge_field", "optional message field: insert(Default) instead of get_or_insert_with", "a singular non-required message field present in both encodings with a sub-field set only in the first"),
 "C19-m1": ("C19", "pilota/src/thrift/rw_ext.rs read_exact_to_vec", "buffer parked in ManuallyDrop across the awaits; early returns leak it", "async decode whose input ends inside a string/binary payload"),
 "C19-m2": ("C19", "pilota/src/prost/encoding.rs map! merge_with_default", "key and value in ManuallyDrop until inserted; '?' returns before", "a corruption inside a map entry after the key or value owns heap data (long string key, message value)"),
 "C20-m1": ("C20", "pilota-build/src/middle/context.rs lit_into_ty", "struct-literal keys matched against the Rust field name", "a struct-literal default with a camelCase key"),
 "C20-m2": ("C20", "pilota-build/src/middle/context.rs list_stream", ".unique() on list literal elements", "a list default containing the same element twice"),
 "C17-m1": ("C17", "pilota-build/src/codegen/mod.rs write_items", "sibling modules sorted by the first path segment only (the rest keeps HashMap order)", "two or more namespaces that share their first segment (demo.alpha, demo.beta); differs per process hash seed"),
 "C17-m2": ("C17", "pilota-build/src/codegen/mod.rs write_split_mod", "split files rendered in parallel; collision suffixes (_2) handed out in arrival order", "split mode, one module with >= 32 items, names equal ignoring case in different pieces of the parallel slice, >= 2 workers"),
 "C01-m3": ("C01", "pilota/src/thrift/binary.rs read_list/set/map_begin", "container count bounded by remaining / min element width, with Struct counted as 4 bytes", "checked binary reader, a container of empty structs near the end of the buffer (only the last of several values fails)"),
 "C01-m4": ("C01", "pilota/src/thrift/compact.rs write_len", "one-byte fast path for length prefixes uses <= 0x80", "compact, a string/binary of exactly 128 bytes"),
 "C03-m3": ("C03", "pilota/src/thrift/compact.rs TryFrom<TCompactType> for TType", "element type nibble 2 (BOOL per spec) rejected in list/set/map headers", "peer-written compact list<bool>/set<bool>/map with bool announced as 2; pilota writes 1"),
 "C03-m4": ("C03", "pilota/src/thrift/error/application.rs", "TApplicationException decoding stops after the type field", "exception with type before message or an extra field, or a second message read from the same buffer"),
 "C04-m3": ("C04", "pilota/src/thrift/compact.rs map_begin_len", "map count sized as zig-zag i32", "compact, a map with 64..=127 (8192..=16383) entries"),
 "C04-m4": ("C04", "pilota-build/src/codegen/thrift/mod.rs codegen_encode_fields_size", "size() sums the fields in id order while encode writes them in declaration order", "compact, a struct whose fields are declared out of id order"),
 "C07-m3": ("C07", "pilota/src/thrift/compact.rs skip_till_depth struct arm", "bool fields of a skipped struct are 'continue'd, leaving the pending bool value set", "sync compact, skipped struct with a bool field followed by a bare bool element (list<bool>, map with bool) before any other bool field"),
 "C07-m4": ("C07", "pilota/src/thrift/mod.rs + binary.rs async skip_binary", "allocation-free drain subtracts the requested chunk size, not the bytes read", "async binary skip of a non-empty string under a delivery that satisfies a read only partially"),
 "C09-m3": ("C09", "pilota/src/thrift/varint_ext.rs VarIntProcessor::push", "length checked after the byte is stored", "compact, >= 10 continuation bytes and one more at an i64 position"),
 "C09-m4": ("C09", "pilota/src/thrift/rw_ext.rs read_exact_to_vec", "chunked path for lengths > 64 KiB ignores read_buf's 0 at end of input: endless loop", "async, declared string/binary length above 65536 with the stream ending early"),
 "C12-m3": ("C12", "pilota/src/thrift/compact.rs TAsyncCompactProtocol", "pending bool cleared in read_field_end instead of read_bool", "async compact, unknown struct with a bool field followed by a non-empty bool container"),
 "C02-m3": ("C02", "pilota-build/src/codegen/thrift/ty.rs ttype", "Arc-wrapped members always get wire type Struct in decode guards and container headers", "a member annotated pilota.rust_wrapper_arc whose type is not a struct (enum, typedef of a scalar, string with rust_type=string, binary with rust_type=vec)"),
 "C02-m4": ("C02", "pilota-build/src/middle/context.rs lit_into_ty", "i64 default literals rendered through 'as i32'", "an optional i64 field with a default outside the 32-bit range, encoded absent"),
 "C05-m3": ("C05", "pilota/src/prost/encoding.rs key_len", "'optimised' comparison chain is off by one at the 4 -> 5 byte key boundary", "a field with tag exactly 2^25"),
 "C05-m4": ("C05", "pilota/src/prost/encoding.rs DecodeContext::default", "recursion budget starts at 99", "a value nested to exactly the documented limit of 100 (messages, groups, map levels count double)"),
 "C06-m3": ("C06", "pilota/src/prost/encoding.rs fixed_width! merge_repeated", "a packed run overwrites elements decoded from earlier records (resize + iter_mut)", "a repeated fixed-width field split over two or more records with a packed record that is not the first"),
 "C06-m4": ("C06", "pilota/src/prost/encoding.rs map! encode_with_default", "a map entry whose key and value are both default is not written (encoded_len agrees)", "a map containing the entry default-key -> default-value, feature off"),
 "C08-m3": ("C08", "pilota/src/thrift/compact.rs skip_till_depth struct arm", "bool fields of a skipped struct are not passed to the skipper, the pending bool value stays set", "sync compact, unknown struct (or container of structs) with a bool field, then a known list/set/map of bool before any other bool field"),
 "C08-m4": ("C08", "pilota/src/thrift/binary_unsafe.rs SkipData.len", "container element counter narrowed to u16", "unchecked reader skipping an unknown list/set of >= 65536 variable-width elements (map: 32768 entries), known fields after it"),
 "C10-m3": ("C10", "pilota/src/prost/encoding.rs map! merge_with_default", "limit_reached() check dropped before enter_recursion()", "a map entry reached with a remaining recursion budget of exactly 0 (e.g. 51 nested map levels, or 100 messages + 1 map)"),
 "C10-m4": ("C10", "pilota/src/prost/encoding.rs fixed_width! merge_repeated", "packed elements read with get_*_le without a per-element bounds check", "a packed run whose length is not a multiple of the element width, ending within width-1 bytes of the input end"),
 "C11-m3": ("C11", "pilota/src/thrift/binary_unsafe.rs skip_till_depth map slow path", "keys of fixed size skipped through a 'lead' added on every stack re-selection", "unknown map with a fixed-size key and struct values that contain a variable-size field"),
 "C11-m4": ("C11", "pilota/src/thrift/binary_unsafe.rs read_message_begin", "names > 24 bytes take a zero-copy path that does not re-derive buf from trans", "a message envelope with a method name longer than 24 bytes read by the unchecked reader"),
 "C13-m3": ("C13", "pilota/src/thrift/binary_unsafe.rs LinkedBytes writer", "flush moved from write_bytes_without_len's zero-copy branch into write_bytes", "re-encoding through the unchecked LinkedBytes writer with zero_copy, a retained unknown chunk >= 4096 bytes, something pending before it"),
 "C13-m4": ("C13", "pilota/src/thrift/binary_unsafe.rs get_bytes", "'small capture' path copies <= 11 bytes from the caller's (lagging) pointer", "unchecked reader with retention, an unknown field of at most 11 bytes that follows a known scalar / string / container field"),
 "C14-m3": ("C14", "pilota-build/src/middle/context.rs rust_name", "change_case(false) fast path skips the pilota.name lookup", "change_case off, protobuf input, a message with a nested message / enum / oneof (module and struct get the same name)"),
 "C14-m4": ("C14", "pilota-build/src/resolve.rs lower_path", "commits to the first import whose leading segments match", "two imported .proto files with the same package, or one imported package a prefix of another (geo, geo.shapes)"),
 "C15-m3": ("C15", "pilota-thrift-parser/src/parser/constant.rs IntConstant", "sign applied in the decimal branch only", "a negative hexadecimal integer literal (-0x10)"),
 "C15-m4": ("C15", "pilota-thrift-parser/src/parser/mod.rs comment", "line comments read with take_until(newline)", "a // or # comment at the very end of the document without a trailing newline"),
 "C16-m3": ("C16", "pilota-thrift-parser/src/parser/thrift.rs Item::parse", "keyword looked up in a fixed 12-byte window of the input", "a top-level definition with a multi-byte character covering byte offset 12"),
 "C16-m4": ("C16", "pilota-thrift-parser/src/parser/ty.rs Type::parse", "alt((annotated, bare)): every un-annotated type parsed twice per nesting level", "container types nested ~16+ levels without annotations: exponential time, never returns at depth 40..64"),
 "C17-m3": ("C17", "pilota-build/src/plugin/mod.rs AutoDerivePlugin", "only the first element of a std HashSet of delayed items is probed", "two type cycles where one becomes non-derivable late; derive lists flip with the per-process hash seed"),
 "C17-m4": ("C17", "pilota-build/src/codegen/mod.rs write_items", "module items rendered with a parallel fold; the dedup map is per fold segment", "Builder::dedup with two files sharing a namespace and duplicate structs, non-split mode, differing pool sizes"),
 "C18-m3": ("C18", "pilota/src/prost/encoding.rs fixed_width! merge_repeated", "packed run written over the front of a non-empty repeated field (take(count) for skip(filled))", "a repeated fixed-width field that already holds elements when a packed run arrives"),
 "C18-m4": ("C18", "pilota/src/prost/encoding.rs skip_field", "skip_varint gives up after nine bytes", "an undeclared varint field with a ten-byte encoding (negative int32/int64/enum, uint64 >= 2^63)"),
 "C19-m3": ("C19", "pilota/src/thrift/rw_ext.rs split_to_checked", "a thread-local 'last short read' slot keeps a clone of the input Bytes", "sync decode failing because a string/binary length exceeds the remaining input; visible through Bytes::is_unique / live bytes after the caller drops the input, not through growth over repetitions"),
 "C19-m4": ("C19", "pilota/src/prost/encoding.rs message::merge_repeated", "element built in spare capacity, set_len only after a successful merge", "repeated message field, a corruption inside an element after a heap-owning field of that element was merged (never a truncation)"),
 "C20-m3": ("C20", "pilota-build/src/middle/context.rs lit_into_ty", "string default literals formatted with {:?}", "a string / binary default containing a backslash escape"),
 "C20-m4": ("C20", "pilota-thrift-parser/src/parser/constant.rs IntConstant", "the sign of a negative hex literal is dropped", "a default or constant written as a negative hexadecimal integer"),
 "C01-m5": ("C01", "pilota/src/thrift/compact.rs sync reader (2 sites)", "field-id stack elides frames whose saved id is 0 (push only if non-zero, pop().unwrap_or(0))", "sync compact, depth >= 2, inside a struct under a non-zero id a field with id exactly 0 holding a struct, then a short-form sibling"),
 "C01-m6": ("C01", "pilota/src/thrift/binary_le.rs LinkedBytes write_faststr", "zero-copy branch writes the length prefix big-endian", "binary-LE on LinkedBytes with zero_copy, a string >= 4096 bytes through write_faststr"),
 "C02-m5": ("C02", "pilota-build/src/codegen/thrift/ty.rs codegen_decode_ty", "sync decode of list<i8> takes the whole run with get_bytes(None, n)", "list<byte> somewhere in the IDL, unchecked protocol, sync decode (get_bytes(None, ..) subtracts the pending index)"),
 "C02-m6": ("C02", "pilota-build/src/middle/context.rs default_val", "rendered defaults memoised by (literal, field type) although const paths are relative to the current item", "two files with different namespaces using a constant of the included file as a default for fields of the same type"),
 "C04-m5": ("C04", "pilota/src/thrift/compact.rs", "short-form field header widened to delta 15 in the length pass and the BytesMut writer, not in the LinkedBytes writer", "compact on LinkedBytes, a field-id delta of exactly 15"),
 "C04-m6": ("C04", "pilota-build/src/codegen/thrift/ty.rs codegen_field_size", "typedef-of-bool guard looks at the typedef's immediate target only", "a typedef that reaches bool through another typedef, used as a field, compact"),
 "C05-m5": ("C05", "pilota/src/prost/encoding.rs decode_varint_slow", "shift computed from the index inside the current chunk", "a multi-byte varint straddling a chunk boundary of a segmented Buf (Buf::chain); contiguous buffers unaffected"),
 "C05-m6": ("C05", "pilota/src/prost/encoding.rs sint32/sint64 from_uint64", "'textbook' zig-zag decode overflows at n = MAX", "exactly i64::MIN in an sint64 field or i32::MIN in an sint32 field"),
 "C06-m5": ("C06", "pilota/src/prost/encoding.rs map! merge_with_default", "map entry read straight-line: tag 1 then tag 2, anything after is skipped", "a map entry written value-before-key with a non-default key"),
 "C06-m6": ("C06", "pilota-build/src/parser/protobuf/mod.rs lower_ty", "scalar types interned by kind without the wire-flavour tag", "one builder run lowering two flavours of one integer kind (sint32 then int32, fixed64 then uint64), self-consistent in pilota"),
 "C08-m5": ("C08", "pilota/src/thrift/binary_unsafe.rs skip struct arm", "a nested struct bumps its enclosing frame's counter instead of pushing its own", "unchecked reader skipping a map with exactly one struct side whose struct carries a struct-typed field"),
 "C08-m6": ("C08", "pilota/src/thrift/compact.rs skip_varint", "integers skipped by scanning at most 9 bytes", "sync compact, a skipped i64 with a ten-byte varint (|v| >= 2^62)"),
 "C09-m5": ("C09", "pilota/src/thrift/compact.rs sync reader", "field-id stack is a fixed [i16; 64]", "sync compact: an unknown struct field nested exactly 64 levels inside a struct, a recursive type nested > 64, or a reader reused after many mid-struct failures"),
 "C09-m6": ("C09", "pilota/src/thrift/mod.rs skip_till_depth (sync + async)", "void treated as a zero-width skippable type", "async binary skip of a container whose element type code is 1 with a huge count: 2^31 iterations inside one poll"),
 "C11-m5": ("C11", "pilota/src/thrift/binary_unsafe.rs get_bytes(None, ..)", "advance(index) before subtracting index", "the 'keep the rest' call of keep_unknown_fields argument structs after a fixed-width or nested-struct last field"),
 "C11-m6": ("C11", "pilota/src/thrift/binary_unsafe.rs write_map_begin (both writers)", "header packed into one 8-byte store (2 bytes beyond the 6-byte header)", "an empty map within the last 7 bytes of an exact-size output area; the stray bytes are zeros"),
 "C13-m5": ("C13", "pilota/src/thrift/binary_unsafe.rs SkipData::new", "pop-on-select decided from the first element type only", "unchecked reader, unknown field containing a non-empty map with exactly one struct side"),
 "C13-m6": ("C13", "pilota-build/src/codegen/thrift/mod.rs", "fields with constant defaults not counted in __pilota_fields_num", "keep_unknown_fields argument struct with a defaulted field present on the wire and another known field after it"),
 "C18-m5": ("C18", "pilota/src/prost/encoding.rs bytes::merge", "early return on an empty payload (old contents not cleared)", "a singular bytes field occurring twice, non-empty first and explicitly empty last"),
 "C18-m6": ("C18", "pilota/src/prost/encoding.rs map! merge_with_default", "an entry without a value record does or_insert instead of insert", "equal map keys in two records, the later value being the type default"),
 "C03-m5": ("C03", "pilota/src/thrift/compact.rs sync skip bool arm", "read_bool only when no value is pending: the stored value of a skipped bool field stays", "sync compact: a skipped bool field, then a bool container before any other bool field (sync and async disagree)"),
 "C03-m6": ("C03", "pilota/src/thrift/compact.rs LinkedBytes write_field_header", "early return for non-positive deltas skips last_write_field_id = id", "compact on LinkedBytes: ids that descend and then return to 1..14 above the stale id (5, 1, 6 arrive as 5, 1, 2)"),
 "C07-m5": ("C07", "pilota/src/thrift/binary_unsafe.rs skip struct arm", "nested struct bumps the enclosing frame when its first type is Struct", "unchecked skip of map<struct-key, non-struct> whose key struct has a struct-typed field"),
 "C07-m6": ("C07", "pilota/src/thrift/compact.rs read_collection_begin / read_map_begin", "count bounded by remaining / minimum element width, a map counted as 2 bytes", "sync compact, a list/set of mostly empty maps near the end of the input"),
 "C10-m5": ("C10", "pilota/src/prost/encoding.rs faststr::merge", "strings <= 24 bytes taken from chunk()[..len] after checking remaining()", "a short string straddling a chunk boundary of a segmented Buf: slice panic"),
 "C10-m6": ("C10", "pilota/src/prost/encoding.rs merge_repeated_numeric!", "packed branch reserves remaining()/size elements (the rest of the whole input)", "hundreds of sibling sub-messages with tiny packed fields: live heap quadratic in the input"),
 "C12-m5": ("C12", "pilota/src/thrift/varint_ext.rs + compact.rs async", "poll-style varint reader rebuilds its accumulator on every poll", "async compact, a Pending strictly inside a multi-byte varint"),
 "C12-m6": ("C12", "pilota/src/thrift/rw_ext.rs discard_exact", "skipping binaries > 1500 bytes reads whole scratch buffers, not only what is owed", "async skip of an unknown string longer than 1500 bytes when bytes beyond it arrive in the same read"),
 "C14-m5": ("C14", "pilota-build/src/plugin/mod.rs AutoDerive", "delayed fix-up consults the type graph (no container edges) instead of the workspace graph", "a type cycle with a hop through a container and a member referring to a non-derivable type: derive(Hash, Eq, Ord) on something that cannot"),
 "C14-m6": ("C14", "pilota-build/src/parser/thrift/mod.rs ThriftLower::lower", "service-name collision set filled before the includes are lowered (and cleared by them)", "two services equal after case conversion sharing a method name, in a file with an include"),
 "C15-m5": ("C15", "pilota-thrift-parser/src/parser/ty.rs", "thread-local container depth counter, not restored on the error path; limit 24", "24 type names that merely begin with list/set/map (or nesting > 24), then any container type"),
 "C15-m6": ("C15", "pilota-thrift-parser/src/parser/constant.rs DoubleConstant", "exponent only accepted after fraction digits", "doubles written with a trailing dot and an exponent (1.e5)"),
 "C16-m5": ("C16", "pilota-thrift-parser/src/parser/mod.rs blank", "one-entry memo of the last blank run keyed by text address, never reset", "a later text at the same address that is shorter than the remembered run or has a multi-byte character across it"),
 "C16-m6": ("C16", "pilota-thrift-parser/src/parser/constant.rs IntConstant", "magnitude checked against 2^63 for negatives, then i64::try_from(..).expect()", "-9223372036854775808 (or -0x8000000000000000) anywhere an integer is accepted"),
 "C17-m5": ("C17", "pilota-build/src/lib.rs Builder::touch", "touched files kept in a std HashMap", "ignore_unused (default) + touch over >= 2 files with enough items for id collisions: item order follows the process hash seed"),
 "C17-m6": ("C17", "pilota-build/src/codegen/mod.rs + fmt.rs", "split files formatted in per-worker rustfmt batches via chunks_exact (remainder left unformatted)", "split mode, a module with >= 24 items, runs with thread counts that leave different remainders"),
 "C19-m5": ("C19", "pilota/src/thrift/compact.rs", "field-id stack moved to a thread_local shared by all sync compact readers", "sync compact decodes failing between a struct begin and its end: two bytes per open struct stay, growth only through reallocations over many failures"),
 "C19-m6": ("C19", "pilota/src/prost/error.rs + encoding.rs", "error descriptions interned by (kind, value) with Box::leak", "a different oversized field key (> u32::MAX) in every rejected input; repeating one input shows nothing"),
 "C20-m5": ("C20", "pilota-build/src/plugin/mod.rs ImplDefaultPlugin", "structs whose defaults are all 0 / false / \"\" derive Default", "such a struct with a non-required defaulted field: Default gives None, decode of the empty struct Some(0)"),
 "C20-m6": ("C20", "pilota-build/src/middle/context.rs double_lit_value", "doubles with an exponent computed as mantissa * 10^exp", "an exponent-notation double default whose scaling is inexact (6.02e23, 1.6e-19), compared bit for bit"),
 "C12-m4": ("C12", "pilota/src/thrift/mod.rs async skip_till_depth list arm", "list levels skipped with depth instead of depth - 1", "async skip of an unknown value nested deeper than 64 through lists: sync refuses, async accepts"),
 "C01-m7": ("C01", "pilota/src/thrift/binary.rs write_field_begin (LinkedBytes writer)", "field header packed into one 24-bit put; `id as u64` sign-extends over the type byte", "binary protocol, LinkedBytes output, a negative field id"),
 "C01-m8": ("C01", "pilota/src/thrift/rw_ext.rs split_to_checked", "'fail fast on a drained buffer' assertion placed before the length check", "a zero-length string / binary that is the very last thing on the buffer (a top-level value, not inside a struct), sync readers"),
 "C03-m7": ("C03", "pilota/src/thrift/binary.rs read_map_begin (sync)", "header read in one 6-byte split; the header length is subtracted from the remaining bytes a second time", "a spec-valid map with N entries of e bytes and t bytes behind it where N*(e-1)+t < 6: tiny maps at the very end of the message"),
 "C03-m8": ("C03", "pilota/src/thrift/compact.rs write_message_begin (LinkedBytes writer)", "sequence id written through unsigned_abs()", "compact envelope on LinkedBytes with a negative sequence id other than i32::MIN"),
 "C04-m7": ("C04", "pilota/src/thrift/binary.rs write_bytes_vec (LinkedBytes writer)", "large Vec<u8> payloads handed to write_bytes after the length prefix was already written", "binary protocol, LinkedBytes, zero_copy on, a bytes-vec payload of >= 4096 bytes"),
 "C04-m8": ("C04", "pilota-build/src/codegen/thrift/mod.rs codegen_struct_impl", "structs with more than 32 fields get a statement-style size() that closes the struct frame before sizing the fields", "a generated struct with > 32 fields, compact protocol, nested in another struct or sized twice with one protocol object"),
 "C06-m7": ("C06", "pilota/src/prost/encoding.rs decode_key", "tag range check with a half-open range", "a record whose field number is exactly 2^29-1"),
 "C06-m8": ("C06", "pilota-build/src/codegen/protobuf/mod.rs codegen_encoded_len", "fixed-width codecs get a value-independent encoded_len that ignores Option", "an optional float/double/fixed/sfixed field that is absent, in a message embedded length-delimited in another"),
 "C07-m7": ("C07", "pilota/src/thrift/mod.rs skip_till_depth (default, sync)", "bulk fast path helper; list and set levels no longer count against the depth limit", "more than 64 levels of nesting through lists / sets: accepted instead of refused (and a 400 000-deep chain overflows the stack)"),
 "C07-m8": ("C07", "pilota/src/thrift/rw_ext.rs read_exact_to_vec", "take(len).read_to_end replaced by a read_buf loop over the spare capacity", "async, a string / binary payload > 65 536 bytes with further data already available behind it"),
 "C09-m7": ("C09", "pilota/src/thrift/rw_ext.rs checked_container_size + binary readers", "count bound multiplied by a per-type minimum width taken from a table where 0 means 'not fixed'", "sync binary / binary-LE, a container of strings / structs / containers with a count far above the remaining bytes: accepted, generated decoders pre-allocate"),
 "C09-m8": ("C09", "pilota/src/thrift/mod.rs skip_till_depth + binary.rs fixed_len hook", "fixed-width containers skipped with one advance(count * width) without a bounds check", "sync binary, skip of a list/set/map of 2..16-byte elements cut short (count <= remaining < count*width): Bytes::advance panics"),
 "C10-m7": ("C10", "pilota/src/prost/message.rs merge_length_delimited", "inlined frame loop without the final 'delimited length exceeded' check", "decode_length_delimited of a frame whose inner field overruns the frame, with more bytes behind the frame"),
 "C10-m8": ("C10", "pilota-build/src/codegen/protobuf/mod.rs codegen_struct_impl", "merge_field arm of a oneof emitted as a range pattern when last-first+1 == count in declaration order", "a oneof whose numbers are declared out of order (2, 7, 4): field 3 reaches unreachable!() in the oneof merge"),
 "C02-m7": ("C02", "pilota-build/src/middle/context.rs lit_into_ty (struct-literal arm)", "keys of a struct-literal default are matched against the Rust field name instead of the IDL name", "a struct-typed field with a map-literal default naming an inner field whose IDL name differs from its Rust name (camelCase, pilota.name), that field absent on the wire"),
 "C02-m8": ("C02", "pilota-build/src/parser/thrift/mod.rs lower_field / lower_field_with_tags", "lowering of the default literal moved into lower_field; the ArgsRecv construction calls the other function", "a service method argument that is optional and has a default, decoded as <Svc><Method>ArgsRecv with the argument absent"),
 "C05-m7": ("C05", "pilota-build/src/codegen/protobuf/mod.rs codegen_encoded_len", "repeated enum fields whose declared numbers all fit one byte get encoded_len = (key + 1) * len", "a repeated (open) enum field holding an undeclared number outside 0..=127"),
 "C05-m8": ("C05", "pilota/src/prost/encoding.rs group::merge", "end of group recognised by the field number first, the wire type second", "a group member (or nested group) that reuses the field number of its group; hand-written Message impls only"),
 "C08-m7": ("C08", "pilota-build/src/codegen/thrift/ty.rs ttype (NewType arm)", "typedef chains are not followed past a named type: the wire type becomes Struct", "a struct field typed by a typedef of a typedef of a base / container type, read from a standard writer"),
 "C08-m8": ("C08", "pilota/src/thrift/mod.rs skip_till_depth + skip_elements", "bulk skip of string elements reads the length with Buf::get_i32 (big-endian) also under binary-LE", "sync binary-LE, an unknown field that is a list / set of non-empty strings"),
 "C11-m7": ("C11", "pilota/src/thrift/binary_unsafe.rs skip", "scalar fast path bumps the index without re-anchoring the transport", "unchecked reader with keep_unknown_fields-style capture (skip then get_bytes) of an unknown fixed-size scalar while bytes of earlier fields are still pending"),
 "C11-m8": ("C11", "pilota/src/thrift/binary_unsafe.rs write_field_begin (shared helper)", "field header built from `id as u32` (sign-extended over the type byte)", "unchecked writer, a negative field id"),
 "C12-m7": ("C12", "pilota/src/thrift/mod.rs async skip_till_depth + skip_scalar", "scalar container elements skipped by width taken from the binary table, also under compact", "async compact, a skipped list / set / map with double elements (or a bool element byte outside {1,2})"),
 "C12-m8": ("C12", "pilota/src/thrift/binary.rs TAsyncBinaryProtocol::read_string", "from_utf8_unchecked replaced by from_utf8 on the async side only", "async binary, a skipped or string-decoded binary value that is not valid UTF-8"),
 "C13-m7": ("C13", "pilota-build/src/resolve.rs lower_type (folded with lower_type_for_hash_key)", "is_args is passed down into container element types", "keep_unknown_fields, a method with a container-of-struct argument / result: that struct gets the 'rest of the buffer' shortcut as a container element"),
 "C13-m8": ("C13", "pilota/src/thrift/unknown.rs LinkedBytes", "hand-written Eq / Ord / Hash under which all retained byte strings are equal", "a keep_unknown_fields struct as set element / map key, two entries equal on all known fields and different in unknown ones"),
 "C14-m7": ("C14", "pilota-build/src/resolve.rs lower_type_inner", "the hash_key flag is lost when the walk passes through a list", "a double inside a list in set-element or map-key position: Vec<f64> instead of Vec<OrderedFloat<f64>> (E0277)"),
 "C14-m8": ("C14", "pilota-build/src/parser/thrift/mod.rs lower_include", "include path handed on without normalize()", "a diamond include in which one route uses '..' (or a subdirectory): the file is lowered twice, every item emitted twice (E0428)"),
 "C15-m7": ("C15", "pilota-thrift-parser/src/parser/literal.rs", "closing quote found by 'previous character is not a backslash'", "a string literal whose text ends in an even, non-zero number of backslashes"),
 "C15-m8": ("C15", "pilota-thrift-parser/src/parser/mod.rs blank", "single-space fast path forgets that '#' opens a comment", "a '#' comment after exactly one space in a position with a single blank slot (after '{', '(', '[', between keyword and name)"),
 "C16-m7": ("C16", "pilota-thrift-parser/src/parser/literal.rs", "hand-written literal scanner slices by byte after a backslash", "a literal containing a backslash followed by a non-ASCII character: char-boundary panic"),
 "C16-m8": ("C16", "pilota-thrift-parser/src/parser/mod.rs blank", "many1 replaced by self-recursion", "a few thousand consecutive comment / blank pieces (nesting depth 0): stack overflow"),
 "C17-m7": ("C17", "pilota-build/src/middle/context.rs lit_as_rvalue (mk_map)", "map literals with a repeated key are rebuilt from a std HashMap", "a map literal (const / default) that repeats a key and keeps at least two distinct keys, compared across processes"),
 "C17-m8": ("C17", "pilota-build/src/codegen/workspace.rs group_defs", "dependencies grouped through a std HashMap; re-exports flattened from its values", "workspace mode + split, a crate depending on at least two other crates in one namespace, compared across processes"),
 "C18-m7": ("C18", "pilota/src/prost/message.rs Message::merge", "'same key as the previous record' cache compares the leading key byte only", "top level, two adjacent records with different field numbers >= 16 that are congruent mod 16 and have the same wire type"),
 "C18-m8": ("C18", "pilota-build/src/codegen/protobuf/mod.rs codegen_enum_impl (oneof merge)", "a message-typed oneof member is always decoded into a fresh value", "the same message-typed oneof member twice in the stream: replaced instead of merged"),
 "C19-m7": ("C19", "pilota/src/thrift/error/transport.rs", "prepend_msg / append_msg store the new text with ptr::write", "async decode failing by truncation at struct nesting depth >= 2 (each level prepends to the error message, the previous heap text leaks)"),
 "C19-m8": ("C19", "pilota/src/prost/message.rs Message::decode", "messages of >= 1024 bytes are decoded through Box::into_raw; the error path skips Box::from_raw", "a failing top-level decode of a message type with size_of >= 1024 (about 26 string fields)"),
 "C20-m7": ("C20", "pilota-build/src/middle/context.rs lit_into_ty", "(Int, F32) and (Int, F64) arms merged, the value goes through f32", "a double (field, list element, map value) defaulted by an integer literal above 2^24 with low bits set"),
 "C20-m8": ("C20", "pilota-build/src/middle/rir.rs variant_of_discr + context.rs", "enum default by number looked up by position when first = 0 and last = n-1", "an enum default given by number on an enum whose members are not declared in ascending order"),
}

def runs(name):
    p = os.path.join(S, name, "runs.log")
    out = []
    if os.path.exists(p):
        for l in open(p):
            m = re.match(r"(\S+) (\S+) (C\d+) (\w+) exit=(\d+) (\d+)s (.*?) \| *(.*)", l.strip())
            if m:
                out.append({"when": m.group(1), "check": m.group(3), "tier": m.group(4), "exit": int(m.group(5)), "seconds": int(m.group(6)),
                            "violation_line": m.group(7), "first_line": m.group(8)[:300]})
    return out

rows = []
for name in sorted(os.listdir(S)):
    d = os.path.join(S, name)
    if not os.path.isdir(d) or name not in D or not D[name][1]:
        continue
    prop, where, what, needs = D[name]
    rs = runs(name)
    # the latest run per check counts
    latest = {}
    for r in rs:
        latest[r["check"]] = r
    base = "/repo at 3f6a2b3: the later fix eb8f3ae rewrites the function this change edits (git -C /repo checkout 3f6a2b3 -- pilota-thrift-parser/src/parser/constant.rs before applying)" if name in ("C15-m3", "C16-m6", "C20-m4") else "/repo HEAD"
    meta = {
        "id": name, "property": prop, "where": where, "change": what, "needs_to_manifest": needs, "applies_to": base,
        "confirmed": "tools/seeded.sh verify in a scratch worktree: patch applies, existing tests pass with it, demo fails with it and passes without it (verify.log)",
        "checks_run": [f"tools/seeded.sh run {name} {c}  (git -C /repo apply; harness/run.sh {c} quick; git -C /repo checkout -- .)" for c in latest],
        "outcomes": list(latest.values()),
        "history": rs,
    }
    json.dump(meta, open(os.path.join(d, "meta.json"), "w"), indent=1)
    caught = [f"{c} ({r['first_line'].split('key=')[1].split(' ')[0] if 'key=' in r['first_line'] else 'violation'}, {r['seconds']} s)" for c, r in latest.items() if r["exit"] == 1]
    missed = [c for c, r in latest.items() if r["exit"] != 1]
    rows.append((name, what, needs, "; ".join(caught) or "—", ", ".join(missed) or ""))

if "--table" in sys.argv:
    print("| id | change | needs | caught by (quick tier: key, wall time incl. rebuild) | ran silent |")
    print("|---|---|---|---|---|")
    for r in rows:
        print("| " + " | ".join(x.replace("|", "\\|") for x in r) + " |")

#!/bin/bash
# Development aid: point the harness at a clean scratch worktree of the repository while seeded
# changes are being applied to /repo by tools/seeded.sh. Always switch back before committing.
#   tools/devpaths.sh clean   -> /root/repo-clean     tools/devpaths.sh repo -> /repo
cd "$(dirname "$0")/.."
F="harness/Cargo.toml harness/gentp/Cargo.toml harness/gentpd/Cargo.toml fuzz/Cargo.toml"
case "$1" in
  clean) sed -i 's#"/repo/#"/root/repo-clean/#g' $F;;
  repo) sed -i 's#"/root/repo-clean/#"/repo/#g' $F;;
esac
grep -h 'path = "/' $F | sort -u

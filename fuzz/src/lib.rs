//! Shared driver of the libFuzzer targets.
use proptest::strategy::{Strategy, ValueTree};
use proptest::test_runner::{Config, RngAlgorithm, TestRng, TestRunner};
use serde::Serialize;
use std::io::Write;
use vcore::evidence::{Fail, PResult};
use vcore::findings::Findings;

fn init() {
    static ONCE: std::sync::Once = std::sync::Once::new();
    ONCE.call_once(|| {
        // libfuzzer-sys aborts from its panic hook, also for panics the oracles catch and
        // classify; the oracle decides what is a failure
        let _ = std::panic::take_hook();
        vcore::evidence::quiet_panics();
    });
}

thread_local! {
    static FINDINGS: Findings = Findings::load();
}

/// A failure that is not an open known finding: write the replay file the vcheck binary
/// understands, print the VIOLATION line, abort (libFuzzer then saves the input as well).
pub fn fail<C: Serialize>(prop: &str, sub: &str, case: &C, f: &Fail) {
    if FINDINGS.with(|k| k.is_open(prop, &f.key)) {
        return;
    }
    if std::env::var("VFUZZ_TOLERATE").map(|t| t.split(',').any(|k| k == f.key)).unwrap_or(false) {
        return;
    }
    let replay = serde_json::json!({ "property": prop, "sub": sub, "key": f.key, "case": { "sub": sub, "key": f.key, "case": serde_json::to_value(case).unwrap() }, "message": f.msg });
    let dir = vcore::evidence::verif_root().join("replays");
    let _ = std::fs::create_dir_all(&dir);
    let mut h = std::collections::hash_map::DefaultHasher::new();
    std::hash::Hash::hash(&replay.to_string(), &mut h);
    let path = dir.join(format!("{}-fuzz-{:08x}.json", prop, std::hash::Hasher::finish(&h) as u32));
    let _ = std::fs::write(&path, serde_json::to_string_pretty(&replay).unwrap());
    println!("VIOLATION property={} replay={}", prop, path.display());
    println!("  [{}] key={} {}", sub, f.key, f.msg);
    let _ = std::io::stdout().flush();
    std::process::abort();
}

/// One fuzz iteration: the input bytes are the random choices of the strategy.
pub fn drive<C, S>(prop: &str, sub: &str, data: &[u8], strat: &S, check: impl Fn(&C) -> PResult)
where
    C: Serialize + std::fmt::Debug,
    S: Strategy<Value = C>,
{
    init();
    if data.len() < 4 {
        return;
    }
    let rng = TestRng::from_seed(RngAlgorithm::PassThrough, data);
    let mut runner = TestRunner::new_with_rng(Config { failure_persistence: None, ..Config::default() }, rng);
    let Ok(tree) = strat.new_tree(&mut runner) else { return };
    let case = tree.current();
    if let Err(f) = check(&case) {
        fail(prop, sub, &case, &f);
    }
}

pub fn setup() {
    init();
}

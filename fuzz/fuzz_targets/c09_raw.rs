#![no_main]
use libfuzzer_sys::fuzz_target;
use vcheck::c09::{check_case, Case, Src};
use vcore::tval::ALL_TT;

// raw bytes straight into every safe reader entry point (generic reader, skip, envelope,
// TApplicationException; sync and async; all protocols): first byte = wire type to read
fuzz_target!(|data: &[u8]| {
    vfuzz::setup();
    if data.is_empty() {
        return;
    }
    let c = Case { src: Src::Random { tt: ALL_TT[data[0] as usize % ALL_TT.len()], bytes: data[1..].to_vec() } };
    if let Err(f) = check_case(&c) {
        vfuzz::fail("C09", "total", &c, &f);
    }
});

#![no_main]
use libfuzzer_sys::fuzz_target;
use proptest::strategy::BoxedStrategy;
use vcheck::c01::{arb_case, Case};

thread_local! {
    static STRAT: BoxedStrategy<Case> = arb_case(4);
}

// the exact-size, canary-guarded regions of the oracle are heap allocations of their own, so
// AddressSanitizer additionally reports every access outside them
fuzz_target!(|data: &[u8]| {
    STRAT.with(|s| vfuzz::drive("C11", "unchecked", data, s, |c: &Case| vcheck::c11::check_case(c)));
});

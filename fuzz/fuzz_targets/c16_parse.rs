#![no_main]
use libfuzzer_sys::fuzz_target;
use vcheck::c16::{cap_nesting, check_case, Case};

// raw text: the input (lossily decoded) with nesting capped at 64 as the property states
fuzz_target!(|data: &[u8]| {
    vfuzz::setup();
    let text = cap_nesting(&String::from_utf8_lossy(data), 64);
    let c = Case { text, origin: "libFuzzer".into() };
    if let Err(f) = check_case(&c) {
        vfuzz::fail("C16", "total", &c, &f);
    }
});

#![no_main]
use libfuzzer_sys::fuzz_target;
use pilota::prost::encoding::{self, DecodeContext, WireType};
use pilota::prost::{DecodeError, Message};

// A hand-written message in the style of generated code: every field-codec family, recursion
// through an optional field, a repeated field and a map value.
#[derive(Clone, Debug, Default, PartialEq)]
struct Node {
    a: i32,
    s: pilota::FastStr,
    b: bytes::Bytes,
    r: Vec<i64>,
    f: Vec<u32>,
    next: Option<Box<Node>>,
    kids: Vec<Node>,
    m: pilota::AHashMap<pilota::FastStr, Node>,
    d: f64,
    z: i64,
}

impl Message for Node {
    fn encode_raw<B: bytes::BufMut>(&self, buf: &mut B) {
        encoding::int32::encode(1, &self.a, buf);
        encoding::faststr::encode(2, &self.s, buf);
        encoding::bytes::encode(3, &self.b, buf);
        encoding::int64::encode_repeated(4, &self.r, buf);
        encoding::fixed32::encode_packed(5, &self.f, buf);
        if let Some(n) = &self.next {
            encoding::message::encode(6, n.as_ref(), buf);
        }
        encoding::message::encode_repeated(7, &self.kids, buf);
        encoding::hash_map::encode(encoding::faststr::encode, encoding::faststr::encoded_len, encoding::message::encode, encoding::message::encoded_len, 8, &self.m, buf);
        encoding::double::encode(9, &self.d, buf);
        encoding::sint64::encode(10, &self.z, buf);
    }
    fn merge_field<B: bytes::Buf>(&mut self, tag: u32, wire_type: WireType, buf: &mut B, ctx: DecodeContext) -> Result<(), DecodeError> {
        match tag {
            1 => encoding::int32::merge(wire_type, &mut self.a, buf, ctx),
            2 => encoding::faststr::merge(wire_type, &mut self.s, buf, ctx),
            3 => encoding::bytes::merge(wire_type, &mut self.b, buf, ctx),
            4 => encoding::int64::merge_repeated(wire_type, &mut self.r, buf, ctx),
            5 => encoding::fixed32::merge_repeated(wire_type, &mut self.f, buf, ctx),
            6 => encoding::message::merge(wire_type, self.next.get_or_insert_with(Default::default).as_mut(), buf, ctx),
            7 => encoding::message::merge_repeated(wire_type, &mut self.kids, buf, ctx),
            8 => encoding::hash_map::merge(encoding::faststr::merge, encoding::message::merge, &mut self.m, buf, ctx),
            9 => encoding::double::merge(wire_type, &mut self.d, buf, ctx),
            10 => encoding::sint64::merge(wire_type, &mut self.z, buf, ctx),
            _ => encoding::skip_field(wire_type, tag, buf, ctx),
        }
    }
    fn encoded_len(&self) -> usize {
        encoding::int32::encoded_len(1, &self.a)
            + encoding::faststr::encoded_len(2, &self.s)
            + encoding::bytes::encoded_len(3, &self.b)
            + encoding::int64::encoded_len_repeated(4, &self.r)
            + encoding::fixed32::encoded_len_packed(5, &self.f)
            + self.next.as_ref().map_or(0, |n| encoding::message::encoded_len(6, n.as_ref()))
            + encoding::message::encoded_len_repeated(7, &self.kids)
            + encoding::hash_map::encoded_len(encoding::faststr::encoded_len, encoding::message::encoded_len, 8, &self.m)
            + encoding::double::encoded_len(9, &self.d)
            + encoding::sint64::encoded_len(10, &self.z)
    }
}

fn probe<M: Message + Default + PartialEq + std::fmt::Debug>(data: &[u8], what: &str) -> Result<(), String> {
    let r = std::panic::catch_unwind(|| {
        let a = M::decode(bytes::Bytes::copy_from_slice(data));
        let _ = M::decode_length_delimited(bytes::Bytes::copy_from_slice(data));
        a
    });
    match r {
        Err(p) => Err(format!("{}: decoder panicked: {:?}", what, p.downcast_ref::<String>().cloned().or_else(|| p.downcast_ref::<&str>().map(|s| s.to_string())))),
        Ok(Err(_)) => Ok(()),
        Ok(Ok(m)) => {
            // what decodes must re-encode to something that decodes to the same message,
            // and encoded_len must agree with the bytes written
            let r = std::panic::catch_unwind(std::panic::AssertUnwindSafe(|| {
                let mut lb = bytes::BytesMut::new();
                m.encode(&mut lb).map_err(|e| format!("{}: re-encode failed: {:?}", what, e))?;
                let out = lb.freeze();
                if out.len() != m.encoded_len() {
                    return Err(format!("{}: encoded_len {} but {} bytes written", what, m.encoded_len(), out.len()));
                }
                match M::decode(out) {
                    Ok(m2) if m2 == m || format!("{:?}", m2) == format!("{:?}", m) => Ok(()),
                    Ok(m2) => Err(format!("{}: decode(encode(m)) differs: {:?} vs {:?}", what, m, m2)),
                    Err(e) => Err(format!("{}: own encoding rejected: {:?}", what, e)),
                }
            }));
            match r {
                Ok(x) => x,
                Err(_) => Err(format!("{}: re-encoding panicked", what)),
            }
        }
    }
}

// raw bytes into the runtime decoders: hand-written message (all codec families, recursion),
// the wrapper-type messages and the length-delimited framing; libFuzzer's -malloc_limit_mb
// bounds single allocations
fuzz_target!(|data: &[u8]| {
    vfuzz::setup();
    let r = probe::<Node>(data, "Node")
        .and_then(|_| probe::<u64>(data, "u64"))
        .and_then(|_| probe::<i32>(data, "i32"))
        .and_then(|_| probe::<bool>(data, "bool"))
        .and_then(|_| probe::<String>(data, "String"))
        .and_then(|_| probe::<Vec<u8>>(data, "Vec<u8>"))
        .and_then(|_| probe::<f64>(data, "f64"))
        .and_then(|_| probe::<()>(data, "()"));
    if let Err(m) = r {
        let f = vcore::evidence::Fail::new("pb-raw", m);
        vfuzz::fail("C10", "fuzz-raw", &vcore::tval::hex(data), &f);
    }
});

#![no_main]
use libfuzzer_sys::fuzz_target;
use proptest::strategy::BoxedStrategy;
use vcheck::c07::*;

thread_local! {
    static STRAT: BoxedStrategy<Case> = arb_case();
}

fuzz_target!(|data: &[u8]| {
    STRAT.with(|s| vfuzz::drive("C07", "skip", data, s, |c: &Case| check_case(c)));
});

#![no_main]
use libfuzzer_sys::fuzz_target;
use proptest::strategy::BoxedStrategy;
use vcheck::c01::*;

thread_local! {
    static STRAT: BoxedStrategy<Case> = arb_case(4);
}

fuzz_target!(|data: &[u8]| {
    STRAT.with(|s| vfuzz::drive("C01", "roundtrip", data, s, |c: &Case| check_case(c)));
});

#![no_main]
use libfuzzer_sys::fuzz_target;
use proptest::prelude::*;
use proptest::strategy::BoxedStrategy;
use vcheck::c05::*;
use vcore::pdyn::{arb_msg, arb_schema};

thread_local! {
    static STRAT: BoxedStrategy<MergeCase> = (0u32..=2).prop_flat_map(arb_schema).prop_flat_map(|schema| (arb_msg(&schema), arb_msg(&schema)).prop_map(move |(a, b)| MergeCase { schema: schema.clone(), a, b })).boxed();
}

// merge semantics of the codec modules over run-time described messages
fuzz_target!(|data: &[u8]| {
    STRAT.with(|s| vfuzz::drive("C18", "pb-runtime-merge", data, s, |c: &MergeCase| check_merge(c)));
});

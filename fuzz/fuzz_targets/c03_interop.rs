#![no_main]
use libfuzzer_sys::fuzz_target;
use proptest::strategy::BoxedStrategy;
use vcheck::c03::*;

thread_local! {
    static STRAT: BoxedStrategy<Case> = arb_case();
}

fuzz_target!(|data: &[u8]| {
    STRAT.with(|s| vfuzz::drive("C03", "interop", data, s, |c: &Case| check_case(c)));
});

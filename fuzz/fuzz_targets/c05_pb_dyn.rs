#![no_main]
use libfuzzer_sys::fuzz_target;
use proptest::strategy::BoxedStrategy;
use vcheck::c05::*;

thread_local! {
    static STRAT: BoxedStrategy<Case> = arb_case();
}

// run-time described protobuf messages over the field codec modules: round trip against the
// second reference codec (the strategy's choices are the fuzzer's input)
fuzz_target!(|data: &[u8]| {
    STRAT.with(|s| vfuzz::drive("C05", "pb-runtime", data, s, |c: &Case| check_case(c)));
});

#![no_main]
use libfuzzer_sys::fuzz_target;
use proptest::strategy::BoxedStrategy;
use vcheck::c15::*;

thread_local! {
    static STRAT: BoxedStrategy<Case> = arb_case(true);
}

fuzz_target!(|data: &[u8]| {
    STRAT.with(|s| vfuzz::drive("C15", "roundtrip", data, s, |c: &Case| check_case(c)));
});

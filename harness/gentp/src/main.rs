//! Links the Rust code pilota-build generated for the protobuf corpus with the value-level
//! checks (pilota feature pb-encode-default-value: off).
#[global_allocator]
static ALLOC: vrt::alloc::Counting = vrt::alloc::Counting;

#[allow(warnings, clippy::all)]
mod generated {
    include!(concat!(env!("VERIF_PGEN_DIR"), "/all.rs"));
}

fn main() {
    std::process::exit(vgen::pmain(generated::ptable(), false));
}

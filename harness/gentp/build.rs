fn main() {
    let dir = std::env::var("VERIF_PGEN_DIR").unwrap_or_else(|_| "/verif/work/gen_proto".to_string());
    println!("cargo:rustc-env=VERIF_PGEN_DIR={}", dir);
    println!("cargo:rerun-if-env-changed=VERIF_PGEN_DIR");
    println!("cargo:rerun-if-changed={}/all.rs", dir);
}

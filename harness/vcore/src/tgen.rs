//! Generator for semantic Thrift documents: a raw tree of numeric choices (what proptest
//! generates and shrinks) is resolved deterministically into a well-formed `SDoc`.
use crate::shrink::Shrink;
use crate::tschema::*;
use proptest::prelude::*;
use serde::{Deserialize, Serialize};

#[derive(Clone, Debug, PartialEq, Eq, Hash, Serialize, Deserialize)]
pub enum RawTy {
    Base(u8),
    List(Box<RawTy>),
    Set(Box<RawTy>),
    Map(Box<RawTy>, Box<RawTy>),
    /// index into the eligible named types; `back`: may point at a later / the same declaration
    Named(u16, bool),
}

#[derive(Clone, Debug, PartialEq, Eq, Hash, Serialize, Deserialize)]
pub struct RawField {
    pub id_seed: u16,
    pub req: u8,
    pub ty: RawTy,
    pub default_seed: Option<u32>,
}

#[derive(Clone, Debug, PartialEq, Eq, Hash, Serialize, Deserialize)]
pub struct RawMethod {
    pub oneway: bool,
    pub ret: Option<RawTy>,
    pub args: Vec<RawField>,
    pub throws: Vec<u16>,
}

#[derive(Clone, Debug, PartialEq, Eq, Hash, Serialize, Deserialize)]
pub enum RawKind {
    Enum(Vec<u16>),
    Typedef(RawTy),
    Struct(Vec<RawField>),
    Exception(Vec<RawField>),
    Union(Vec<RawField>),
    Const(RawTy, u32),
    Service(Vec<RawMethod>),
}

#[derive(Clone, Debug, PartialEq, Eq, Hash, Serialize, Deserialize)]
pub struct RawDecl {
    pub file: u8,
    pub kind: RawKind,
}

#[derive(Clone, Debug, PartialEq, Eq, Hash, Serialize, Deserialize)]
pub struct RawDoc {
    pub nfiles: u8,
    /// per file: 0 = no namespace, otherwise number of segments and a seed
    pub namespaces: Vec<(u8, u16)>,
    pub decls: Vec<RawDecl>,
    /// which grammar features are enabled
    pub opts: GenOpts,
}

#[derive(Clone, Copy, Debug, PartialEq, Eq, Hash, Serialize, Deserialize)]
pub struct GenOpts {
    pub defaults: bool,
    pub recursion: bool,
    pub services: bool,
    pub struct_keys: bool,
    /// unions that refer to themselves / to each other (known finding class for C14)
    pub recursive_unions: bool,
    pub annotations: bool,
    /// identifiers from the hostile pool (Rust keywords, case-conversion collisions, leading
    /// underscores, SHOUTY/camel mixtures) instead of the predictable plain pool
    pub hostile_names: bool,
    /// known-finding class container-literal-gaps: set-typed constants, sets / maps nested inside
    /// list or map literals
    pub literal_gaps: bool,
    /// known-finding class default-on-annotated-type: a default on a field whose Rust type is
    /// changed by pilota.rust_type="vec" or pilota.rust_wrapper_arc
    pub annotated_defaults: bool,
    /// known-finding class prelude-name-shadowing: enums / typedefs / constants named Ok, Err,
    /// None, Some
    pub prelude_names: bool,
    /// known-finding class btree-double-hash: pilota.rust_type="btree" on a container that holds
    /// doubles
    pub btree_double: bool,
    /// known-finding class const-newtype-name-collision: a constant whose SHOUTY name equals the
    /// name of an enum / typedef of the same file
    pub const_collisions: bool,
}

impl Default for GenOpts {
    fn default() -> Self {
        GenOpts { defaults: true, recursion: true, services: true, struct_keys: true, recursive_unions: false, annotations: true, hostile_names: false, literal_gaps: false, annotated_defaults: false, prelude_names: false, btree_double: false, const_collisions: false }
    }
}

const SYL: [&str; 16] = ["Bak", "Cil", "Dop", "Fen", "Gur", "Haz", "Jex", "Kiv", "Lom", "Nud", "Paf", "Qor", "Ruz", "Sib", "Tav", "Wex"];
const NS: [&str; 8] = ["alpha", "beta", "core", "data", "edge", "flux", "grid", "hub"];

/// Rust keywords (strict, reserved, weak) that are not reserved words of the Thrift IDL.
pub const PRELUDE_NAMES: [&str; 4] = ["Ok", "Err", "None", "Some"];
pub const RUST_KEYWORDS: [&str; 47] = [
    "as", "break", "continue", "crate", "else", "extern", "fn", "for", "if", "impl", "in", "let", "loop", "match", "mod", "move", "mut", "pub", "ref", "return", "self", "Self",
    "static", "super", "trait", "type", "unsafe", "use", "where", "while", "async", "await", "dyn", "abstract", "become", "box", "do", "final", "macro", "override", "priv",
    "typeof", "unsized", "virtual", "yield", "try", "gen",
];
/// Groups of names that collide after snake/camel/shouty case conversion.
pub const COLLIDING: [&[&str]; 6] = [&["TEST", "Test", "test"], &["ip", "IP", "Ip"], &["a_b", "aB", "AB"], &["ID", "Id", "id", "i_d"], &["getHTTPResponse", "get_http_response", "GetHttpResponse"], &["x1", "X1", "x_1"]];
pub const ODD: [&str; 9] = ["_x", "__y", "a1", "X1Y2", "HTTPServer", "ABC_def", "aBcD", "Z", "q"];

fn mixh(a: u64, b: u64) -> u64 {
    let mut x = a.wrapping_mul(0x9E37_79B9_7F4A_7C15) ^ b.wrapping_mul(0xC2B2_AE3D_27D4_EB4F);
    x ^= x >> 29;
    x = x.wrapping_mul(0xBF58_476D_1CE4_E5B9);
    x ^ (x >> 32)
}

/// A hostile identifier, unique within `used` (exact duplicates are not legal Thrift).
fn hostile(seed: u64, used: &mut std::collections::BTreeSet<String>, prelude: bool) -> String {
    let h = mixh(seed, 17);
    if prelude && h % 3 == 0 {
        let c = PRELUDE_NAMES[(h >> 8) as usize % 4].to_string();
        if used.insert(c.clone()) {
            return c;
        }
    }
    let mut cand: String = match h % 10 {
        0..=3 => RUST_KEYWORDS[(h >> 8) as usize % RUST_KEYWORDS.len()].to_string(),
        4..=6 => {
            let g = COLLIDING[(h >> 8) as usize % COLLIDING.len()];
            g[(h >> 20) as usize % g.len()].to_string()
        }
        7 => ODD[(h >> 8) as usize % ODD.len()].to_string(),
        _ => format!("{}{}", SYL[(h >> 8) as usize % SYL.len()], (h >> 16) % 50),
    };
    let mut n = 0;
    while !used.insert(cand.clone()) {
        // walk through the collision group / add a suffix
        n += 1;
        let h2 = mixh(seed, 100 + n);
        cand = if n < 6 {
            let g = COLLIDING[(h2 >> 8) as usize % COLLIDING.len()];
            g[(h2 >> 20) as usize % g.len()].to_string()
        } else {
            format!("{}{}", RUST_KEYWORDS[(h2 >> 8) as usize % RUST_KEYWORDS.len()], n)
        };
    }
    cand
}

fn arb_raw_ty(depth: u32, key: bool) -> BoxedStrategy<RawTy> {
    let named = (any::<u16>(), prop::bool::weighted(0.25)).prop_map(|(i, b)| RawTy::Named(i, b));
    if depth == 0 {
        return prop_oneof![4 => (0u8..9).prop_map(RawTy::Base), 2 => named].boxed();
    }
    if key {
        return prop_oneof![5 => (0u8..9).prop_map(RawTy::Base), 2 => named, 1 => arb_raw_ty(depth - 1, true).prop_map(|t| RawTy::List(Box::new(t)))].boxed();
    }
    prop_oneof![
        5 => (0u8..9).prop_map(RawTy::Base),
        3 => named,
        1 => arb_raw_ty(depth - 1, false).prop_map(|t| RawTy::List(Box::new(t))),
        1 => arb_raw_ty(depth - 1, true).prop_map(|t| RawTy::Set(Box::new(t))),
        1 => (arb_raw_ty(depth - 1, true), arb_raw_ty(depth - 1, false)).prop_map(|(k, v)| RawTy::Map(Box::new(k), Box::new(v))),
    ]
    .boxed()
}

fn arb_raw_field() -> BoxedStrategy<RawField> {
    (any::<u16>(), 0u8..4, arb_raw_ty(3, false), prop::option::weighted(0.35, any::<u32>()))
        .prop_map(|(id_seed, req, ty, default_seed)| RawField { id_seed, req, ty, default_seed })
        .boxed()
}

fn arb_raw_decl() -> BoxedStrategy<RawDecl> {
    let kind = prop_oneof![
        2 => prop::collection::vec(any::<u16>(), 0..6).prop_map(RawKind::Enum),
        2 => arb_raw_ty(3, false).prop_map(RawKind::Typedef),
        6 => prop::collection::vec(arb_raw_field(), 0..8).prop_map(RawKind::Struct),
        1 => prop::collection::vec(arb_raw_field(), 0..4).prop_map(RawKind::Exception),
        2 => prop::collection::vec(arb_raw_field(), 0..5).prop_map(RawKind::Union),
        1 => (arb_raw_ty(2, false), any::<u32>()).prop_map(|(t, s)| RawKind::Const(t, s)),
        2 => prop::collection::vec(
            (any::<bool>(), prop::option::weighted(0.75, arb_raw_ty(2, false)), prop::collection::vec(arb_raw_field(), 0..3), prop::collection::vec(any::<u16>(), 0..2))
                .prop_map(|(oneway, ret, args, throws)| RawMethod { oneway, ret, args, throws }),
            0..4
        )
        .prop_map(RawKind::Service),
    ];
    (any::<u8>(), kind).prop_map(|(file, kind)| RawDecl { file, kind }).boxed()
}

pub fn arb_raw_doc(opts: GenOpts) -> BoxedStrategy<RawDoc> {
    (1u8..=3, prop::collection::vec((0u8..4, any::<u16>()), 3), prop::collection::vec(arb_raw_decl(), 3..14))
        .prop_map(move |(nfiles, namespaces, decls)| RawDoc { nfiles, namespaces, decls, opts })
        .boxed()
}

impl Shrink for RawDoc {
    fn candidates(&self) -> Vec<RawDoc> {
        let mut out = vec![];
        if self.nfiles > 1 {
            out.push(RawDoc { nfiles: 1, ..self.clone() });
        }
        for i in 0..self.decls.len() {
            let mut d = self.decls.clone();
            d.remove(i);
            out.push(RawDoc { decls: d, ..self.clone() });
        }
        if self.namespaces.iter().any(|n| n.0 != 0) {
            out.push(RawDoc { namespaces: vec![(0, 0); 3], ..self.clone() });
        }
        for i in 0..self.decls.len() {
            let alts: Vec<RawKind> = match &self.decls[i].kind {
                RawKind::Struct(fs) => shrink_fields(fs).into_iter().map(RawKind::Struct).collect(),
                RawKind::Exception(fs) => shrink_fields(fs).into_iter().map(RawKind::Exception).collect(),
                RawKind::Union(fs) => shrink_fields(fs).into_iter().map(RawKind::Union).collect(),
                RawKind::Enum(ms) => (0..ms.len())
                    .map(|j| {
                        let mut m = ms.clone();
                        m.remove(j);
                        RawKind::Enum(m)
                    })
                    .collect(),
                RawKind::Typedef(t) => shrink_ty(t).into_iter().map(RawKind::Typedef).collect(),
                RawKind::Const(t, s) => shrink_ty(t).into_iter().map(|t| RawKind::Const(t, *s)).collect(),
                RawKind::Service(ms) => {
                    let mut v = vec![];
                    for j in 0..ms.len() {
                        let mut m = ms.clone();
                        m.remove(j);
                        v.push(RawKind::Service(m));
                    }
                    for j in 0..ms.len() {
                        for a in shrink_fields(&ms[j].args) {
                            let mut m = ms.clone();
                            m[j].args = a;
                            v.push(RawKind::Service(m));
                        }
                        if !ms[j].throws.is_empty() {
                            let mut m = ms.clone();
                            m[j].throws.clear();
                            v.push(RawKind::Service(m));
                        }
                        if let Some(r) = &ms[j].ret {
                            let mut m = ms.clone();
                            m[j].ret = None;
                            v.push(RawKind::Service(m));
                            for t in shrink_ty(r) {
                                let mut m = ms.clone();
                                m[j].ret = Some(t);
                                v.push(RawKind::Service(m));
                            }
                        }
                    }
                    v
                }
            };
            for k in alts {
                let mut d = self.decls.clone();
                d[i].kind = k;
                out.push(RawDoc { decls: d, ..self.clone() });
            }
        }
        out
    }
}

fn shrink_ty(t: &RawTy) -> Vec<RawTy> {
    let mut out = vec![];
    if *t != RawTy::Base(3) {
        out.push(RawTy::Base(3));
    }
    match t {
        RawTy::List(e) | RawTy::Set(e) => {
            out.push((**e).clone());
            for s in shrink_ty(e) {
                out.push(if matches!(t, RawTy::List(_)) { RawTy::List(Box::new(s)) } else { RawTy::Set(Box::new(s)) });
            }
        }
        RawTy::Map(k, v) => {
            out.push((**v).clone());
            for s in shrink_ty(k) {
                out.push(RawTy::Map(Box::new(s), v.clone()));
            }
            for s in shrink_ty(v) {
                out.push(RawTy::Map(k.clone(), Box::new(s)));
            }
        }
        RawTy::Named(i, true) => out.push(RawTy::Named(*i, false)),
        _ => {}
    }
    out
}

fn shrink_fields(fs: &[RawField]) -> Vec<Vec<RawField>> {
    let mut out = vec![];
    for i in 0..fs.len() {
        let mut v = fs.to_vec();
        v.remove(i);
        out.push(v);
    }
    for i in 0..fs.len() {
        if fs[i].default_seed.is_some() {
            let mut v = fs.to_vec();
            v[i].default_seed = None;
            out.push(v);
        }
        for t in shrink_ty(&fs[i].ty) {
            let mut v = fs.to_vec();
            v[i].ty = t;
            out.push(v);
        }
        if fs[i].req != 1 {
            let mut v = fs.to_vec();
            v[i].req = 1;
            out.push(v);
        }
    }
    out
}

// ---------------------------------------------------------------------------------------------
// resolution

struct Named {
    file: usize,
    name: String,
    pos: usize,
    kind: NK,
}

#[derive(Clone, Copy, PartialEq, Debug)]
enum NK {
    Enum,
    Typedef,
    Struct,
    Exception,
    Union,
}

struct Ctx<'a> {
    in_const: std::cell::Cell<bool>,
    raw: &'a RawDoc,
    named: Vec<Named>,
    /// resolved declarations so far (for key-eligibility checks), by position
    done: Vec<Option<Decl>>,
    files: Vec<SFile>,
}

fn base_ty(b: u8) -> STy {
    match b % 9 {
        0 => STy::Bool,
        1 => STy::Byte,
        2 => STy::I16,
        3 => STy::I32,
        4 => STy::I64,
        5 => STy::Double,
        6 => STy::String,
        7 => STy::Binary,
        _ => STy::Uuid,
    }
}

impl<'a> Ctx<'a> {
    fn nfiles(&self) -> usize {
        self.raw.nfiles.max(1) as usize
    }

    /// Is `t` usable as a set element / map key (hashable in Rust, no double inside structs)?
    fn key_ok(&self, t: &STy, in_struct: bool) -> bool {
        self.key_ok_rec(t, in_struct, &mut vec![])
    }
    fn key_ok_rec(&self, t: &STy, in_struct: bool, visiting: &mut Vec<usize>) -> bool {
        match t {
            STy::Double => !in_struct,
            STy::Bool | STy::Byte | STy::I16 | STy::I32 | STy::I64 | STy::String | STy::Binary | STy::Uuid => true,
            STy::List(e) => self.key_ok_rec(e, in_struct, visiting),
            STy::Set(_) | STy::Map(..) => false,
            STy::Named(f, n) => {
                let Some(nm) = self.named.iter().find(|x| x.file == *f && x.name == *n) else { return false };
                match nm.kind {
                    NK::Enum => true,
                    NK::Typedef => false,
                    NK::Struct | NK::Exception | NK::Union => {
                        if !self.raw.opts.struct_keys || visiting.contains(&nm.pos) {
                            // (recursive types are kept out of key position)
                            return false;
                        }
                        visiting.push(nm.pos);
                        let r = match self.done.get(nm.pos).and_then(|d| d.as_ref()).map(|d| &d.kind) {
                            Some(DeclKind::Struct(fs)) | Some(DeclKind::Exception(fs)) | Some(DeclKind::Union(fs)) => fs.iter().all(|f| self.key_ok_rec(&f.ty, true, visiting)),
                            _ => false,
                        };
                        visiting.pop();
                        r
                    }
                }
            }
        }
    }

    /// `pos`: position of the declaration being resolved; `file`: its file; `allow_back`:
    /// whether this position tolerates a reference to a later (or the same) declaration.
    fn ty(&self, t: &RawTy, pos: usize, file: usize, allow_back: bool, key: bool, from_union: bool) -> STy {
        match t {
            RawTy::Base(b) => base_ty(*b),
            RawTy::List(e) => STy::List(Box::new(self.ty(e, pos, file, allow_back, key, from_union))),
            RawTy::Set(e) => {
                let inner = self.ty(e, pos, file, false, true, from_union);
                STy::Set(Box::new(if self.key_ok(&inner, false) { inner } else { STy::I64 }))
            }
            RawTy::Map(k, v) => {
                let kk = self.ty(k, pos, file, false, true, from_union);
                let kk = if self.key_ok(&kk, false) { kk } else { STy::String };
                STy::Map(Box::new(kk), Box::new(self.ty(v, pos, file, allow_back, key, from_union)))
            }
            RawTy::Named(i, back) => {
                let back_ok = *back && allow_back && !key && self.raw.opts.recursion && (!from_union || self.raw.opts.recursive_unions);
                // eligible: types in files >= file (same file or includable), declared earlier;
                // with back_ok also later struct-like declarations
                let elig: Vec<&Named> = self
                    .named
                    .iter()
                    .filter(|n| n.file >= file)
                    .filter(|n| {
                        if n.pos < pos {
                            true
                        } else {
                            back_ok && matches!(n.kind, NK::Struct | NK::Exception | NK::Union) && (!from_union || n.kind == NK::Union || self.raw.opts.recursive_unions)
                        }
                    })
                    .collect();
                if elig.is_empty() {
                    return STy::I32;
                }
                let n = elig[(*i as usize * elig.len()) >> 16];
                STy::Named(n.file, n.name.clone())
            }
        }
    }

    fn lit_for(&self, doc_files: &[SFile], ty: &STy, seed: u32, depth: u32) -> Option<Lit> {
        let pick = |n: u32| -> u32 { seed.wrapping_mul(2654435761).rotate_left(depth * 7 + 3) % n.max(1) };
        match ty {
            STy::Bool => Some(if pick(3) == 0 { Lit::Int((seed % 2) as i64) } else { Lit::Bool(seed % 2 == 1) }),
            STy::Byte => Some(Lit::Int((seed % 256) as i64 - 128)),
            STy::I16 => Some(Lit::Int((seed % 65536) as i64 - 32768)),
            STy::I32 => Some(Lit::Int(seed as i32 as i64)),
            STy::I64 => Some(Lit::Int(((seed as i64) << 20) ^ seed as i64)),
            STy::Double => Some(if pick(2) == 0 { Lit::Int((seed % 1000) as i64 - 500) } else { Lit::Double(format!("{}.{}", seed % 1000, (seed >> 10) % 100)) }),
            STy::String | STy::Binary => {
                const WORDS: [&str; 6] = ["", "hello", "a b", "x-1.y_z", "0", "Quite Long Default Value 123"];
                Some(Lit::Str(WORDS[pick(6) as usize].to_string()))
            }
            STy::Uuid => None,
            STy::List(e) => {
                if depth > 1 || (depth == 1 && self.in_const.get() && !self.raw.opts.literal_gaps) {
                    return Some(Lit::List(vec![]));
                }
                let n = pick(3);
                let mut v = vec![];
                for i in 0..n {
                    v.push(self.lit_for(doc_files, e, seed.wrapping_add(i * 977 + 1), depth + 1)?);
                }
                Some(Lit::List(v))
            }
            STy::Set(e) => {
                // outside the known-finding class: sets only as a top-level field default
                if !self.raw.opts.literal_gaps && (depth > 0 || self.in_const.get()) {
                    return None;
                }
                if depth > 1 {
                    return Some(Lit::List(vec![]));
                }
                // at most one element: distinctness is then trivial
                let n = pick(2);
                let mut v = vec![];
                for i in 0..n {
                    v.push(self.lit_for(doc_files, e, seed.wrapping_add(i * 31 + 5), depth + 1)?);
                }
                Some(Lit::List(v))
            }
            STy::Map(k, v) => {
                if !self.raw.opts.literal_gaps && depth > 0 {
                    return None;
                }
                if depth > 1 {
                    return Some(Lit::Map(vec![]));
                }
                let n = pick(2);
                let mut out = vec![];
                for i in 0..n {
                    out.push((self.lit_for(doc_files, k, seed.wrapping_add(i * 13 + 7), depth + 1)?, self.lit_for(doc_files, v, seed.wrapping_add(i * 17 + 11), depth + 1)?));
                }
                Some(Lit::Map(out))
            }
            STy::Named(f, n) => {
                let d = doc_files[*f].decls.iter().find(|d| d.name == *n)?;
                match &d.kind {
                    DeclKind::Enum(ms) if !ms.is_empty() => {
                        let m = &ms[pick(ms.len() as u32) as usize];
                        Some(if pick(3) == 0 { Lit::Int(m.1 as i64) } else { Lit::EnumMember(*f, n.clone(), m.0.clone()) })
                    }
                    DeclKind::Typedef(t) => {
                        // outside the known-finding class: through a typedef only scalars, strings and lists
                        let simple = !matches!(t, STy::Map(..) | STy::Set(_) | STy::Named(..));
                        if simple || self.raw.opts.literal_gaps {
                            self.lit_for(doc_files, t, seed, depth)
                        } else {
                            None
                        }
                    }
                    _ => None,
                }
            }
        }
    }
}

fn has_double(t: &STy) -> bool {
    match t {
        STy::Double => true,
        STy::List(e) | STy::Set(e) => has_double(e),
        STy::Map(k, v) => has_double(k) || has_double(v),
        // (named types: a struct holding a double is never a key, and as a value it does not
        // derive Hash itself)
        _ => false,
    }
}

/// pilota annotations on the shapes the resolver accepts.
fn field_annots(cx: &Ctx, ty: &STy, seed: u16, i: usize) -> Vec<(String, String)> {
    let h = mixh(seed as u64, i as u64 + 99);
    let mut out = vec![];
    let is_structlike = |t: &STy| match t {
        STy::Named(f, n) => cx.named.iter().any(|x| x.file == *f && x.name == *n && matches!(x.kind, NK::Struct | NK::Exception | NK::Union)),
        _ => false,
    };
    match ty {
        STy::String if h % 4 == 0 => {
            out.push(("pilota.rust_type".to_string(), "string".to_string()));
            if h % 8 == 0 {
                out.push(("pilota.rust_wrapper_arc".to_string(), "true".to_string()));
            }
        }
        STy::Binary if h % 4 == 0 => {
            out.push(("pilota.rust_type".to_string(), "vec".to_string()));
            if h % 8 == 0 {
                out.push(("pilota.rust_wrapper_arc".to_string(), "true".to_string()));
            }
        }
        STy::Set(_) | STy::Map(..) if h % 4 == 0 && (cx.raw.opts.btree_double || !has_double(ty)) => out.push(("pilota.rust_type".to_string(), "btree".to_string())),
        t if is_structlike(t) && h % 5 == 0 => out.push(("pilota.rust_wrapper_arc".to_string(), "true".to_string())),
        STy::List(e) if is_structlike(e) && h % 5 == 0 => out.push(("pilota.rust_wrapper_arc".to_string(), "true".to_string())),
        _ => {}
    }
    if h % 23 == 0 {
        out.push(("pilota.name".to_string(), format!("renamed_{}", i)));
    }
    if h % 19 == 0 {
        out.push(("go.tag".to_string(), "json:\"x,omitempty\"".to_string()));
    }
    out
}

pub fn resolve(raw: &RawDoc) -> SDoc {
    let nfiles = raw.nfiles.clamp(1, 3) as usize;
    // names first (so that forward references can be resolved)
    let mut named = vec![];
    let mut names = vec![];
    let name_seed: u64 = raw.namespaces.iter().fold(raw.decls.len() as u64, |a, n| mixh(a, n.1 as u64 + ((n.0 as u64) << 16)));
    let mut top_used: Vec<std::collections::BTreeSet<String>> = vec![Default::default(); nfiles];
    let mut value_ns: Vec<std::collections::BTreeSet<String>> = vec![Default::default(); nfiles];
    for (pos, d) in raw.decls.iter().enumerate() {
        let file = d.file as usize % nfiles;
        let syl = SYL[(pos * 7 + file * 3) % SYL.len()];
        let nk = match &d.kind {
            RawKind::Enum(_) => Some(NK::Enum),
            RawKind::Typedef(_) => Some(NK::Typedef),
            RawKind::Struct(_) => Some(NK::Struct),
            RawKind::Exception(_) => Some(NK::Exception),
            RawKind::Union(_) => Some(NK::Union),
            RawKind::Const(..) | RawKind::Service(_) => None,
        };
        let name = if raw.opts.hostile_names {
            let mut n = hostile(mixh(name_seed, pos as u64), &mut top_used[file], raw.opts.prelude_names);
            if !raw.opts.const_collisions {
                // constants live in the value namespace next to the tuple structs generated for
                // enums and typedefs; keep their case-folded names apart
                let fold = |x: &str| x.chars().filter(|c| c.is_ascii_alphanumeric()).collect::<String>().to_uppercase();
                let is_value_item = matches!(d.kind, RawKind::Const(..) | RawKind::Enum(_) | RawKind::Typedef(_));
                let mut k = 0;
                while is_value_item && value_ns[file].contains(&fold(&n)) {
                    k += 1;
                    let c = format!("{}{}", SYL[(pos + k) % SYL.len()], pos * 10 + k);
                    if top_used[file].insert(c.clone()) {
                        n = c;
                    }
                }
                if is_value_item {
                    value_ns[file].insert(fold(&n));
                }
            }
            n
        } else {
            match &d.kind {
                RawKind::Const(..) => format!("K{}{}", syl.to_uppercase(), pos),
                RawKind::Service(_) => format!("Svc{}", pos),
                _ => format!("{}{}", syl, pos),
            }
        };
        if let Some(k) = nk {
            named.push(Named { file, name: name.clone(), pos, kind: k });
        }
        names.push((file, name));
    }
    let mut files: Vec<SFile> = (0..nfiles)
        .map(|i| {
            let (segs, seed) = raw.namespaces.get(i).copied().unwrap_or((0, 0));
            let namespace: Vec<String> = (0..segs.min(3))
                .map(|s| {
                    if raw.opts.hostile_names && (seed as usize + s as usize) % 2 == 0 {
                        // keyword path segments; the file index keeps module paths of different files apart
                        format!("{}{}", RUST_KEYWORDS[(seed as usize + s as usize * 7 + i) % RUST_KEYWORDS.len()], if s == 0 { i.to_string() } else { String::new() })
                    } else if s == 0 && segs >= 2 && seed % 4 == 1 {
                        // a first segment shared by the files that take this branch: sibling
                        // modules below one parent module
                        "root".to_string()
                    } else if s > 0 && s + 1 == segs.min(3) && seed % 3 == 0 {
                        // a last segment shared by the files that take this branch: module paths
                        // that differ in their first segment and agree in a later one
                        "model".to_string()
                    } else {
                        format!("{}{}", NS[(seed as usize + s as usize * 3 + i) % NS.len()], i)
                    }
                })
                .collect();
            SFile { stem: format!("file{}", i), namespace, includes: vec![], decls: vec![] }
        })
        .collect();
    let mut cx = Ctx { in_const: std::cell::Cell::new(false), raw, named, done: vec![None; raw.decls.len()], files: vec![] };
    let _ = &cx.files;
    let mut uses: Vec<std::collections::BTreeSet<usize>> = vec![Default::default(); nfiles];

    fn collect_files(t: &STy, out: &mut std::collections::BTreeSet<usize>) {
        match t {
            STy::List(e) | STy::Set(e) => collect_files(e, out),
            STy::Map(k, v) => {
                collect_files(k, out);
                collect_files(v, out);
            }
            STy::Named(f, _) => {
                out.insert(*f);
            }
            _ => {}
        }
    }

    for (pos, d) in raw.decls.iter().enumerate() {
        let (file, name) = names[pos].clone();
        let mk_fields = |cx: &Ctx, fs: &[RawField], files: &[SFile], is_union: bool, is_args: bool| -> Vec<SField> {
            let mut used_ids = std::collections::BTreeSet::new();
            let mut used_names = std::collections::BTreeSet::new();
            let mut out = vec![];
            for (i, f) in fs.iter().enumerate() {
                // ids: mostly small ascending, sometimes sparse / large
                let mut id: i16 = match f.id_seed % 5 {
                    0 | 1 | 2 => (i + 1) as i16,
                    3 => (f.id_seed % 300) as i16 + 1,
                    _ => (f.id_seed % 32767) as i16 + 1,
                };
                while !used_ids.insert(id) {
                    id = if id == i16::MAX { 1 } else { id + 1 };
                }
                let req = if is_union {
                    Req::Default
                } else {
                    match f.req % 4 {
                        0 => Req::Required,
                        1 => Req::Optional,
                        _ => Req::Default,
                    }
                };
                let allow_back = !is_args && (is_union || req != Req::Required);
                let ty = cx.ty(&f.ty, pos, file, allow_back, false, is_union);
                let default = if cx.raw.opts.defaults && !is_union && !is_args { f.default_seed.and_then(|s| cx.lit_for(files, &ty, s, 0)) } else { None };
                let name = if cx.raw.opts.hostile_names { hostile(mixh(name_seed, (pos as u64) << 20 | (i as u64) << 8 | f.id_seed as u64), &mut used_names, false) } else { {
                    // field names never matter to the harness (values are observed on the wire), so
                    // they vary in case style: the Rust name differs from the IDL name for most
                    let syl = SYL[(i * 5 + pos) % SYL.len()].to_lowercase();
                    let cap = format!("{}{}", syl[..1].to_uppercase(), &syl[1..]);
                    match (i + pos) % 4 {
                        0 => format!("f{}{}Val", cap, i),
                        1 => format!("f_{}_{}", syl, i),
                        2 => format!("F{}{}", cap, i),
                        _ => format!("f{}{}", syl, i),
                    }
                } };
                let annots = if cx.raw.opts.annotations { field_annots(cx, &ty, f.id_seed, i) } else { vec![] };
                let retyped = annots.iter().any(|(k, v)| k == "pilota.rust_wrapper_arc" || (k == "pilota.rust_type" && v == "vec"));
                let default = if retyped && !cx.raw.opts.annotated_defaults { None } else { default };
                out.push(SField { id, name, req, ty, default, annots });
            }
            out
        };
        let kind = match &d.kind {
            RawKind::Enum(ms) => {
                let mut vals = std::collections::BTreeSet::new();
                let mut used_names = std::collections::BTreeSet::new();
                let mut out = vec![];
                for (i, m) in ms.iter().enumerate() {
                    let mut v = match m % 4 {
                        0 => i as i32,
                        1 => (*m as i32) % 100,
                        2 => *m as i32 * 7,
                        _ => i32::MAX - *m as i32,
                    };
                    while !vals.insert(v) {
                        v = v.wrapping_add(1) & i32::MAX;
                    }
                    let name = if raw.opts.hostile_names { hostile(mixh(name_seed, (pos as u64) << 24 | (i as u64) << 4 | 3), &mut used_names, false) } else { format!("M{}{}", SYL[(i * 3 + pos) % SYL.len()].to_uppercase(), i) };
                    out.push((name, v));
                }
                if out.is_empty() {
                    // (an enum / union without members has no value; kept out of the grammar)
                    out.push((if raw.opts.hostile_names { "only".to_string() } else { format!("MONLY{}", pos) }, 0));
                }
                DeclKind::Enum(out)
            }
            RawKind::Typedef(t) => DeclKind::Typedef(cx.ty(t, pos, file, false, false, false)),
            RawKind::Struct(fs) => DeclKind::Struct(mk_fields(&cx, fs, &files, false, false)),
            RawKind::Exception(fs) => DeclKind::Exception(mk_fields(&cx, fs, &files, false, false)),
            RawKind::Union(fs) => {
                let mut v = mk_fields(&cx, fs, &files, true, false);
                if v.is_empty() {
                    v.push(SField { id: 1, name: "only".into(), req: Req::Default, ty: STy::I32, default: None, annots: vec![] });
                }
                DeclKind::Union(v)
            }
            RawKind::Const(t, seed) => {
                let ty = cx.ty(t, pos, file, false, false, false);
                cx.in_const.set(true);
                let l = cx.lit_for(&files, &ty, *seed, 0);
                cx.in_const.set(false);
                match l {
                    Some(l) => DeclKind::Const(ty, l),
                    None => DeclKind::Const(STy::I32, Lit::Int(*seed as i32 as i64)),
                }
            }
            RawKind::Service(ms) => {
                if !raw.opts.services {
                    DeclKind::Const(STy::I32, Lit::Int(pos as i64))
                } else {
                    let excs: Vec<(usize, String)> = cx.named.iter().filter(|n| n.kind == NK::Exception && n.file >= file && n.pos < pos).map(|n| (n.file, n.name.clone())).collect();
                    let mut out = vec![];
                    let mut used_names = std::collections::BTreeSet::new();
                    for (mi, m) in ms.iter().enumerate() {
                        let args = mk_fields(&cx, &m.args, &files, false, true);
                        let ret = m.ret.as_ref().map(|t| cx.ty(t, pos, file, false, false, false));
                        let mut throws = vec![];
                        if !excs.is_empty() {
                            for (ti, t) in m.throws.iter().enumerate() {
                                let e = &excs[(*t as usize * excs.len()) >> 16];
                                throws.push(SField { id: (ti + 1) as i16, name: format!("e{}", ti), req: Req::Default, ty: STy::Named(e.0, e.1.clone()), default: None, annots: vec![] });
                            }
                        }
                        let oneway = m.oneway && ret.is_none() && throws.is_empty();
                        let name = if raw.opts.hostile_names { hostile(mixh(name_seed, (pos as u64) << 28 | (mi as u64) << 4 | 5), &mut used_names, false) } else { format!("m{}{}", SYL[(mi * 3 + pos) % SYL.len()].to_lowercase(), mi) };
                        out.push(Method { name, oneway, ret, args, throws });
                    }
                    DeclKind::Service(out, None)
                }
            }
        };
        // record cross-file uses
        let mut fset = std::collections::BTreeSet::new();
        let mut scan_fields = |fs: &Vec<SField>, fset: &mut std::collections::BTreeSet<usize>| {
            for f in fs {
                collect_files(&f.ty, fset);
                fn lit_files(l: &Lit, out: &mut std::collections::BTreeSet<usize>) {
                    match l {
                        Lit::EnumMember(f, _, _) | Lit::Const(f, _) => {
                            out.insert(*f);
                        }
                        Lit::List(ls) => ls.iter().for_each(|l| lit_files(l, out)),
                        Lit::Map(ls) => ls.iter().for_each(|(k, v)| {
                            lit_files(k, out);
                            lit_files(v, out)
                        }),
                        _ => {}
                    }
                }
                if let Some(d) = &f.default {
                    lit_files(d, fset);
                }
            }
        };
        match &kind {
            DeclKind::Typedef(t) | DeclKind::Const(t, _) => collect_files(t, &mut fset),
            DeclKind::Struct(fs) | DeclKind::Exception(fs) | DeclKind::Union(fs) => scan_fields(fs, &mut fset),
            DeclKind::Service(ms, _) => {
                for m in ms {
                    scan_fields(&m.args, &mut fset);
                    scan_fields(&m.throws, &mut fset);
                    if let Some(r) = &m.ret {
                        collect_files(r, &mut fset);
                    }
                }
            }
            DeclKind::Enum(_) => {}
        }
        if let DeclKind::Const(_, l) = &kind {
            if let Lit::EnumMember(f, _, _) = l {
                fset.insert(*f);
            }
        }
        for f in fset {
            if f != file {
                uses[file].insert(f);
            }
        }
        let decl = Decl { name, kind };
        cx.done[pos] = Some(decl.clone());
        files[file].decls.push(decl);
    }
    for (i, u) in uses.iter().enumerate() {
        files[i].includes = u.iter().copied().collect();
    }
    // the main file includes every other file at least transitively, so that everything is built
    for j in 1..nfiles {
        let reachable = {
            let mut seen = std::collections::BTreeSet::new();
            let mut st = vec![0usize];
            while let Some(x) = st.pop() {
                if seen.insert(x) {
                    st.extend(files[x].includes.iter().copied());
                }
            }
            seen.contains(&j)
        };
        if !reachable {
            files[0].includes.push(j);
        }
    }
    SDoc { files }
}

pub fn arb_doc(opts: GenOpts) -> BoxedStrategy<(RawDoc, SDoc)> {
    arb_raw_doc(opts)
        .prop_map(|r| {
            let d = resolve(&r);
            (r, d)
        })
        .boxed()
}

#[cfg(test)]
mod tests {
    use super::*;
    use crate::tschema::{DeclKind, Req, STy};
    fn named_refs(t: &STy, out: &mut Vec<(usize, String)>) {
        match t {
            STy::List(e) | STy::Set(e) => named_refs(e, out),
            STy::Map(k, v) => {
                named_refs(k, out);
                named_refs(v, out);
            }
            STy::Named(f, n) => out.push((*f, n.clone())),
            _ => {}
        }
    }
    #[test]
    fn no_required_cycles() {
        let docs = crate::corpus::sample(&arb_doc(GenOpts::default()), 0, "thrift-corpus", 40);
        for (i, (_raw, doc)) in docs.iter().enumerate() {
            // edges: required struct field / union variant / typedef -> named
            let mut edges: std::collections::BTreeMap<(usize, String), Vec<(usize, String)>> = Default::default();
            for (fi, f) in doc.files.iter().enumerate() {
                for d in &f.decls {
                    let mut out = vec![];
                    match &d.kind {
                        DeclKind::Struct(fs) | DeclKind::Exception(fs) => {
                            for x in fs {
                                if x.req == Req::Required {
                                    named_refs(&x.ty, &mut out);
                                }
                            }
                        }
                        DeclKind::Union(fs) => fs.iter().for_each(|x| named_refs(&x.ty, &mut out)),
                        DeclKind::Typedef(t) => named_refs(t, &mut out),
                        _ => {}
                    }
                    edges.insert((fi, d.name.clone()), out);
                }
            }
            // DFS cycle detection
            fn visit(n: &(usize, String), edges: &std::collections::BTreeMap<(usize, String), Vec<(usize, String)>>, stack: &mut Vec<(usize, String)>, done: &mut std::collections::BTreeSet<(usize, String)>) {
                if stack.contains(n) {
                    panic!("required cycle: {:?} -> {:?}", stack, n);
                }
                if done.contains(n) {
                    return;
                }
                stack.push(n.clone());
                for m in edges.get(n).cloned().unwrap_or_default() {
                    visit(&m, edges, stack, done);
                }
                stack.pop();
                done.insert(n.clone());
            }
            let mut done = Default::default();
            for k in edges.keys() {
                visit(k, &edges, &mut vec![], &mut done);
            }
            println!("doc {} ok", i);
            for mt in doc.msg_types() {
                println!("  doc {} type {} ... {:?}", i, mt.rust_name, mt.shape);
                let _ = crate::tschema::arb_shape_value(doc, &mt.shape, crate::tschema::ValCfg::default());
            }
        }
    }
}

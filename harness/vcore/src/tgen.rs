//! Generator for semantic Thrift documents: a raw tree of numeric choices (what proptest
//! generates and shrinks) is resolved deterministically into a well-formed `SDoc`.
use crate::shrink::Shrink;
use crate::tschema::*;
use proptest::prelude::*;
use serde::{Deserialize, Serialize};

#[derive(Clone, Debug, PartialEq, Eq, Hash, Serialize, Deserialize)]
pub enum RawTy {
    Base(u8),
    List(Box<RawTy>),
    Set(Box<RawTy>),
    Map(Box<RawTy>, Box<RawTy>),
    /// index into the eligible named types; `back`: may point at a later / the same declaration
    Named(u16, bool),
}

#[derive(Clone, Debug, PartialEq, Eq, Hash, Serialize, Deserialize)]
pub struct RawField {
    pub id_seed: u16,
    pub req: u8,
    pub ty: RawTy,
    pub default_seed: Option<u32>,
}

#[derive(Clone, Debug, PartialEq, Eq, Hash, Serialize, Deserialize)]
pub struct RawMethod {
    pub oneway: bool,
    pub ret: Option<RawTy>,
    pub args: Vec<RawField>,
    pub throws: Vec<u16>,
}

#[derive(Clone, Debug, PartialEq, Eq, Hash, Serialize, Deserialize)]
pub enum RawKind {
    Enum(Vec<u16>),
    Typedef(RawTy),
    Struct(Vec<RawField>),
    Exception(Vec<RawField>),
    Union(Vec<RawField>),
    Const(RawTy, u32),
    Service(Vec<RawMethod>),
}

#[derive(Clone, Debug, PartialEq, Eq, Hash, Serialize, Deserialize)]
pub struct RawDecl {
    pub file: u8,
    pub kind: RawKind,
}

#[derive(Clone, Debug, PartialEq, Eq, Hash, Serialize, Deserialize)]
pub struct RawDoc {
    pub nfiles: u8,
    /// per file: 0 = no namespace, otherwise number of segments and a seed
    pub namespaces: Vec<(u8, u16)>,
    pub decls: Vec<RawDecl>,
    /// which grammar features are enabled
    pub opts: GenOpts,
}

#[derive(Clone, Copy, Debug, PartialEq, Eq, Hash, Serialize, Deserialize)]
pub struct GenOpts {
    pub defaults: bool,
    pub recursion: bool,
    pub services: bool,
    pub struct_keys: bool,
    /// unions that refer to themselves / to each other (known finding class for C14)
    pub recursive_unions: bool,
    pub annotations: bool,
}

impl Default for GenOpts {
    fn default() -> Self {
        GenOpts { defaults: true, recursion: true, services: true, struct_keys: true, recursive_unions: false, annotations: true }
    }
}

const SYL: [&str; 16] = ["Bak", "Cil", "Dop", "Fen", "Gur", "Haz", "Jex", "Kiv", "Lom", "Nud", "Paf", "Qor", "Ruz", "Sib", "Tav", "Wex"];
const NS: [&str; 8] = ["alpha", "beta", "core", "data", "edge", "flux", "grid", "hub"];

fn arb_raw_ty(depth: u32, key: bool) -> BoxedStrategy<RawTy> {
    let named = (any::<u16>(), prop::bool::weighted(0.25)).prop_map(|(i, b)| RawTy::Named(i, b));
    if depth == 0 {
        return prop_oneof![4 => (0u8..9).prop_map(RawTy::Base), 2 => named].boxed();
    }
    if key {
        return prop_oneof![5 => (0u8..9).prop_map(RawTy::Base), 2 => named, 1 => arb_raw_ty(depth - 1, true).prop_map(|t| RawTy::List(Box::new(t)))].boxed();
    }
    prop_oneof![
        5 => (0u8..9).prop_map(RawTy::Base),
        3 => named,
        1 => arb_raw_ty(depth - 1, false).prop_map(|t| RawTy::List(Box::new(t))),
        1 => arb_raw_ty(depth - 1, true).prop_map(|t| RawTy::Set(Box::new(t))),
        1 => (arb_raw_ty(depth - 1, true), arb_raw_ty(depth - 1, false)).prop_map(|(k, v)| RawTy::Map(Box::new(k), Box::new(v))),
    ]
    .boxed()
}

fn arb_raw_field() -> BoxedStrategy<RawField> {
    (any::<u16>(), 0u8..4, arb_raw_ty(3, false), prop::option::weighted(0.35, any::<u32>()))
        .prop_map(|(id_seed, req, ty, default_seed)| RawField { id_seed, req, ty, default_seed })
        .boxed()
}

fn arb_raw_decl() -> BoxedStrategy<RawDecl> {
    let kind = prop_oneof![
        2 => prop::collection::vec(any::<u16>(), 0..6).prop_map(RawKind::Enum),
        2 => arb_raw_ty(3, false).prop_map(RawKind::Typedef),
        6 => prop::collection::vec(arb_raw_field(), 0..8).prop_map(RawKind::Struct),
        1 => prop::collection::vec(arb_raw_field(), 0..4).prop_map(RawKind::Exception),
        2 => prop::collection::vec(arb_raw_field(), 0..5).prop_map(RawKind::Union),
        1 => (arb_raw_ty(2, false), any::<u32>()).prop_map(|(t, s)| RawKind::Const(t, s)),
        2 => prop::collection::vec(
            (any::<bool>(), prop::option::weighted(0.75, arb_raw_ty(2, false)), prop::collection::vec(arb_raw_field(), 0..3), prop::collection::vec(any::<u16>(), 0..2))
                .prop_map(|(oneway, ret, args, throws)| RawMethod { oneway, ret, args, throws }),
            0..4
        )
        .prop_map(RawKind::Service),
    ];
    (any::<u8>(), kind).prop_map(|(file, kind)| RawDecl { file, kind }).boxed()
}

pub fn arb_raw_doc(opts: GenOpts) -> BoxedStrategy<RawDoc> {
    (1u8..=3, prop::collection::vec((0u8..4, any::<u16>()), 3), prop::collection::vec(arb_raw_decl(), 3..14))
        .prop_map(move |(nfiles, namespaces, decls)| RawDoc { nfiles, namespaces, decls, opts })
        .boxed()
}

impl Shrink for RawDoc {
    fn candidates(&self) -> Vec<RawDoc> {
        let mut out = vec![];
        if self.nfiles > 1 {
            out.push(RawDoc { nfiles: 1, ..self.clone() });
        }
        for i in 0..self.decls.len() {
            let mut d = self.decls.clone();
            d.remove(i);
            out.push(RawDoc { decls: d, ..self.clone() });
        }
        if self.namespaces.iter().any(|n| n.0 != 0) {
            out.push(RawDoc { namespaces: vec![(0, 0); 3], ..self.clone() });
        }
        for i in 0..self.decls.len() {
            let alts: Vec<RawKind> = match &self.decls[i].kind {
                RawKind::Struct(fs) => shrink_fields(fs).into_iter().map(RawKind::Struct).collect(),
                RawKind::Exception(fs) => shrink_fields(fs).into_iter().map(RawKind::Exception).collect(),
                RawKind::Union(fs) => shrink_fields(fs).into_iter().map(RawKind::Union).collect(),
                RawKind::Enum(ms) => (0..ms.len())
                    .map(|j| {
                        let mut m = ms.clone();
                        m.remove(j);
                        RawKind::Enum(m)
                    })
                    .collect(),
                RawKind::Typedef(t) => shrink_ty(t).into_iter().map(RawKind::Typedef).collect(),
                RawKind::Const(t, s) => shrink_ty(t).into_iter().map(|t| RawKind::Const(t, *s)).collect(),
                RawKind::Service(ms) => {
                    let mut v = vec![];
                    for j in 0..ms.len() {
                        let mut m = ms.clone();
                        m.remove(j);
                        v.push(RawKind::Service(m));
                    }
                    for j in 0..ms.len() {
                        for a in shrink_fields(&ms[j].args) {
                            let mut m = ms.clone();
                            m[j].args = a;
                            v.push(RawKind::Service(m));
                        }
                        if !ms[j].throws.is_empty() {
                            let mut m = ms.clone();
                            m[j].throws.clear();
                            v.push(RawKind::Service(m));
                        }
                        if let Some(r) = &ms[j].ret {
                            let mut m = ms.clone();
                            m[j].ret = None;
                            v.push(RawKind::Service(m));
                            for t in shrink_ty(r) {
                                let mut m = ms.clone();
                                m[j].ret = Some(t);
                                v.push(RawKind::Service(m));
                            }
                        }
                    }
                    v
                }
            };
            for k in alts {
                let mut d = self.decls.clone();
                d[i].kind = k;
                out.push(RawDoc { decls: d, ..self.clone() });
            }
        }
        out
    }
}

fn shrink_ty(t: &RawTy) -> Vec<RawTy> {
    let mut out = vec![];
    if *t != RawTy::Base(3) {
        out.push(RawTy::Base(3));
    }
    match t {
        RawTy::List(e) | RawTy::Set(e) => {
            out.push((**e).clone());
            for s in shrink_ty(e) {
                out.push(if matches!(t, RawTy::List(_)) { RawTy::List(Box::new(s)) } else { RawTy::Set(Box::new(s)) });
            }
        }
        RawTy::Map(k, v) => {
            out.push((**v).clone());
            for s in shrink_ty(k) {
                out.push(RawTy::Map(Box::new(s), v.clone()));
            }
            for s in shrink_ty(v) {
                out.push(RawTy::Map(k.clone(), Box::new(s)));
            }
        }
        RawTy::Named(i, true) => out.push(RawTy::Named(*i, false)),
        _ => {}
    }
    out
}

fn shrink_fields(fs: &[RawField]) -> Vec<Vec<RawField>> {
    let mut out = vec![];
    for i in 0..fs.len() {
        let mut v = fs.to_vec();
        v.remove(i);
        out.push(v);
    }
    for i in 0..fs.len() {
        if fs[i].default_seed.is_some() {
            let mut v = fs.to_vec();
            v[i].default_seed = None;
            out.push(v);
        }
        for t in shrink_ty(&fs[i].ty) {
            let mut v = fs.to_vec();
            v[i].ty = t;
            out.push(v);
        }
        if fs[i].req != 1 {
            let mut v = fs.to_vec();
            v[i].req = 1;
            out.push(v);
        }
    }
    out
}

// ---------------------------------------------------------------------------------------------
// resolution

struct Named {
    file: usize,
    name: String,
    pos: usize,
    kind: NK,
}

#[derive(Clone, Copy, PartialEq, Debug)]
enum NK {
    Enum,
    Typedef,
    Struct,
    Exception,
    Union,
}

struct Ctx<'a> {
    raw: &'a RawDoc,
    named: Vec<Named>,
    /// resolved declarations so far (for key-eligibility checks), by position
    done: Vec<Option<Decl>>,
    files: Vec<SFile>,
}

fn base_ty(b: u8) -> STy {
    match b % 9 {
        0 => STy::Bool,
        1 => STy::Byte,
        2 => STy::I16,
        3 => STy::I32,
        4 => STy::I64,
        5 => STy::Double,
        6 => STy::String,
        7 => STy::Binary,
        _ => STy::Uuid,
    }
}

impl<'a> Ctx<'a> {
    fn nfiles(&self) -> usize {
        self.raw.nfiles.max(1) as usize
    }

    /// Is `t` usable as a set element / map key (hashable in Rust, no double inside structs)?
    fn key_ok(&self, t: &STy, in_struct: bool) -> bool {
        match t {
            STy::Double => !in_struct,
            STy::Bool | STy::Byte | STy::I16 | STy::I32 | STy::I64 | STy::String | STy::Binary | STy::Uuid => true,
            STy::List(e) => self.key_ok(e, in_struct),
            STy::Set(_) | STy::Map(..) => false,
            STy::Named(f, n) => {
                let Some(nm) = self.named.iter().find(|x| x.file == *f && x.name == *n) else { return false };
                match nm.kind {
                    NK::Enum => true,
                    NK::Typedef => false,
                    NK::Struct | NK::Exception | NK::Union => {
                        if !self.raw.opts.struct_keys {
                            return false;
                        }
                        match self.done.get(nm.pos).and_then(|d| d.as_ref()).map(|d| &d.kind) {
                            Some(DeclKind::Struct(fs)) | Some(DeclKind::Exception(fs)) | Some(DeclKind::Union(fs)) => fs.iter().all(|f| self.key_ok(&f.ty, true)),
                            _ => false,
                        }
                    }
                }
            }
        }
    }

    /// `pos`: position of the declaration being resolved; `file`: its file; `allow_back`:
    /// whether this position tolerates a reference to a later (or the same) declaration.
    fn ty(&self, t: &RawTy, pos: usize, file: usize, allow_back: bool, key: bool, from_union: bool) -> STy {
        match t {
            RawTy::Base(b) => base_ty(*b),
            RawTy::List(e) => STy::List(Box::new(self.ty(e, pos, file, allow_back, key, from_union))),
            RawTy::Set(e) => {
                let inner = self.ty(e, pos, file, false, true, from_union);
                STy::Set(Box::new(if self.key_ok(&inner, false) { inner } else { STy::I64 }))
            }
            RawTy::Map(k, v) => {
                let kk = self.ty(k, pos, file, false, true, from_union);
                let kk = if self.key_ok(&kk, false) { kk } else { STy::String };
                STy::Map(Box::new(kk), Box::new(self.ty(v, pos, file, allow_back, key, from_union)))
            }
            RawTy::Named(i, back) => {
                let back_ok = *back && allow_back && !key && self.raw.opts.recursion && (!from_union || self.raw.opts.recursive_unions);
                // eligible: types in files >= file (same file or includable), declared earlier;
                // with back_ok also later struct-like declarations
                let elig: Vec<&Named> = self
                    .named
                    .iter()
                    .filter(|n| n.file >= file)
                    .filter(|n| {
                        if n.pos < pos {
                            true
                        } else {
                            back_ok && matches!(n.kind, NK::Struct | NK::Exception | NK::Union) && (!from_union || n.kind == NK::Union || self.raw.opts.recursive_unions)
                        }
                    })
                    .collect();
                if elig.is_empty() {
                    return STy::I32;
                }
                let n = elig[(*i as usize * elig.len()) >> 16];
                STy::Named(n.file, n.name.clone())
            }
        }
    }

    fn lit_for(&self, doc_files: &[SFile], ty: &STy, seed: u32, depth: u32) -> Option<Lit> {
        let pick = |n: u32| -> u32 { seed.wrapping_mul(2654435761).rotate_left(depth * 7 + 3) % n.max(1) };
        match ty {
            STy::Bool => Some(if pick(3) == 0 { Lit::Int((seed % 2) as i64) } else { Lit::Bool(seed % 2 == 1) }),
            STy::Byte => Some(Lit::Int((seed % 256) as i64 - 128)),
            STy::I16 => Some(Lit::Int((seed % 65536) as i64 - 32768)),
            STy::I32 => Some(Lit::Int(seed as i32 as i64)),
            STy::I64 => Some(Lit::Int(((seed as i64) << 20) ^ seed as i64)),
            STy::Double => Some(if pick(2) == 0 { Lit::Int((seed % 1000) as i64 - 500) } else { Lit::Double(format!("{}.{}", seed % 1000, (seed >> 10) % 100)) }),
            STy::String | STy::Binary => {
                const WORDS: [&str; 6] = ["", "hello", "a b", "x-1.y_z", "0", "Quite Long Default Value 123"];
                Some(Lit::Str(WORDS[pick(6) as usize].to_string()))
            }
            STy::Uuid => None,
            STy::List(e) => {
                if depth > 1 {
                    return Some(Lit::List(vec![]));
                }
                let n = pick(3);
                let mut v = vec![];
                for i in 0..n {
                    v.push(self.lit_for(doc_files, e, seed.wrapping_add(i * 977 + 1), depth + 1)?);
                }
                Some(Lit::List(v))
            }
            STy::Set(e) => {
                if depth > 1 {
                    return Some(Lit::List(vec![]));
                }
                // at most one element: distinctness is then trivial
                let n = pick(2);
                let mut v = vec![];
                for i in 0..n {
                    v.push(self.lit_for(doc_files, e, seed.wrapping_add(i * 31 + 5), depth + 1)?);
                }
                Some(Lit::List(v))
            }
            STy::Map(k, v) => {
                if depth > 1 {
                    return Some(Lit::Map(vec![]));
                }
                let n = pick(2);
                let mut out = vec![];
                for i in 0..n {
                    out.push((self.lit_for(doc_files, k, seed.wrapping_add(i * 13 + 7), depth + 1)?, self.lit_for(doc_files, v, seed.wrapping_add(i * 17 + 11), depth + 1)?));
                }
                Some(Lit::Map(out))
            }
            STy::Named(f, n) => {
                let d = doc_files[*f].decls.iter().find(|d| d.name == *n)?;
                match &d.kind {
                    DeclKind::Enum(ms) if !ms.is_empty() => {
                        let m = &ms[pick(ms.len() as u32) as usize];
                        Some(if pick(3) == 0 { Lit::Int(m.1 as i64) } else { Lit::EnumMember(*f, n.clone(), m.0.clone()) })
                    }
                    DeclKind::Typedef(t) => self.lit_for(doc_files, t, seed, depth),
                    _ => None,
                }
            }
        }
    }
}

pub fn resolve(raw: &RawDoc) -> SDoc {
    let nfiles = raw.nfiles.clamp(1, 3) as usize;
    // names first (so that forward references can be resolved)
    let mut named = vec![];
    let mut names = vec![];
    for (pos, d) in raw.decls.iter().enumerate() {
        let file = d.file as usize % nfiles;
        let syl = SYL[(pos * 7 + file * 3) % SYL.len()];
        let (name, nk) = match &d.kind {
            RawKind::Enum(_) => (format!("{}{}", syl, pos), Some(NK::Enum)),
            RawKind::Typedef(_) => (format!("{}{}", syl, pos), Some(NK::Typedef)),
            RawKind::Struct(_) => (format!("{}{}", syl, pos), Some(NK::Struct)),
            RawKind::Exception(_) => (format!("{}{}", syl, pos), Some(NK::Exception)),
            RawKind::Union(_) => (format!("{}{}", syl, pos), Some(NK::Union)),
            RawKind::Const(..) => (format!("K{}{}", syl.to_uppercase(), pos), None),
            RawKind::Service(_) => (format!("Svc{}", pos), None),
        };
        if let Some(k) = nk {
            named.push(Named { file, name: name.clone(), pos, kind: k });
        }
        names.push((file, name));
    }
    let mut files: Vec<SFile> = (0..nfiles)
        .map(|i| {
            let (segs, seed) = raw.namespaces.get(i).copied().unwrap_or((0, 0));
            let namespace: Vec<String> = (0..segs.min(3)).map(|s| format!("{}{}", NS[(seed as usize + s as usize * 3 + i) % NS.len()], i)).collect();
            SFile { stem: format!("file{}", i), namespace, includes: vec![], decls: vec![] }
        })
        .collect();
    let mut cx = Ctx { raw, named, done: vec![None; raw.decls.len()], files: vec![] };
    let _ = &cx.files;
    let mut uses: Vec<std::collections::BTreeSet<usize>> = vec![Default::default(); nfiles];

    fn collect_files(t: &STy, out: &mut std::collections::BTreeSet<usize>) {
        match t {
            STy::List(e) | STy::Set(e) => collect_files(e, out),
            STy::Map(k, v) => {
                collect_files(k, out);
                collect_files(v, out);
            }
            STy::Named(f, _) => {
                out.insert(*f);
            }
            _ => {}
        }
    }

    for (pos, d) in raw.decls.iter().enumerate() {
        let (file, name) = names[pos].clone();
        let mk_fields = |cx: &Ctx, fs: &[RawField], files: &[SFile], is_union: bool, is_args: bool| -> Vec<SField> {
            let mut used_ids = std::collections::BTreeSet::new();
            let mut out = vec![];
            for (i, f) in fs.iter().enumerate() {
                // ids: mostly small ascending, sometimes sparse / large
                let mut id: i16 = match f.id_seed % 5 {
                    0 | 1 | 2 => (i + 1) as i16,
                    3 => (f.id_seed % 300) as i16 + 1,
                    _ => (f.id_seed % 32767) as i16 + 1,
                };
                while !used_ids.insert(id) {
                    id = if id == i16::MAX { 1 } else { id + 1 };
                }
                let req = if is_union {
                    Req::Default
                } else {
                    match f.req % 4 {
                        0 => Req::Required,
                        1 => Req::Optional,
                        _ => Req::Default,
                    }
                };
                let allow_back = !is_args && (is_union || req != Req::Required);
                let ty = cx.ty(&f.ty, pos, file, allow_back, false, is_union);
                let default = if cx.raw.opts.defaults && !is_union && !is_args { f.default_seed.and_then(|s| cx.lit_for(files, &ty, s, 0)) } else { None };
                out.push(SField { id, name: format!("f{}{}", SYL[(i * 5 + pos) % SYL.len()].to_lowercase(), i), req, ty, default, annots: vec![] });
            }
            out
        };
        let kind = match &d.kind {
            RawKind::Enum(ms) => {
                let mut vals = std::collections::BTreeSet::new();
                let mut out = vec![];
                for (i, m) in ms.iter().enumerate() {
                    let mut v = match m % 4 {
                        0 => i as i32,
                        1 => (*m as i32) % 100,
                        2 => *m as i32 * 7,
                        _ => i32::MAX - *m as i32,
                    };
                    while !vals.insert(v) {
                        v = v.wrapping_add(1) & i32::MAX;
                    }
                    out.push((format!("M{}{}", SYL[(i * 3 + pos) % SYL.len()].to_uppercase(), i), v));
                }
                DeclKind::Enum(out)
            }
            RawKind::Typedef(t) => DeclKind::Typedef(cx.ty(t, pos, file, false, false, false)),
            RawKind::Struct(fs) => DeclKind::Struct(mk_fields(&cx, fs, &files, false, false)),
            RawKind::Exception(fs) => DeclKind::Exception(mk_fields(&cx, fs, &files, false, false)),
            RawKind::Union(fs) => DeclKind::Union(mk_fields(&cx, fs, &files, true, false)),
            RawKind::Const(t, seed) => {
                let ty = cx.ty(t, pos, file, false, false, false);
                match cx.lit_for(&files, &ty, *seed, 0) {
                    Some(l) => DeclKind::Const(ty, l),
                    None => DeclKind::Const(STy::I32, Lit::Int(*seed as i32 as i64)),
                }
            }
            RawKind::Service(ms) => {
                if !raw.opts.services {
                    DeclKind::Const(STy::I32, Lit::Int(pos as i64))
                } else {
                    let excs: Vec<(usize, String)> = cx.named.iter().filter(|n| n.kind == NK::Exception && n.file >= file && n.pos < pos).map(|n| (n.file, n.name.clone())).collect();
                    let mut out = vec![];
                    for (mi, m) in ms.iter().enumerate() {
                        let args = mk_fields(&cx, &m.args, &files, false, true);
                        let ret = m.ret.as_ref().map(|t| cx.ty(t, pos, file, false, false, false));
                        let mut throws = vec![];
                        if !excs.is_empty() {
                            for (ti, t) in m.throws.iter().enumerate() {
                                let e = &excs[(*t as usize * excs.len()) >> 16];
                                throws.push(SField { id: (ti + 1) as i16, name: format!("e{}", ti), req: Req::Default, ty: STy::Named(e.0, e.1.clone()), default: None, annots: vec![] });
                            }
                        }
                        let oneway = m.oneway && ret.is_none() && throws.is_empty();
                        out.push(Method { name: format!("m{}{}", SYL[(mi * 3 + pos) % SYL.len()].to_lowercase(), mi), oneway, ret, args, throws });
                    }
                    DeclKind::Service(out, None)
                }
            }
        };
        // record cross-file uses
        let mut fset = std::collections::BTreeSet::new();
        let mut scan_fields = |fs: &Vec<SField>, fset: &mut std::collections::BTreeSet<usize>| {
            for f in fs {
                collect_files(&f.ty, fset);
                fn lit_files(l: &Lit, out: &mut std::collections::BTreeSet<usize>) {
                    match l {
                        Lit::EnumMember(f, _, _) | Lit::Const(f, _) => {
                            out.insert(*f);
                        }
                        Lit::List(ls) => ls.iter().for_each(|l| lit_files(l, out)),
                        Lit::Map(ls) => ls.iter().for_each(|(k, v)| {
                            lit_files(k, out);
                            lit_files(v, out)
                        }),
                        _ => {}
                    }
                }
                if let Some(d) = &f.default {
                    lit_files(d, fset);
                }
            }
        };
        match &kind {
            DeclKind::Typedef(t) | DeclKind::Const(t, _) => collect_files(t, &mut fset),
            DeclKind::Struct(fs) | DeclKind::Exception(fs) | DeclKind::Union(fs) => scan_fields(fs, &mut fset),
            DeclKind::Service(ms, _) => {
                for m in ms {
                    scan_fields(&m.args, &mut fset);
                    scan_fields(&m.throws, &mut fset);
                    if let Some(r) = &m.ret {
                        collect_files(r, &mut fset);
                    }
                }
            }
            DeclKind::Enum(_) => {}
        }
        if let DeclKind::Const(_, l) = &kind {
            if let Lit::EnumMember(f, _, _) = l {
                fset.insert(*f);
            }
        }
        for f in fset {
            if f != file {
                uses[file].insert(f);
            }
        }
        let decl = Decl { name, kind };
        cx.done[pos] = Some(decl.clone());
        files[file].decls.push(decl);
    }
    for (i, u) in uses.iter().enumerate() {
        files[i].includes = u.iter().copied().collect();
    }
    // the main file includes every other file at least transitively, so that everything is built
    for j in 1..nfiles {
        let reachable = {
            let mut seen = std::collections::BTreeSet::new();
            let mut st = vec![0usize];
            while let Some(x) = st.pop() {
                if seen.insert(x) {
                    st.extend(files[x].includes.iter().copied());
                }
            }
            seen.contains(&j)
        };
        if !reachable {
            files[0].includes.push(j);
        }
    }
    SDoc { files }
}

pub fn arb_doc(opts: GenOpts) -> BoxedStrategy<(RawDoc, SDoc)> {
    arb_raw_doc(opts)
        .prop_map(|r| {
            let d = resolve(&r);
            (r, d)
        })
        .boxed()
}

#[cfg(test)]
mod tests {
    use super::*;
    use crate::tschema::{DeclKind, Req, STy};
    fn named_refs(t: &STy, out: &mut Vec<(usize, String)>) {
        match t {
            STy::List(e) | STy::Set(e) => named_refs(e, out),
            STy::Map(k, v) => {
                named_refs(k, out);
                named_refs(v, out);
            }
            STy::Named(f, n) => out.push((*f, n.clone())),
            _ => {}
        }
    }
    #[test]
    fn no_required_cycles() {
        let docs = crate::corpus::sample(&arb_doc(GenOpts::default()), 0, "thrift-corpus", 40);
        for (i, (_raw, doc)) in docs.iter().enumerate() {
            // edges: required struct field / union variant / typedef -> named
            let mut edges: std::collections::BTreeMap<(usize, String), Vec<(usize, String)>> = Default::default();
            for (fi, f) in doc.files.iter().enumerate() {
                for d in &f.decls {
                    let mut out = vec![];
                    match &d.kind {
                        DeclKind::Struct(fs) | DeclKind::Exception(fs) => {
                            for x in fs {
                                if x.req == Req::Required {
                                    named_refs(&x.ty, &mut out);
                                }
                            }
                        }
                        DeclKind::Union(fs) => fs.iter().for_each(|x| named_refs(&x.ty, &mut out)),
                        DeclKind::Typedef(t) => named_refs(t, &mut out),
                        _ => {}
                    }
                    edges.insert((fi, d.name.clone()), out);
                }
            }
            // DFS cycle detection
            fn visit(n: &(usize, String), edges: &std::collections::BTreeMap<(usize, String), Vec<(usize, String)>>, stack: &mut Vec<(usize, String)>, done: &mut std::collections::BTreeSet<(usize, String)>) {
                if stack.contains(n) {
                    panic!("required cycle: {:?} -> {:?}", stack, n);
                }
                if done.contains(n) {
                    return;
                }
                stack.push(n.clone());
                for m in edges.get(n).cloned().unwrap_or_default() {
                    visit(&m, edges, stack, done);
                }
                stack.pop();
                done.insert(n.clone());
            }
            let mut done = Default::default();
            for k in edges.keys() {
                visit(k, &edges, &mut vec![], &mut done);
            }
            println!("doc {} ok", i);
            for mt in doc.msg_types() {
                println!("  doc {} type {} ... {:?}", i, mt.rust_name, mt.shape);
                let _ = crate::tschema::arb_shape_value(doc, &mt.shape, crate::tschema::ValCfg::default());
            }
        }
    }
}

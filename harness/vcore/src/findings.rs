//! known_findings.txt: `open: property=<id> key=<signature> <text>` /
//! `fixed: property=<id> <commit> <text>`. Read-only at run time.
use std::collections::BTreeMap;

#[derive(Debug, Default, Clone)]
pub struct Findings {
    /// (property, key) -> description
    pub open: BTreeMap<(String, String), String>,
}

pub fn findings_path() -> std::path::PathBuf {
    crate::evidence::verif_root().join("known_findings.txt")
}

impl Findings {
    pub fn load() -> Findings {
        let mut f = Findings::default();
        let Ok(text) = std::fs::read_to_string(findings_path()) else {
            return f;
        };
        for line in text.lines() {
            let line = line.trim();
            if let Some(rest) = line.strip_prefix("open:") {
                let mut prop = None;
                let mut key = None;
                let mut desc = vec![];
                for tok in rest.split_whitespace() {
                    if let Some(p) = tok.strip_prefix("property=") {
                        if prop.is_none() {
                            prop = Some(p.to_string());
                            continue;
                        }
                    }
                    if let Some(k) = tok.strip_prefix("key=") {
                        if key.is_none() {
                            key = Some(k.to_string());
                            continue;
                        }
                    }
                    desc.push(tok);
                }
                if let (Some(p), Some(k)) = (prop, key) {
                    f.open.insert((p, k), desc.join(" "));
                }
            }
        }
        f
    }
    pub fn is_open(&self, prop: &str, key: &str) -> bool {
        self.open.contains_key(&(prop.to_string(), key.to_string()))
    }
    pub fn describe(&self, prop: &str, key: &str) -> String {
        self.open
            .get(&(prop.to_string(), key.to_string()))
            .cloned()
            .unwrap_or_default()
    }
}

//! Syntax-level model of a Thrift IDL document (mirrors pilota-thrift-parser's descriptor,
//! but independent of it), a printer parameterised by a layout tape, and generators.
use crate::shrink::Shrink;
use proptest::prelude::*;
use serde::{Deserialize, Serialize};

#[derive(Clone, Debug, PartialEq, Eq, Hash, Serialize, Deserialize)]
pub struct Annot(pub Vec<(String, String)>);

#[derive(Clone, Debug, PartialEq, Eq, Hash, Serialize, Deserialize)]
pub enum CV {
    Bool(bool),
    Path(String),
    Str(String),
    Int(i64),
    /// an integer written in hexadecimal (a negative one as `-0x…`)
    HexInt(i64),
    /// source text of the floating literal
    Double(String),
    List(Vec<CV>),
    Map(Vec<(CV, CV)>),
}

#[derive(Clone, Debug, PartialEq, Eq, Hash, Serialize, Deserialize)]
pub enum Ty {
    String,
    Void,
    Byte,
    Bool,
    Binary,
    I8,
    I16,
    I32,
    I64,
    Double,
    Uuid,
    List(Box<Type>, Option<String>),
    Set(Box<Type>, Option<String>),
    Map(Box<Type>, Box<Type>, Option<String>),
    Path(String),
}

#[derive(Clone, Debug, PartialEq, Eq, Hash, Serialize, Deserialize)]
pub struct Type(pub Ty, pub Annot);

#[derive(Clone, Copy, Debug, PartialEq, Eq, Hash, Serialize, Deserialize)]
pub enum Attr {
    Optional,
    Required,
    Default,
}

#[derive(Clone, Debug, PartialEq, Eq, Hash, Serialize, Deserialize)]
pub struct Field {
    pub id: i32,
    pub name: String,
    pub attr: Attr,
    pub ty: Type,
    pub default: Option<CV>,
    pub annot: Annot,
}

#[derive(Clone, Debug, PartialEq, Eq, Hash, Serialize, Deserialize)]
pub struct Function {
    pub name: String,
    pub oneway: bool,
    pub result: Type,
    pub args: Vec<Field>,
    pub throws: Vec<Field>,
    pub annot: Annot,
}

#[derive(Clone, Debug, PartialEq, Eq, Hash, Serialize, Deserialize)]
pub struct StructLike {
    pub name: String,
    pub fields: Vec<Field>,
    pub annot: Annot,
}

#[derive(Clone, Debug, PartialEq, Eq, Hash, Serialize, Deserialize)]
pub enum Item {
    Include(String),
    CppInclude(String),
    Namespace { scope: String, name: String, annot: Option<Annot> },
    Typedef { ty: Type, alias: String, annot: Annot },
    Const { name: String, ty: Type, value: CV, annot: Annot },
    Enum { name: String, values: Vec<(String, Option<i64>, Annot)>, annot: Annot },
    Struct(StructLike),
    Union(StructLike),
    Exception(StructLike),
    Service { name: String, extends: Option<String>, functions: Vec<Function>, annot: Annot },
}

#[derive(Clone, Debug, PartialEq, Eq, Hash, Serialize, Deserialize)]
pub struct Doc {
    pub items: Vec<Item>,
}

// ---------------------------------------------------------------------------------------------
// layout tape and printer

/// Slot kinds: every position where the IDL leaves a choice. Used for class counting and for
/// the signature of a layout-dependent failure.
#[derive(Clone, Copy, Debug, PartialEq, Eq, Hash, PartialOrd, Ord, Serialize, Deserialize)]
pub enum Slot {
    FileStart,
    BetweenItems,
    FileEnd,
    AfterKeyword,
    BeforeBrace,
    AfterOpenBrace,
    BeforeCloseBrace,
    AfterFieldId,
    AfterColon,
    AfterAttr,
    AfterType,
    AfterName,
    AroundEquals,
    AfterDefault,
    BeforeAnnot,
    InsideAnnot,
    BeforeSeparator,
    Separator,
    AfterSeparator,
    InsideGeneric,
    BeforeCppType,
    InsideParens,
    BeforeThrows,
    AfterThrows,
    InsideConstList,
    InsideConstMap,
    Quote,
    AfterCloseBrace,
    EnumValue,
    BeforeExtends,
}

#[derive(Clone, Debug, PartialEq, Eq, Hash, Serialize, Deserialize)]
pub struct Layout {
    /// consumed cyclically, one entry per slot occurrence; 0 = canonical minimal choice
    pub tape: Vec<u8>,
}

impl Layout {
    pub fn canonical() -> Layout {
        Layout { tape: vec![0] }
    }
}

impl Shrink for Layout {
    fn candidates(&self) -> Vec<Layout> {
        let mut out = vec![];
        if self.tape.iter().any(|b| *b != 0) {
            out.push(Layout::canonical());
        }
        let n = self.tape.len();
        if n > 1 {
            out.push(Layout { tape: self.tape[..n / 2].to_vec() });
        }
        for i in 0..n.min(200) {
            if self.tape[i] != 0 {
                let mut t = self.tape.clone();
                t[i] = 0;
                out.push(Layout { tape: t });
            }
        }
        out
    }
}

const COMMENT_TEXTS: [&str; 6] = [
    "c",
    "struct X { 1: i32 a }",
    "it's \"quoted\" ) } > , ;",
    "\u{4e2d}\u{6587} \u{e9}",
    "",
    "* / # //",
];

pub struct Printer<'a> {
    pub out: String,
    layout: &'a Layout,
    pos: usize,
    /// slot kinds that received a non-canonical choice
    pub used: std::collections::BTreeMap<Slot, u32>,
    pub comment_styles: std::collections::BTreeSet<u8>,
    pub none_separators: u32,
}

impl<'a> Printer<'a> {
    pub fn new(layout: &'a Layout) -> Self {
        Printer {
            out: String::new(),
            layout,
            pos: 0,
            used: Default::default(),
            comment_styles: Default::default(),
            none_separators: 0,
        }
    }
    fn next(&mut self, slot: Slot) -> u8 {
        let t = &self.layout.tape;
        let b = if t.is_empty() { 0 } else { t[self.pos % t.len()] };
        self.pos += 1;
        if b != 0 {
            *self.used.entry(slot).or_insert(0) += 1;
        }
        b
    }
    fn blank_text(&mut self, b: u8, mandatory: bool) -> String {
        let c = COMMENT_TEXTS[(b as usize / 16) % COMMENT_TEXTS.len()];
        match b % 12 {
            0 => {
                if mandatory {
                    " ".into()
                } else {
                    String::new()
                }
            }
            1 => " ".into(),
            2 => "\n".into(),
            3 => "\t".into(),
            4 => {
                self.comment_styles.insert(0);
                format!(" //{}\n", c)
            }
            5 => {
                self.comment_styles.insert(1);
                format!(" #{}\n", c)
            }
            6 => {
                self.comment_styles.insert(2);
                format!(" /*{}*/ ", c.replace("*/", "* /"))
            }
            7 => {
                self.comment_styles.insert(0);
                self.comment_styles.insert(1);
                self.comment_styles.insert(2);
                format!("\n\n  /* {} */ // {}\n# {}\n\t", c.replace("*/", "* /"), c, c)
            }
            8 => "  \r\n ".into(),
            9 => {
                self.comment_styles.insert(2);
                format!("/*{}*/", c.replace("*/", "* /"))
            }
            10 => {
                self.comment_styles.insert(2);
                "/**/".into()
            }
            _ => "   ".into(),
        }
    }
    /// optional blank
    pub fn ob(&mut self, slot: Slot) {
        let b = self.next(slot);
        let s = self.blank_text(b, false);
        self.out.push_str(&s);
    }
    /// mandatory blank
    pub fn mb(&mut self, slot: Slot) {
        let b = self.next(slot);
        let s = self.blank_text(b, true);
        // "/**/"-style comments alone also separate tokens
        self.out.push_str(&s);
    }
    pub fn tok(&mut self, s: &str) {
        self.out.push_str(s);
    }
    /// list separator (",", ";" or none) followed by a blank that is mandatory when there is
    /// no separator and `next_fuses` (the following token would otherwise fuse).
    pub fn sep(&mut self, next_fuses: bool) {
        self.ob(Slot::BeforeSeparator);
        let b = self.next(Slot::Separator);
        match b % 3 {
            0 => self.tok(","),
            1 => self.tok(";"),
            _ => {
                self.none_separators += 1;
                if next_fuses {
                    self.mb(Slot::AfterSeparator);
                    return;
                }
            }
        }
        self.ob(Slot::AfterSeparator);
    }
    pub fn lit(&mut self, s: &str) {
        let b = self.next(Slot::Quote);
        let has_s = s.contains('\'');
        let has_d = s.contains('"');
        let q = if has_s && !has_d {
            '"'
        } else if has_d && !has_s {
            '\''
        } else if b % 2 == 0 {
            '"'
        } else {
            '\''
        };
        self.out.push(q);
        self.out.push_str(s);
        self.out.push(q);
    }
    fn annot(&mut self, a: &Annot) {
        if a.0.is_empty() {
            return;
        }
        self.ob(Slot::BeforeAnnot);
        self.annot_body(a);
    }
    fn annot_body(&mut self, a: &Annot) {
        self.tok("(");
        let n = a.0.len();
        for (i, (k, v)) in a.0.iter().enumerate() {
            self.ob(Slot::InsideAnnot);
            self.tok(k);
            self.ob(Slot::InsideAnnot);
            self.tok("=");
            self.ob(Slot::InsideAnnot);
            self.lit(v);
            // separator between entries; after the last one it is optional too
            if i + 1 < n {
                self.sep(true);
            } else {
                self.ob(Slot::InsideAnnot);
            }
        }
        self.tok(")");
    }
    fn cpp_type(&mut self, c: &Option<String>) {
        if let Some(c) = c {
            self.mb(Slot::BeforeCppType);
            self.tok("cpp_type");
            self.mb(Slot::BeforeCppType);
            self.lit(c);
        }
    }
    pub fn ty(&mut self, t: &Type) {
        match &t.0 {
            Ty::String => self.tok("string"),
            Ty::Void => self.tok("void"),
            Ty::Byte => self.tok("byte"),
            Ty::Bool => self.tok("bool"),
            Ty::Binary => self.tok("binary"),
            Ty::I8 => self.tok("i8"),
            Ty::I16 => self.tok("i16"),
            Ty::I32 => self.tok("i32"),
            Ty::I64 => self.tok("i64"),
            Ty::Double => self.tok("double"),
            Ty::Uuid => self.tok("uuid"),
            Ty::Path(p) => self.tok(p),
            Ty::List(v, c) => {
                self.tok("list");
                self.ob(Slot::InsideGeneric);
                self.tok("<");
                self.ob(Slot::InsideGeneric);
                self.ty(v);
                self.ob(Slot::InsideGeneric);
                self.tok(">");
                self.cpp_type(c);
            }
            Ty::Set(v, c) => {
                self.tok("set");
                self.cpp_type(c);
                self.ob(Slot::InsideGeneric);
                self.tok("<");
                self.ob(Slot::InsideGeneric);
                self.ty(v);
                self.ob(Slot::InsideGeneric);
                self.tok(">");
            }
            Ty::Map(k, v, c) => {
                self.tok("map");
                self.cpp_type(c);
                self.ob(Slot::InsideGeneric);
                self.tok("<");
                self.ob(Slot::InsideGeneric);
                self.ty(k);
                self.ob(Slot::InsideGeneric);
                // the key/value separator of a map type is a mandatory comma
                self.tok(",");
                self.ob(Slot::InsideGeneric);
                self.ty(v);
                self.ob(Slot::InsideGeneric);
                self.tok(">");
            }
        }
        self.annot(&t.1);
    }
    pub fn cv(&mut self, v: &CV) {
        match v {
            CV::Bool(b) => self.tok(if *b { "true" } else { "false" }),
            CV::Path(p) => self.tok(p),
            CV::Str(s) => self.lit(s),
            CV::Int(i) => self.tok(&i.to_string()),
            CV::HexInt(i) => {
                let t = if *i < 0 { format!("-0x{:x}", i.unsigned_abs()) } else { format!("0x{:x}", i) };
                self.tok(&t)
            }
            CV::Double(s) => self.tok(s),
            CV::List(es) => {
                self.tok("[");
                let n = es.len();
                for (i, e) in es.iter().enumerate() {
                    self.ob(Slot::InsideConstList);
                    self.cv(e);
                    if i + 1 < n {
                        self.sep(true);
                    } else {
                        // optional trailing separator
                        let b = self.next(Slot::Separator);
                        if b % 4 == 1 {
                            self.tok(",");
                        }
                    }
                }
                self.ob(Slot::InsideConstList);
                self.tok("]");
            }
            CV::Map(es) => {
                self.tok("{");
                let n = es.len();
                for (i, (k, v)) in es.iter().enumerate() {
                    self.ob(Slot::InsideConstMap);
                    self.cv(k);
                    self.ob(Slot::InsideConstMap);
                    self.tok(":");
                    self.ob(Slot::InsideConstMap);
                    self.cv(v);
                    if i + 1 < n {
                        self.sep(true);
                    }
                }
                self.ob(Slot::InsideConstMap);
                self.tok("}");
            }
        }
    }
    pub fn field(&mut self, f: &Field, in_args: bool, last: bool) {
        self.tok(&f.id.to_string());
        self.ob(Slot::AfterFieldId);
        self.tok(":");
        self.ob(Slot::AfterColon);
        match f.attr {
            Attr::Optional => {
                self.tok("optional");
                self.mb(Slot::AfterAttr);
            }
            Attr::Required => {
                // arguments are required whether or not it is spelled out
                let spelled = !in_args || self.next(Slot::AfterAttr) % 2 == 0;
                if spelled {
                    self.tok("required");
                    self.mb(Slot::AfterAttr);
                }
            }
            Attr::Default => {}
        }
        self.ty(&f.ty);
        // after a type that ends in '>' or ')' the blank is optional
        let type_ends_word = f.ty.1 .0.is_empty() && !matches!(f.ty.0, Ty::List(_, None) | Ty::Set(..) | Ty::Map(..));
        if type_ends_word {
            self.mb(Slot::AfterType);
        } else {
            self.ob(Slot::AfterType);
        }
        self.tok(&f.name);
        if let Some(d) = &f.default {
            self.ob(Slot::AroundEquals);
            self.tok("=");
            self.ob(Slot::AroundEquals);
            self.cv(d);
        }
        self.annot(&f.annot);
        // a separator after the last field is optional as well
        let _ = last;
        self.sep(true);
    }
    fn struct_like(&mut self, kw: &str, s: &StructLike) {
        self.tok(kw);
        self.mb(Slot::AfterKeyword);
        self.tok(&s.name);
        self.ob(Slot::BeforeBrace);
        self.tok("{");
        self.ob(Slot::AfterOpenBrace);
        let n = s.fields.len();
        for (i, f) in s.fields.iter().enumerate() {
            self.field(f, false, i + 1 == n);
        }
        self.ob(Slot::BeforeCloseBrace);
        self.tok("}");
        self.annot(&s.annot);
    }
    pub fn function(&mut self, f: &Function) {
        if f.oneway {
            self.tok("oneway");
            self.mb(Slot::AfterKeyword);
        }
        self.ty(&f.result);
        self.mb(Slot::AfterType);
        self.tok(&f.name);
        self.ob(Slot::AfterName);
        self.tok("(");
        self.ob(Slot::InsideParens);
        let n = f.args.len();
        for (i, a) in f.args.iter().enumerate() {
            self.field(a, true, i + 1 == n);
        }
        self.tok(")");
        if !f.throws.is_empty() {
            self.ob(Slot::BeforeThrows);
            self.tok("throws");
            self.ob(Slot::AfterThrows);
            self.tok("(");
            self.ob(Slot::InsideParens);
            let n = f.throws.len();
            for (i, a) in f.throws.iter().enumerate() {
                self.field(a, false, i + 1 == n);
            }
            self.tok(")");
        }
        self.annot(&f.annot);
        self.sep(true);
    }
    pub fn item(&mut self, it: &Item) {
        match it {
            Item::Include(p) => {
                self.tok("include");
                self.mb(Slot::AfterKeyword);
                self.lit(p);
            }
            Item::CppInclude(p) => {
                self.tok("cpp_include");
                self.mb(Slot::AfterKeyword);
                self.lit(p);
            }
            Item::Namespace { scope, name, annot } => {
                self.tok("namespace");
                self.mb(Slot::AfterKeyword);
                self.tok(scope);
                self.mb(Slot::AfterKeyword);
                self.tok(name);
                if let Some(a) = annot {
                    self.ob(Slot::BeforeAnnot);
                    self.annot_body(a);
                }
            }
            Item::Typedef { ty, alias, annot } => {
                self.tok("typedef");
                self.mb(Slot::AfterKeyword);
                self.ty(ty);
                self.mb(Slot::AfterType);
                self.tok(alias);
                self.annot(annot);
            }
            Item::Const { name, ty, value, annot } => {
                self.tok("const");
                self.mb(Slot::AfterKeyword);
                self.ty(ty);
                self.mb(Slot::AfterType);
                self.tok(name);
                self.ob(Slot::AroundEquals);
                self.tok("=");
                self.ob(Slot::AroundEquals);
                self.cv(value);
                self.annot(annot);
                // optional separator after a constant definition
                self.ob(Slot::BeforeSeparator);
                let b = self.next(Slot::Separator);
                match b % 3 {
                    0 => {}
                    1 => self.tok(";"),
                    _ => self.tok(","),
                }
            }
            Item::Enum { name, values, annot } => {
                self.tok("enum");
                self.mb(Slot::AfterKeyword);
                self.tok(name);
                self.ob(Slot::BeforeBrace);
                self.tok("{");
                self.ob(Slot::AfterOpenBrace);
                for (n, v, a) in values {
                    self.tok(n);
                    if let Some(v) = v {
                        self.ob(Slot::EnumValue);
                        self.tok("=");
                        self.ob(Slot::EnumValue);
                        self.tok(&v.to_string());
                    }
                    self.annot(a);
                    self.sep(true);
                }
                self.ob(Slot::BeforeCloseBrace);
                self.tok("}");
                self.annot(annot);
            }
            Item::Struct(s) => self.struct_like("struct", s),
            Item::Union(s) => self.struct_like("union", s),
            Item::Exception(s) => self.struct_like("exception", s),
            Item::Service { name, extends, functions, annot } => {
                self.tok("service");
                self.mb(Slot::AfterKeyword);
                self.tok(name);
                if let Some(e) = extends {
                    self.mb(Slot::BeforeExtends);
                    self.tok("extends");
                    self.mb(Slot::BeforeExtends);
                    self.tok(e);
                }
                self.ob(Slot::BeforeBrace);
                self.tok("{");
                self.ob(Slot::AfterOpenBrace);
                for f in functions {
                    self.function(f);
                }
                self.ob(Slot::BeforeCloseBrace);
                self.tok("}");
                self.annot(annot);
            }
        }
    }
    pub fn doc(&mut self, d: &Doc) {
        self.ob(Slot::FileStart);
        for it in &d.items {
            self.item(it);
            // items end in a word, literal, ')' or '}'; the next one starts with a keyword
            self.mb(Slot::BetweenItems);
        }
        self.ob(Slot::FileEnd);
        // a final newline is optional, also right after a line comment
        let b = self.next(Slot::FileEnd);
        if b % 2 == 1 && self.out.ends_with('\n') {
            self.out.pop();
        }
    }
}

#[derive(Debug, Clone, Default)]
pub struct PrintInfo {
    pub used_slots: Vec<(Slot, u32)>,
    pub comment_styles: usize,
    pub none_separators: u32,
}

pub fn print(d: &Doc, layout: &Layout) -> (String, PrintInfo) {
    let mut p = Printer::new(layout);
    p.doc(d);
    let info = PrintInfo {
        used_slots: p.used.iter().map(|(k, v)| (*k, *v)).collect(),
        comment_styles: p.comment_styles.len(),
        none_separators: p.none_separators,
    };
    (p.out, info)
}

// ---------------------------------------------------------------------------------------------
// generators

pub const KEYWORDS: [&str; 33] = [
    "include", "cpp_include", "namespace", "typedef", "const", "enum", "struct", "union", "exception", "service", "extends", "oneway", "throws",
    "required", "optional", "true", "false", "string", "void", "byte", "bool", "binary", "i8", "i16", "i32", "i64", "double", "uuid", "list", "set",
    "map", "cpp_type", "async",
];

/// `kw_prefixed`: allow identifiers that merely begin with a keyword.
pub fn arb_ident(kw_prefixed: bool) -> BoxedStrategy<String> {
    let plain = "[a-zA-Z_][a-zA-Z0-9_]{0,8}".prop_filter("not a bare keyword or underscore-only", |s: &String| {
        !KEYWORDS.contains(&s.as_str()) && s.chars().any(|c| c.is_ascii_alphabetic())
    });
    if !kw_prefixed {
        return plain.boxed();
    }
    let kw = (prop::sample::select(KEYWORDS.to_vec()), prop::sample::select(vec!["X", "_y", "1", "Foo", "s", "_"]))
        .prop_map(|(k, s)| format!("{}{}", k, s))
        .prop_filter("not itself a keyword", |s: &String| !KEYWORDS.contains(&s.as_str()));
    prop_oneof![3 => plain, 2 => kw].boxed()
}

fn arb_path(kw: bool) -> BoxedStrategy<String> {
    prop_oneof![
        4 => arb_ident(kw),
        1 => (arb_ident(false), arb_ident(kw)).prop_map(|(a, b)| format!("{}.{}", a, b)),
    ]
    .boxed()
}

fn arb_lit() -> BoxedStrategy<String> {
    prop_oneof![
        6 => "[a-zA-Z0-9_ .:/<>(){},;=#*+-]{0,12}",
        1 => "[a-z ]{0,4}'[a-z ]{0,4}",
        1 => "[a-z ]{0,4}\"[a-z ]{0,4}",
        1 => "[a-z]{0,3}[\u{e9}\u{4e2d}\u{1f600}][a-z]{0,3}",
        // the escape pairs the grammar knows (backslash, either quote, n), in any position: the
        // literal's text is kept as written, so these are part of the value
        2 => prop::collection::vec(prop::sample::select(vec!["a", "b ", " ", "C:", "\\\\", "\\\"", "\\'", "\\n", "\u{e9}"]), 0..6).prop_map(|v| v.concat()),
        1 => Just(String::new()),
    ]
    .boxed()
}

pub fn arb_annot() -> BoxedStrategy<Annot> {
    prop_oneof![
        5 => Just(Annot(vec![])),
        2 => prop::collection::vec(("[a-zA-Z_][a-zA-Z0-9_.]{0,10}", arb_lit()), 1..4).prop_map(Annot),
    ]
    .boxed()
}

pub fn arb_type(depth: u32, kw: bool) -> BoxedStrategy<Type> {
    let base = prop_oneof![
        Just(Ty::String),
        Just(Ty::Byte),
        Just(Ty::Bool),
        Just(Ty::Binary),
        Just(Ty::I8),
        Just(Ty::I16),
        Just(Ty::I32),
        Just(Ty::I64),
        Just(Ty::Double),
        Just(Ty::Uuid),
        arb_path(kw).prop_map(Ty::Path),
        arb_path(kw).prop_map(Ty::Path),
    ];
    let ty: BoxedStrategy<Ty> = if depth == 0 {
        base.boxed()
    } else {
        let cpp = prop::option::weighted(0.15, "[a-zA-Z:<>]{1,8}");
        prop_oneof![
            5 => base,
            1 => (arb_type(depth - 1, kw), cpp.clone()).prop_map(|(t, c)| Ty::List(Box::new(t), c)),
            1 => (arb_type(depth - 1, kw), cpp.clone()).prop_map(|(t, c)| Ty::Set(Box::new(t), c)),
            1 => (arb_type(depth - 1, kw), arb_type(depth - 1, kw), cpp).prop_map(|(k, v, c)| Ty::Map(Box::new(k), Box::new(v), c)),
        ]
        .boxed()
    };
    (ty, prop_oneof![6 => Just(Annot(vec![])), 1 => arb_annot()]).prop_map(|(t, a)| Type(t, a)).boxed()
}

pub fn arb_cv(depth: u32, kw: bool) -> BoxedStrategy<CV> {
    let leaf = prop_oneof![
        any::<bool>().prop_map(CV::Bool),
        arb_path(kw).prop_map(CV::Path),
        arb_lit().prop_map(CV::Str),
        prop_oneof![any::<i64>(), -10i64..1000, Just(i64::MAX), Just(i64::MIN + 1), Just(i64::MIN)].prop_map(CV::Int),
        prop_oneof![8 => -70000i64..70000, 8 => any::<i64>(), 1 => Just(i64::MIN), 1 => Just(i64::MAX)].prop_map(CV::HexInt),
        prop_oneof![
            Just("1.5".to_string()),
            Just("-0.25".to_string()),
            Just("1e5".to_string()),
            Just("2.5E-3".to_string()),
            Just(".5".to_string()),
            Just("3.".to_string()),
            // every combination of the optional parts: sign, integer digits, dot, fraction, exponent
            Just("1.e5".to_string()),
            Just("12.e-3".to_string()),
            Just("-7.E-2".to_string()),
            Just(".5e3".to_string()),
            Just("+2.5".to_string()),
            Just("6.02e23".to_string()),
            Just("1e-7".to_string()),
            (0u32..1000, 0u32..1000, -30i32..30).prop_map(|(a, b, e)| format!("{}.{}e{}", a, b, e)),
            (0u32..100000, 0u32..1000).prop_map(|(a, b)| format!("{}.{}", a, b)),
        ]
        .prop_map(CV::Double),
    ];
    if depth == 0 {
        leaf.boxed()
    } else {
        prop_oneof![
            5 => leaf,
            1 => prop::collection::vec(arb_cv(depth - 1, kw), 0..4).prop_map(CV::List),
            1 => prop::collection::vec((arb_cv(depth - 1, kw), arb_cv(depth - 1, kw)), 0..3).prop_map(CV::Map),
        ]
        .boxed()
    }
}

pub fn arb_field(kw: bool, in_args: bool) -> BoxedStrategy<Field> {
    let attr = if in_args {
        prop_oneof![Just(Attr::Required), Just(Attr::Optional)].boxed()
    } else {
        prop_oneof![Just(Attr::Required), Just(Attr::Optional), Just(Attr::Default), Just(Attr::Default)].boxed()
    };
    (
        prop_oneof![1i32..40, 0i32..=32767, Just(i32::MAX)],
        arb_ident(kw),
        attr,
        arb_type(2, kw),
        prop::option::weighted(0.3, arb_cv(2, kw)),
        arb_annot(),
    )
        .prop_map(|(id, name, attr, ty, default, annot)| Field { id, name, attr, ty, default, annot })
        .boxed()
}

fn arb_struct_like(kw: bool) -> BoxedStrategy<StructLike> {
    (arb_ident(kw), prop::collection::vec(arb_field(kw, false), 0..5), arb_annot())
        .prop_map(|(name, fields, annot)| StructLike { name, fields, annot })
        .boxed()
}

pub fn arb_function(kw: bool) -> BoxedStrategy<Function> {
    (
        arb_ident(kw),
        prop::bool::weighted(0.2),
        prop_oneof![1 => Just(Type(Ty::Void, Annot(vec![]))), 3 => arb_type(1, kw)],
        prop::collection::vec(arb_field(kw, true), 0..3),
        prop::collection::vec(arb_field(kw, false), 0..3),
        arb_annot(),
    )
        .prop_map(|(name, oneway, result, args, throws, annot)| Function { name, oneway, result, args, throws, annot })
        .boxed()
}

pub const SCOPES: [&str; 18] = [
    "*", "c_glib", "cpp", "delphi", "haxe", "go", "java", "js", "lua", "netstd", "perl", "php", "py.twisted", "py", "rb", "st", "xsd", "rs",
];

pub fn arb_item(kw: bool) -> BoxedStrategy<Item> {
    prop_oneof![
        1 => "[a-zA-Z0-9_./-]{1,12}".prop_map(Item::Include),
        1 => "[a-zA-Z0-9_./<>-]{1,12}".prop_map(Item::CppInclude),
        2 => (prop::sample::select(SCOPES.to_vec()), arb_path(false), prop::option::weighted(0.2, prop::collection::vec(("[a-z_][a-z.]{0,6}", arb_lit()), 1..3).prop_map(Annot)))
            .prop_map(|(s, name, annot)| Item::Namespace { scope: s.to_string(), name, annot }),
        2 => (arb_type(2, kw), arb_ident(kw), arb_annot()).prop_map(|(ty, alias, annot)| Item::Typedef { ty, alias, annot }),
        3 => (arb_ident(kw), arb_type(2, kw), arb_cv(3, kw), arb_annot()).prop_map(|(name, ty, value, annot)| Item::Const { name, ty, value, annot }),
        2 => (arb_ident(kw), prop::collection::vec((arb_ident(kw), prop::option::of(prop_oneof![4 => 0i64..100, 3 => any::<i32>().prop_map(|x| x as i64), 1 => prop::sample::select(vec![2147483647i64, 2147483648, -2147483648, -2147483649, 4294967295, 4294967296, i64::MAX, i64::MIN, i64::MIN + 1]), 1 => any::<i64>()]), arb_annot()), 0..5), arb_annot())
            .prop_map(|(name, values, annot)| Item::Enum { name, values, annot }),
        4 => arb_struct_like(kw).prop_map(Item::Struct),
        2 => arb_struct_like(kw).prop_map(Item::Union),
        2 => arb_struct_like(kw).prop_map(Item::Exception),
        3 => (arb_ident(kw), prop::option::weighted(0.3, arb_path(kw)), prop::collection::vec(arb_function(kw), 0..4), arb_annot())
            .prop_map(|(name, extends, functions, annot)| Item::Service { name, extends, functions, annot }),
    ]
    .boxed()
}

pub fn arb_doc(kw: bool) -> BoxedStrategy<Doc> {
    prop::collection::vec(arb_item(kw), 0..7).prop_map(|items| Doc { items }).boxed()
}

pub fn arb_layout() -> BoxedStrategy<Layout> {
    prop_oneof![
        1 => Just(Layout::canonical()),
        6 => prop::collection::vec(prop_oneof![3 => Just(0u8), 5 => any::<u8>()], 1..64).prop_map(|tape| Layout { tape }),
    ]
    .boxed()
}

// ---------------------------------------------------------------------------------------------
// shrinking of documents

fn shrink_annot(a: &Annot) -> Vec<Annot> {
    if a.0.is_empty() {
        vec![]
    } else {
        vec![Annot(vec![])]
    }
}

fn shrink_type(t: &Type) -> Vec<Type> {
    let mut out = vec![];
    if t.0 != Ty::I32 || !t.1 .0.is_empty() {
        out.push(Type(Ty::I32, Annot(vec![])));
    }
    for a in shrink_annot(&t.1) {
        out.push(Type(t.0.clone(), a));
    }
    match &t.0 {
        Ty::List(v, _) | Ty::Set(v, _) => out.push((**v).clone()),
        Ty::Map(k, v, _) => {
            out.push((**k).clone());
            out.push((**v).clone());
        }
        _ => {}
    }
    out
}

fn shrink_cv(v: &CV) -> Vec<CV> {
    let mut out = vec![];
    if *v != CV::Int(0) {
        out.push(CV::Int(0));
    }
    match v {
        CV::List(es) => {
            for e in es {
                out.push(e.clone());
            }
            for i in 0..es.len() {
                let mut c = es.clone();
                c.remove(i);
                out.push(CV::List(c));
            }
        }
        CV::Map(es) => {
            for (k, e) in es {
                out.push(k.clone());
                out.push(e.clone());
            }
            for i in 0..es.len() {
                let mut c = es.clone();
                c.remove(i);
                out.push(CV::Map(c));
            }
        }
        _ => {}
    }
    out
}

fn shrink_field(f: &Field) -> Vec<Field> {
    let mut out = vec![];
    if f.default.is_some() {
        out.push(Field { default: None, ..f.clone() });
    }
    if let Some(d) = &f.default {
        for c in shrink_cv(d) {
            out.push(Field { default: Some(c), ..f.clone() });
        }
    }
    for a in shrink_annot(&f.annot) {
        out.push(Field { annot: a, ..f.clone() });
    }
    for t in shrink_type(&f.ty) {
        out.push(Field { ty: t, ..f.clone() });
    }
    if f.attr != Attr::Default && f.attr != Attr::Required {
        out.push(Field { attr: Attr::Required, ..f.clone() });
    }
    if f.id != 1 {
        out.push(Field { id: 1, ..f.clone() });
    }
    if f.name != "a" {
        out.push(Field { name: "a".into(), ..f.clone() });
    }
    out
}

fn shrink_fields(fs: &[Field]) -> Vec<Vec<Field>> {
    let mut out = vec![];
    for i in 0..fs.len() {
        let mut c = fs.to_vec();
        c.remove(i);
        out.push(c);
    }
    for i in 0..fs.len() {
        for f in shrink_field(&fs[i]) {
            let mut c = fs.to_vec();
            c[i] = f;
            out.push(c);
        }
    }
    out
}

fn shrink_sl(s: &StructLike) -> Vec<StructLike> {
    let mut out = vec![];
    for fs in shrink_fields(&s.fields) {
        out.push(StructLike { fields: fs, ..s.clone() });
    }
    for a in shrink_annot(&s.annot) {
        out.push(StructLike { annot: a, ..s.clone() });
    }
    if s.name != "S" {
        out.push(StructLike { name: "S".into(), ..s.clone() });
    }
    out
}

impl Shrink for Item {
    fn candidates(&self) -> Vec<Item> {
        match self {
            Item::Struct(s) => shrink_sl(s).into_iter().map(Item::Struct).collect(),
            Item::Union(s) => {
                let mut v: Vec<Item> = vec![Item::Struct(s.clone())];
                v.extend(shrink_sl(s).into_iter().map(Item::Union));
                v
            }
            Item::Exception(s) => {
                let mut v: Vec<Item> = vec![Item::Struct(s.clone())];
                v.extend(shrink_sl(s).into_iter().map(Item::Exception));
                v
            }
            Item::Typedef { ty, alias, annot } => {
                let mut out = vec![];
                for t in shrink_type(ty) {
                    out.push(Item::Typedef { ty: t, alias: alias.clone(), annot: annot.clone() });
                }
                for a in shrink_annot(annot) {
                    out.push(Item::Typedef { ty: ty.clone(), alias: alias.clone(), annot: a });
                }
                out
            }
            Item::Const { name, ty, value, annot } => {
                let mut out = vec![];
                for v in shrink_cv(value) {
                    out.push(Item::Const { name: name.clone(), ty: ty.clone(), value: v, annot: annot.clone() });
                }
                for t in shrink_type(ty) {
                    out.push(Item::Const { name: name.clone(), ty: t, value: value.clone(), annot: annot.clone() });
                }
                for a in shrink_annot(annot) {
                    out.push(Item::Const { name: name.clone(), ty: ty.clone(), value: value.clone(), annot: a });
                }
                out
            }
            Item::Enum { name, values, annot } => {
                let mut out = vec![];
                for i in 0..values.len() {
                    let mut c = values.clone();
                    c.remove(i);
                    out.push(Item::Enum { name: name.clone(), values: c, annot: annot.clone() });
                }
                for i in 0..values.len() {
                    if !values[i].2 .0.is_empty() {
                        let mut c = values.clone();
                        c[i].2 = Annot(vec![]);
                        out.push(Item::Enum { name: name.clone(), values: c, annot: annot.clone() });
                    }
                    if values[i].1.is_some() {
                        let mut c = values.clone();
                        c[i].1 = None;
                        out.push(Item::Enum { name: name.clone(), values: c, annot: annot.clone() });
                    }
                }
                for a in shrink_annot(annot) {
                    out.push(Item::Enum { name: name.clone(), values: values.clone(), annot: a });
                }
                out
            }
            Item::Service { name, extends, functions, annot } => {
                let mut out = vec![];
                for i in 0..functions.len() {
                    let mut c = functions.clone();
                    c.remove(i);
                    out.push(Item::Service { name: name.clone(), extends: extends.clone(), functions: c, annot: annot.clone() });
                }
                if extends.is_some() {
                    out.push(Item::Service { name: name.clone(), extends: None, functions: functions.clone(), annot: annot.clone() });
                }
                for i in 0..functions.len() {
                    let f = &functions[i];
                    let mut alts: Vec<Function> = vec![];
                    for a in shrink_fields(&f.args) {
                        alts.push(Function { args: a, ..f.clone() });
                    }
                    for a in shrink_fields(&f.throws) {
                        alts.push(Function { throws: a, ..f.clone() });
                    }
                    for t in shrink_type(&f.result) {
                        alts.push(Function { result: t, ..f.clone() });
                    }
                    if f.oneway {
                        alts.push(Function { oneway: false, ..f.clone() });
                    }
                    for a in shrink_annot(&f.annot) {
                        alts.push(Function { annot: a, ..f.clone() });
                    }
                    for alt in alts {
                        let mut c = functions.clone();
                        c[i] = alt;
                        out.push(Item::Service { name: name.clone(), extends: extends.clone(), functions: c, annot: annot.clone() });
                    }
                }
                for a in shrink_annot(annot) {
                    out.push(Item::Service { name: name.clone(), extends: extends.clone(), functions: functions.clone(), annot: a });
                }
                out
            }
            Item::Namespace { scope, name, annot } => {
                if annot.is_some() {
                    vec![Item::Namespace { scope: scope.clone(), name: name.clone(), annot: None }]
                } else {
                    vec![]
                }
            }
            _ => vec![],
        }
    }
}

impl Shrink for Doc {
    fn candidates(&self) -> Vec<Doc> {
        self.items.candidates().into_iter().map(|items| Doc { items }).collect()
    }
}

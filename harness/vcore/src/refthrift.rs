//! Reference Thrift codecs written from thrift-binary-protocol.md and
//! thrift-compact-protocol.md. Shares no code with pilota.
use crate::tval::{TVal, TT};
use serde::{Deserialize, Serialize};

#[derive(Clone, Copy, Debug, PartialEq, Eq, Serialize, Deserialize)]
pub enum Proto {
    Binary,
    BinaryLe,
    Compact,
}

#[derive(Clone, Copy, Debug, PartialEq, Eq, Serialize, Deserialize)]
pub enum MarkKind {
    /// a byte holding a type code (binary) or type nibble(s) (compact)
    Type,
    FieldId,
    /// string / binary length
    Length,
    /// list / set / map element count
    Count,
    Bool,
    Payload,
    Stop,
    Scalar,
}

#[derive(Clone, Copy, Debug, PartialEq, Eq, Serialize, Deserialize)]
pub struct Mark {
    pub off: usize,
    pub width: usize,
    pub kind: MarkKind,
    /// nesting depth (number of enclosing structs/containers)
    pub depth: u16,
}

/// Spec-legal alternatives the encoder can choose.
#[derive(Clone, Copy, Debug, PartialEq, Eq, Serialize, Deserialize)]
pub struct Variant {
    /// compact: always write the long-form field header (type byte + zigzag id)
    pub long_field_headers: bool,
    /// binary: byte written for `true` (any non-zero value is true)
    pub binary_true: u8,
    /// compact: code announcing bool as element / key / value type in container headers. The
    /// specification names BOOL = 2 there and obliges readers to accept 1 as well (what
    /// implementations write in practice).
    pub bool_elem_code: u8,
}

impl Default for Variant {
    fn default() -> Self {
        Variant {
            long_field_headers: false,
            binary_true: 1,
            bool_elem_code: 1,
        }
    }
}

pub fn zigzag32(n: i32) -> u32 {
    ((n << 1) ^ (n >> 31)) as u32
}
pub fn zigzag64(n: i64) -> u64 {
    ((n << 1) ^ (n >> 63)) as u64
}
pub fn unzigzag64(n: u64) -> i64 {
    ((n >> 1) as i64) ^ -((n & 1) as i64)
}
pub fn put_varint(out: &mut Vec<u8>, mut n: u64) -> usize {
    let mut w = 0;
    loop {
        w += 1;
        if n < 0x80 {
            out.push(n as u8);
            return w;
        }
        out.push((n as u8 & 0x7f) | 0x80);
        n >>= 7;
    }
}
pub fn varint_len(mut n: u64) -> usize {
    let mut w = 1;
    while n >= 0x80 {
        n >>= 7;
        w += 1;
    }
    w
}

pub struct Enc {
    pub proto: Proto,
    pub variant: Variant,
    pub out: Vec<u8>,
    pub marks: Vec<Mark>,
    depth: u16,
}

impl Enc {
    pub fn new(proto: Proto, variant: Variant) -> Self {
        Enc {
            proto,
            variant,
            out: vec![],
            marks: vec![],
            depth: 0,
        }
    }
    fn mark(&mut self, off: usize, width: usize, kind: MarkKind) {
        self.marks.push(Mark {
            off,
            width,
            kind,
            depth: self.depth,
        });
    }
    fn fixed(&mut self, bytes_be: &[u8], kind: MarkKind) {
        let off = self.out.len();
        if self.proto == Proto::BinaryLe {
            self.out.extend(bytes_be.iter().rev());
        } else {
            self.out.extend_from_slice(bytes_be);
        }
        self.mark(off, bytes_be.len(), kind);
    }
    fn varint(&mut self, n: u64, kind: MarkKind) {
        let off = self.out.len();
        let w = put_varint(&mut self.out, n);
        self.mark(off, w, kind);
    }
    fn byte(&mut self, b: u8, kind: MarkKind) {
        let off = self.out.len();
        self.out.push(b);
        self.mark(off, 1, kind);
    }

    /// Message envelope.
    pub fn message_begin(&mut self, name: &[u8], mtype: u8, seqid: i32) {
        match self.proto {
            Proto::Binary => {
                // strict: version word 0x8001 | 0x00 | type, name, seqid
                let w: u32 = 0x8001_0000 | mtype as u32;
                self.fixed(&w.to_be_bytes(), MarkKind::Scalar);
                self.fixed(&(name.len() as i32).to_be_bytes(), MarkKind::Length);
                let off = self.out.len();
                self.out.extend_from_slice(name);
                self.mark(off, name.len(), MarkKind::Payload);
                self.fixed(&seqid.to_be_bytes(), MarkKind::Scalar);
            }
            Proto::BinaryLe => {
                // pilota-specific protocol (no public specification): same layout, LE, 0x8888
                let w: u32 = 0x8888_0000 | mtype as u32;
                self.fixed(&w.to_be_bytes(), MarkKind::Scalar);
                self.fixed(&(name.len() as i32).to_be_bytes(), MarkKind::Length);
                let off = self.out.len();
                self.out.extend_from_slice(name);
                self.mark(off, name.len(), MarkKind::Payload);
                self.fixed(&seqid.to_be_bytes(), MarkKind::Scalar);
            }
            Proto::Compact => {
                self.byte(0x82, MarkKind::Scalar);
                self.byte((mtype << 5) | 1, MarkKind::Scalar);
                // seqid: "var int (32 bit), not zigzag"
                self.varint(seqid as u32 as u64, MarkKind::Scalar);
                self.varint(name.len() as u64, MarkKind::Length);
                let off = self.out.len();
                self.out.extend_from_slice(name);
                self.mark(off, name.len(), MarkKind::Payload);
            }
        }
    }

    pub fn value(&mut self, v: &TVal) {
        match self.proto {
            Proto::Compact => self.compact_value(v, false),
            _ => self.binary_value(v),
        }
    }

    fn binary_value(&mut self, v: &TVal) {
        match v {
            TVal::Bool(b) => {
                let byte = if *b { self.variant.binary_true } else { 0 };
                self.byte(byte, MarkKind::Bool)
            }
            TVal::I8(x) => self.byte(*x as u8, MarkKind::Scalar),
            TVal::I16(x) => self.fixed(&x.to_be_bytes(), MarkKind::Scalar),
            TVal::I32(x) => self.fixed(&x.to_be_bytes(), MarkKind::Scalar),
            TVal::I64(x) => self.fixed(&x.to_be_bytes(), MarkKind::Scalar),
            TVal::Double(bits) => self.fixed(&bits.to_be_bytes(), MarkKind::Scalar),
            TVal::Binary(b) => {
                self.fixed(&(b.len() as i32).to_be_bytes(), MarkKind::Length);
                let off = self.out.len();
                self.out.extend_from_slice(b);
                self.mark(off, b.len(), MarkKind::Payload);
            }
            TVal::Uuid(u) => {
                // network order, not affected by the LE variant
                let off = self.out.len();
                self.out.extend_from_slice(u);
                self.mark(off, 16, MarkKind::Scalar);
            }
            TVal::Struct(fs) => {
                self.depth += 1;
                for (id, fv) in fs {
                    self.byte(fv.tt().code(), MarkKind::Type);
                    self.fixed(&id.to_be_bytes(), MarkKind::FieldId);
                    self.binary_value(fv);
                }
                self.byte(0, MarkKind::Stop);
                self.depth -= 1;
            }
            TVal::List(t, es) | TVal::Set(t, es) => {
                self.byte(t.code(), MarkKind::Type);
                self.fixed(&(es.len() as i32).to_be_bytes(), MarkKind::Count);
                self.depth += 1;
                for e in es {
                    self.binary_value(e);
                }
                self.depth -= 1;
            }
            TVal::Map(k, vt, es) => {
                self.byte(k.code(), MarkKind::Type);
                self.byte(vt.code(), MarkKind::Type);
                self.fixed(&(es.len() as i32).to_be_bytes(), MarkKind::Count);
                self.depth += 1;
                for (a, b) in es {
                    self.binary_value(a);
                    self.binary_value(b);
                }
                self.depth -= 1;
            }
        }
    }

    /// `in_field`: bool values of struct fields live in the field header and write nothing here.
    fn elem_code(&self, t: TT) -> u8 {
        if t == TT::Bool {
            self.variant.bool_elem_code
        } else {
            t.compact_code()
        }
    }
    fn compact_value(&mut self, v: &TVal, in_field: bool) {
        match v {
            TVal::Bool(b) => {
                if !in_field {
                    self.byte(if *b { 1 } else { 2 }, MarkKind::Bool)
                }
            }
            TVal::I8(x) => self.byte(*x as u8, MarkKind::Scalar),
            TVal::I16(x) => self.varint(zigzag32(*x as i32) as u64, MarkKind::Scalar),
            TVal::I32(x) => self.varint(zigzag32(*x) as u64, MarkKind::Scalar),
            TVal::I64(x) => self.varint(zigzag64(*x), MarkKind::Scalar),
            TVal::Double(bits) => {
                // little-endian (thrift-compact-protocol.md, "Double encoding")
                let off = self.out.len();
                self.out.extend_from_slice(&bits.to_le_bytes());
                self.mark(off, 8, MarkKind::Scalar);
            }
            TVal::Binary(b) => {
                self.varint(b.len() as u64, MarkKind::Length);
                let off = self.out.len();
                self.out.extend_from_slice(b);
                self.mark(off, b.len(), MarkKind::Payload);
            }
            TVal::Uuid(u) => {
                let off = self.out.len();
                self.out.extend_from_slice(u);
                self.mark(off, 16, MarkKind::Scalar);
            }
            TVal::Struct(fs) => {
                self.depth += 1;
                let mut last: i16 = 0;
                for (id, fv) in fs {
                    let tcode = match fv {
                        TVal::Bool(true) => 1,
                        TVal::Bool(false) => 2,
                        o => o.tt().compact_code(),
                    };
                    let delta = *id as i32 - last as i32;
                    if !self.variant.long_field_headers && delta > 0 && delta <= 15 {
                        self.byte(((delta as u8) << 4) | tcode, MarkKind::Type);
                    } else {
                        self.byte(tcode, MarkKind::Type);
                        self.varint(zigzag32(*id as i32) as u64, MarkKind::FieldId);
                    }
                    last = *id;
                    self.compact_value(fv, true);
                }
                self.byte(0, MarkKind::Stop);
                self.depth -= 1;
            }
            TVal::List(t, es) | TVal::Set(t, es) => {
                if es.len() < 15 {
                    self.byte(((es.len() as u8) << 4) | self.elem_code(*t), MarkKind::Type);
                } else {
                    self.byte(0xF0 | self.elem_code(*t), MarkKind::Type);
                    self.varint(es.len() as u64, MarkKind::Count);
                }
                self.depth += 1;
                for e in es {
                    self.compact_value(e, false);
                }
                self.depth -= 1;
            }
            TVal::Map(k, vt, es) => {
                if es.is_empty() {
                    self.byte(0, MarkKind::Count);
                } else {
                    self.varint(es.len() as u64, MarkKind::Count);
                    self.byte((self.elem_code(*k) << 4) | self.elem_code(*vt), MarkKind::Type);
                    self.depth += 1;
                    for (a, b) in es {
                        self.compact_value(a, false);
                        self.compact_value(b, false);
                    }
                    self.depth -= 1;
                }
            }
        }
    }
}

pub fn encode(proto: Proto, v: &TVal) -> Vec<u8> {
    let mut e = Enc::new(proto, Variant::default());
    e.value(v);
    e.out
}

pub fn encode_with(proto: Proto, variant: Variant, v: &TVal) -> (Vec<u8>, Vec<Mark>) {
    let mut e = Enc::new(proto, variant);
    e.value(v);
    (e.out, e.marks)
}

// ---------------------------------------------------------------------------------------------
// strict decoder

pub struct Dec<'a> {
    pub proto: Proto,
    pub buf: &'a [u8],
    pub pos: usize,
    pub max_depth: usize,
}

pub type DResult<T> = Result<T, String>;

impl<'a> Dec<'a> {
    pub fn new(proto: Proto, buf: &'a [u8]) -> Self {
        Dec {
            proto,
            buf,
            pos: 0,
            max_depth: 4096,
        }
    }
    fn take(&mut self, n: usize) -> DResult<&'a [u8]> {
        if self.buf.len() - self.pos < n {
            return Err(format!("eof at {} need {}", self.pos, n));
        }
        let s = &self.buf[self.pos..self.pos + n];
        self.pos += n;
        Ok(s)
    }
    fn u8(&mut self) -> DResult<u8> {
        Ok(self.take(1)?[0])
    }
    fn fixed<const N: usize>(&mut self) -> DResult<[u8; N]> {
        let s = self.take(N)?;
        let mut a = [0u8; N];
        a.copy_from_slice(s);
        if self.proto == Proto::BinaryLe {
            a.reverse();
        }
        Ok(a)
    }
    fn varint(&mut self, max_bytes: usize) -> DResult<u64> {
        let mut r: u64 = 0;
        let mut shift = 0;
        for i in 0..max_bytes {
            let b = self.u8()?;
            r |= ((b & 0x7f) as u64) << shift;
            if b & 0x80 == 0 {
                return Ok(r);
            }
            shift += 7;
            if i + 1 == max_bytes {
                return Err("varint too long".into());
            }
        }
        Err("varint too long".into())
    }
    fn len32(&mut self) -> DResult<usize> {
        let n = i32::from_be_bytes(self.fixed::<4>()?);
        if n < 0 {
            return Err(format!("negative length {}", n));
        }
        if n as usize > self.buf.len() - self.pos {
            return Err(format!("length {} exceeds input", n));
        }
        Ok(n as usize)
    }

    pub fn message_begin(&mut self) -> DResult<(Vec<u8>, u8, i32)> {
        match self.proto {
            Proto::Binary | Proto::BinaryLe => {
                let w = u32::from_be_bytes(self.fixed::<4>()?);
                let want = if self.proto == Proto::Binary { 0x8001 } else { 0x8888 };
                if w >> 16 != want {
                    return Err(format!("bad version word {:#x}", w));
                }
                if (w >> 8) & 0xff != 0 {
                    return Err("unused byte not zero".into());
                }
                let mtype = (w & 0xff) as u8;
                if !(1..=4).contains(&mtype) {
                    return Err(format!("bad message type {}", mtype));
                }
                let n = self.len32()?;
                let name = self.take(n)?.to_vec();
                let seq = i32::from_be_bytes(self.fixed::<4>()?);
                Ok((name, mtype, seq))
            }
            Proto::Compact => {
                if self.u8()? != 0x82 {
                    return Err("bad protocol id".into());
                }
                let b = self.u8()?;
                if b & 0x1f != 1 {
                    return Err("bad version".into());
                }
                let mtype = b >> 5;
                if !(1..=4).contains(&mtype) {
                    return Err(format!("bad message type {}", mtype));
                }
                let seq = self.varint(5)? as u32 as i32;
                let n = self.varint(5)? as usize;
                let name = self.take(n)?.to_vec();
                Ok((name, mtype, seq))
            }
        }
    }

    pub fn value(&mut self, tt: TT) -> DResult<TVal> {
        match self.proto {
            Proto::Compact => self.compact_value(tt, None, 0),
            _ => self.binary_value(tt, 0),
        }
    }

    fn binary_tt(&mut self) -> DResult<TT> {
        let c = self.u8()?;
        TT::from_code(c).ok_or_else(|| format!("bad type code {} at {}", c, self.pos - 1))
    }

    fn binary_value(&mut self, tt: TT, depth: usize) -> DResult<TVal> {
        if depth > self.max_depth {
            return Err("too deep".into());
        }
        Ok(match tt {
            TT::Bool => TVal::Bool(self.u8()? != 0),
            TT::I8 => TVal::I8(self.u8()? as i8),
            TT::I16 => TVal::I16(i16::from_be_bytes(self.fixed::<2>()?)),
            TT::I32 => TVal::I32(i32::from_be_bytes(self.fixed::<4>()?)),
            TT::I64 => TVal::I64(i64::from_be_bytes(self.fixed::<8>()?)),
            TT::Double => TVal::Double(u64::from_be_bytes(self.fixed::<8>()?)),
            TT::Binary => {
                let n = self.len32()?;
                TVal::Binary(self.take(n)?.to_vec())
            }
            TT::Uuid => {
                let mut u = [0u8; 16];
                u.copy_from_slice(self.take(16)?);
                TVal::Uuid(u)
            }
            TT::Struct => {
                let mut fs = vec![];
                loop {
                    let c = self.u8()?;
                    if c == 0 {
                        break;
                    }
                    let ft = TT::from_code(c).ok_or_else(|| format!("bad field type {}", c))?;
                    let id = i16::from_be_bytes(self.fixed::<2>()?);
                    fs.push((id, self.binary_value(ft, depth + 1)?));
                }
                TVal::Struct(fs)
            }
            TT::List | TT::Set => {
                let et = self.binary_tt()?;
                let n = self.len32()?;
                let mut es = vec![];
                for _ in 0..n {
                    es.push(self.binary_value(et, depth + 1)?);
                }
                if tt == TT::List {
                    TVal::List(et, es)
                } else {
                    TVal::Set(et, es)
                }
            }
            TT::Map => {
                let kt = self.binary_tt()?;
                let vt = self.binary_tt()?;
                let n = self.len32()?;
                let mut es = vec![];
                for _ in 0..n {
                    let k = self.binary_value(kt, depth + 1)?;
                    let v = self.binary_value(vt, depth + 1)?;
                    es.push((k, v));
                }
                TVal::Map(kt, vt, es)
            }
        })
    }

    fn compact_len(&mut self) -> DResult<usize> {
        let n = self.varint(5)? as usize;
        if n > self.buf.len() - self.pos && n > (i32::MAX as usize) {
            return Err("length too large".into());
        }
        Ok(n)
    }

    fn compact_value(&mut self, tt: TT, field_bool: Option<bool>, depth: usize) -> DResult<TVal> {
        if depth > self.max_depth {
            return Err("too deep".into());
        }
        Ok(match tt {
            TT::Bool => match field_bool {
                Some(b) => TVal::Bool(b),
                None => match self.u8()? {
                    1 => TVal::Bool(true),
                    // 2 = false; 0 accepted for older writers (spec note)
                    2 | 0 => TVal::Bool(false),
                    o => return Err(format!("bad bool element {}", o)),
                },
            },
            TT::I8 => TVal::I8(self.u8()? as i8),
            TT::I16 => {
                let z = self.varint(3)?;
                let x = unzigzag64(z);
                if x < i16::MIN as i64 || x > i16::MAX as i64 {
                    return Err("i16 out of range".into());
                }
                TVal::I16(x as i16)
            }
            TT::I32 => {
                let z = self.varint(5)?;
                let x = unzigzag64(z);
                if x < i32::MIN as i64 || x > i32::MAX as i64 {
                    return Err("i32 out of range".into());
                }
                TVal::I32(x as i32)
            }
            TT::I64 => TVal::I64(unzigzag64(self.varint(10)?)),
            TT::Double => {
                let mut a = [0u8; 8];
                a.copy_from_slice(self.take(8)?);
                TVal::Double(u64::from_le_bytes(a))
            }
            TT::Binary => {
                let n = self.compact_len()?;
                TVal::Binary(self.take(n)?.to_vec())
            }
            TT::Uuid => {
                let mut u = [0u8; 16];
                u.copy_from_slice(self.take(16)?);
                TVal::Uuid(u)
            }
            TT::Struct => {
                let mut fs = vec![];
                let mut last: i16 = 0;
                loop {
                    let h = self.u8()?;
                    if h == 0 {
                        break;
                    }
                    let tcode = h & 0x0f;
                    let delta = h >> 4;
                    let ft = TT::from_compact_code(tcode).ok_or_else(|| format!("bad compact field type {}", tcode))?;
                    let id = if delta != 0 {
                        let id = last as i32 + delta as i32;
                        if id > i16::MAX as i32 {
                            return Err("field id overflow".into());
                        }
                        id as i16
                    } else {
                        let z = self.varint(3)?;
                        let x = unzigzag64(z);
                        if x < i16::MIN as i64 || x > i16::MAX as i64 {
                            return Err("field id out of range".into());
                        }
                        x as i16
                    };
                    last = id;
                    let fb = match tcode {
                        1 => Some(true),
                        2 => Some(false),
                        _ => None,
                    };
                    fs.push((id, self.compact_value(ft, fb, depth + 1)?));
                }
                TVal::Struct(fs)
            }
            TT::List | TT::Set => {
                let h = self.u8()?;
                let tcode = h & 0x0f;
                let et = TT::from_compact_code(tcode).ok_or_else(|| format!("bad compact element type {}", tcode))?;
                let n = if h >> 4 == 15 { self.compact_len()? } else { (h >> 4) as usize };
                if n > self.buf.len() - self.pos && et != TT::Struct {
                    // every element except an empty struct needs at least one byte
                    return Err("count exceeds input".into());
                }
                let mut es = vec![];
                for _ in 0..n {
                    es.push(self.compact_value(et, None, depth + 1)?);
                }
                if tt == TT::List {
                    TVal::List(et, es)
                } else {
                    TVal::Set(et, es)
                }
            }
            TT::Map => {
                let n = self.compact_len()?;
                if n == 0 {
                    TVal::Map(TT::Bool, TT::Bool, vec![])
                } else {
                    let h = self.u8()?;
                    let kt = TT::from_compact_code(h >> 4).ok_or_else(|| format!("bad compact key type {}", h >> 4))?;
                    let vt = TT::from_compact_code(h & 0x0f).ok_or_else(|| format!("bad compact value type {}", h & 15))?;
                    if n > self.buf.len() - self.pos {
                        return Err("count exceeds input".into());
                    }
                    let mut es = vec![];
                    for _ in 0..n {
                        let k = self.compact_value(kt, None, depth + 1)?;
                        let v = self.compact_value(vt, None, depth + 1)?;
                        es.push((k, v));
                    }
                    TVal::Map(kt, vt, es)
                }
            }
        })
    }
}

pub fn decode(proto: Proto, tt: TT, bytes: &[u8]) -> DResult<(TVal, usize)> {
    let mut d = Dec::new(proto, bytes);
    let v = d.value(tt)?;
    Ok((v, d.pos))
}

#[cfg(test)]
mod tests {
    use super::*;
    use proptest::prelude::*;
    proptest! {
        #[test]
        fn ref_roundtrip(v in crate::tval::arb_any(3, crate::tval::GenCfg::default())) {
            for p in [Proto::Binary, Proto::BinaryLe, Proto::Compact] {
                let b = encode(p, &v);
                let (v2, n) = decode(p, v.tt(), &b).unwrap();
                prop_assert_eq!(n, b.len());
                prop_assert_eq!(v2.normalized(), v.normalized());
            }
        }
    }
    #[test]
    fn spec_examples() {
        // compact: struct {1: i32 1} = 0x15 0x02 0x00
        assert_eq!(encode(Proto::Compact, &TVal::Struct(vec![(1, TVal::I32(1))])), vec![0x15, 0x02, 0x00]);
        // binary: struct {1: i32 1}
        assert_eq!(
            encode(Proto::Binary, &TVal::Struct(vec![(1, TVal::I32(1))])),
            vec![8, 0, 1, 0, 0, 0, 1, 0]
        );
        // zigzag
        assert_eq!(zigzag32(-1), 1);
        assert_eq!(zigzag32(1), 2);
        assert_eq!(zigzag64(i64::MIN), u64::MAX);
        // varint 300 = ac 02
        let mut o = vec![];
        put_varint(&mut o, 300);
        assert_eq!(o, vec![0xac, 0x02]);
    }
}

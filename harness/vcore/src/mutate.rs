//! Structured fault injection on reference encodings, located through the encoder's marks.
use crate::refthrift::{put_varint, Mark, MarkKind, Proto};
use proptest::prelude::*;
use serde::{Deserialize, Serialize};

#[derive(Clone, Debug, PartialEq, Eq, Hash, Serialize, Deserialize)]
pub enum Fault {
    None,
    /// keep the first n bytes (index scaled into 0..len)
    Truncate(u16),
    /// flip one bit (byte index scaled into 0..len)
    Flip(u16, u8),
    /// overwrite the k-th mark of a "structural" kind with a boundary value
    Overwrite(u16, Boundary),
    /// replace the k-th type-carrying byte with an arbitrary byte
    TypeByte(u16, u8),
}

#[derive(Clone, Copy, Debug, PartialEq, Eq, Hash, Serialize, Deserialize)]
pub enum Boundary {
    MinusOne,
    Zero,
    One,
    RemMinus1,
    Rem,
    RemPlus1,
    I32Max,
    U32Max,
    Big16M,
}

pub const BOUNDARIES: [Boundary; 9] = [
    Boundary::MinusOne,
    Boundary::Zero,
    Boundary::One,
    Boundary::RemMinus1,
    Boundary::Rem,
    Boundary::RemPlus1,
    Boundary::I32Max,
    Boundary::U32Max,
    Boundary::Big16M,
];

/// monotone index scaling (keeps proptest shrinking effective)
pub fn scale(i: u16, len: usize) -> usize {
    if len == 0 {
        0
    } else {
        ((i as usize) * len) >> 16
    }
}

pub fn structural(m: &Mark) -> bool {
    matches!(m.kind, MarkKind::Length | MarkKind::Count | MarkKind::FieldId)
}

#[derive(Debug, Clone, Default)]
pub struct Applied {
    pub bytes: Vec<u8>,
    /// what was hit, for class counting / exclusion
    pub kind: Option<MarkKind>,
    pub enlarged_length: bool,
    pub described: String,
}

pub fn apply(proto: Proto, bytes: &[u8], marks: &[Mark], fault: &Fault) -> Applied {
    let mut out = Applied { bytes: bytes.to_vec(), ..Default::default() };
    match fault {
        Fault::None => out.described = "none".into(),
        Fault::Truncate(i) => {
            let n = scale(*i, bytes.len());
            out.bytes.truncate(n);
            out.described = format!("truncate to {} of {}", n, bytes.len());
        }
        Fault::Flip(i, bit) => {
            if !bytes.is_empty() {
                let n = scale(*i, bytes.len());
                out.bytes[n] ^= 1 << (bit % 8);
                out.kind = marks.iter().find(|m| m.off <= n && n < m.off + m.width).map(|m| m.kind);
                out.described = format!("flip bit {} of byte {} ({:?})", bit % 8, n, out.kind);
            }
        }
        Fault::TypeByte(k, b) => {
            let ts: Vec<&Mark> = marks.iter().filter(|m| m.kind == MarkKind::Type).collect();
            if !ts.is_empty() {
                let m = ts[scale(*k, ts.len())];
                out.bytes[m.off] = *b;
                out.kind = Some(MarkKind::Type);
                out.described = format!("type byte at {} := {:#04x}", m.off, b);
            }
        }
        Fault::Overwrite(k, bd) => {
            let ss: Vec<&Mark> = marks.iter().filter(|m| structural(m)).collect();
            if !ss.is_empty() {
                let m = ss[scale(*k, ss.len())];
                let rem = (bytes.len() - (m.off + m.width)) as i64;
                let v: i64 = match bd {
                    Boundary::MinusOne => -1,
                    Boundary::Zero => 0,
                    Boundary::One => 1,
                    Boundary::RemMinus1 => rem - 1,
                    Boundary::Rem => rem,
                    Boundary::RemPlus1 => rem + 1,
                    Boundary::I32Max => i32::MAX as i64,
                    Boundary::U32Max => u32::MAX as i64,
                    Boundary::Big16M => 16 << 20,
                };
                let mut repl: Vec<u8> = vec![];
                match proto {
                    Proto::Compact => {
                        // lengths/counts are unsigned varints; field ids zigzag
                        if m.kind == MarkKind::FieldId {
                            let z = (((v as i32) << 1) ^ ((v as i32) >> 31)) as u32;
                            put_varint(&mut repl, z as u64);
                        } else {
                            put_varint(&mut repl, (v as i32 as u32) as u64);
                        }
                    }
                    Proto::Binary => {
                        if m.width == 2 {
                            repl.extend_from_slice(&(v as i16).to_be_bytes())
                        } else {
                            repl.extend_from_slice(&(v as i32).to_be_bytes())
                        }
                    }
                    Proto::BinaryLe => {
                        if m.width == 2 {
                            repl.extend_from_slice(&(v as i16).to_le_bytes())
                        } else {
                            repl.extend_from_slice(&(v as i32).to_le_bytes())
                        }
                    }
                }
                out.bytes.splice(m.off..m.off + m.width, repl);
                out.kind = Some(m.kind);
                out.enlarged_length = m.kind != MarkKind::FieldId && (v < 0 || v > rem);
                out.described = format!("{:?} at {} := {:?} ({})", m.kind, m.off, bd, v);
            }
        }
    }
    out
}

pub fn arb_fault() -> BoxedStrategy<Fault> {
    prop_oneof![
        3 => any::<u16>().prop_map(Fault::Truncate),
        3 => (any::<u16>(), 0u8..8).prop_map(|(i, b)| Fault::Flip(i, b)),
        4 => (any::<u16>(), prop::sample::select(BOUNDARIES.to_vec())).prop_map(|(k, b)| Fault::Overwrite(k, b)),
        2 => (any::<u16>(), any::<u8>()).prop_map(|(k, b)| Fault::TypeByte(k, b)),
    ]
    .boxed()
}

//! The corpus of IDL documents behind the generated-code checks: a pure function of
//! (VERIF_SEED, tier), so that the orchestrator (which builds) and the test binary (which needs
//! the models) agree without passing files around.
use crate::evidence::{rng_for, Tier};
use crate::tgen::{arb_doc, GenOpts, RawDoc};
use crate::tschema::SDoc;
use proptest::strategy::{Strategy, ValueTree};
use proptest::test_runner::{Config, TestRunner};

pub fn sample<S: Strategy>(strategy: &S, seed: u64, salt: &str, n: usize) -> Vec<S::Value> {
    let mut runner = TestRunner::new_with_rng(Config { failure_persistence: None, ..Config::default() }, rng_for(seed, salt));
    (0..n).map(|_| strategy.new_tree(&mut runner).expect("strategy").current()).collect()
}

#[derive(Clone, Copy, Debug, PartialEq, Eq)]
pub struct UnitCfg {
    pub key: &'static str,
    pub split: bool,
    pub keep_unknown: bool,
}

pub const CFG_PLAIN: UnitCfg = UnitCfg { key: "p", split: false, keep_unknown: false };
pub const CFG_KEEP: UnitCfg = UnitCfg { key: "k", split: false, keep_unknown: true };
pub const CFG_SPLIT: UnitCfg = UnitCfg { key: "s", split: true, keep_unknown: false };

#[derive(Clone, Debug)]
pub struct CorpusDoc {
    pub key: String,
    pub doc: SDoc,
    pub raw: Option<RawDoc>,
    /// side-stream document: exercises exactly this known-finding class
    pub side: Option<&'static str>,
}

#[derive(Clone, Debug)]
pub struct Unit {
    pub doc: usize,
    pub cfg: UnitCfg,
}

impl Unit {
    pub fn key(&self, docs: &[CorpusDoc]) -> String {
        format!("{}_{}", docs[self.doc].key, self.cfg.key)
    }
}

#[derive(Clone, Debug)]
pub struct Corpus {
    pub docs: Vec<CorpusDoc>,
    pub units: Vec<Unit>,
}

pub fn thrift_corpus(seed: u64, tier: Tier) -> Corpus {
    let mut docs: Vec<CorpusDoc> = crate::kitchen::thrift_docs().into_iter().enumerate().map(|(i, d)| CorpusDoc { key: format!("kit{}", i), doc: d, raw: None, side: None }).collect();
    let n = tier.pick(10, 40) as usize;
    for (i, (raw, doc)) in sample(&arb_doc(GenOpts::default()), seed, "thrift-corpus", n).into_iter().enumerate() {
        docs.push(CorpusDoc { key: format!("gen{}", i), doc, raw: Some(raw), side: None });
    }
    for (i, (k, d)) in crate::kitchen::thrift_side_docs().into_iter().enumerate() {
        docs.push(CorpusDoc { key: format!("side{}", i), doc: d, raw: None, side: Some(k) });
    }
    let mut units = vec![];
    for (i, _) in docs.iter().enumerate() {
        units.push(Unit { doc: i, cfg: CFG_PLAIN });
        units.push(Unit { doc: i, cfg: CFG_KEEP });
        if i % 4 == 0 {
            units.push(Unit { doc: i, cfg: CFG_SPLIT });
        }
    }
    Corpus { docs, units }
}


// ---------------------------------------------------------------------------------------------
// protobuf corpus

#[derive(Clone, Debug)]
pub struct PCorpusDoc {
    pub key: String,
    pub doc: crate::pschema::PDoc,
    pub raw: Option<crate::pschema::RawPDoc>,
}

#[derive(Clone, Debug)]
pub struct PCorpus {
    pub docs: Vec<PCorpusDoc>,
}

pub fn proto_corpus(seed: u64, tier: Tier) -> PCorpus {
    let mut docs: Vec<PCorpusDoc> = crate::kitchen::proto_docs().into_iter().enumerate().map(|(i, d)| PCorpusDoc { key: format!("pkit{}", i), doc: d, raw: None }).collect();
    let n = tier.pick(8, 40) as usize;
    for (i, (raw, doc)) in sample(&crate::pschema::arb_pdoc(), seed, "proto-corpus", n).into_iter().enumerate() {
        docs.push(PCorpusDoc { key: format!("pgen{}", i), doc, raw: Some(raw) });
    }
    PCorpus { docs }
}

//! Semantic model of Thrift IDL documents (the grammar G_thrift of DESIGN.md section 3.4),
//! generation, lowering to the syntax model, schema-directed values and the reference
//! semantics used as oracle (defaults, projection onto a reader schema, normalisation).
use crate::tsyn;
use crate::tval::{TVal, TT};
use proptest::prelude::*;
use serde::{Deserialize, Serialize};
use std::collections::BTreeMap;

#[derive(Clone, Debug, PartialEq, Eq, Hash, Serialize, Deserialize)]
pub enum STy {
    Bool,
    Byte,
    I16,
    I32,
    I64,
    Double,
    String,
    Binary,
    Uuid,
    List(Box<STy>),
    Set(Box<STy>),
    Map(Box<STy>, Box<STy>),
    /// (file index, declaration name)
    Named(usize, String),
}

#[derive(Clone, Copy, Debug, PartialEq, Eq, Hash, Serialize, Deserialize)]
pub enum Req {
    Required,
    Optional,
    /// "default" requiredness: pilota treats it like optional
    Default,
}

#[derive(Clone, Debug, PartialEq, Eq, Hash, Serialize, Deserialize)]
pub enum Lit {
    Int(i64),
    /// an integer written in hexadecimal in the IDL text (`-0x10`)
    Hex(i64),
    Double(String),
    Bool(bool),
    Str(String),
    /// enum member: (file, enum, member)
    EnumMember(usize, String, String),
    /// constant: (file, name)
    Const(usize, String),
    List(Vec<Lit>),
    Map(Vec<(Lit, Lit)>),
}

#[derive(Clone, Debug, PartialEq, Eq, Hash, Serialize, Deserialize)]
pub struct SField {
    pub id: i16,
    pub name: String,
    pub req: Req,
    pub ty: STy,
    pub default: Option<Lit>,
    /// pilota annotations on the field (key, value)
    pub annots: Vec<(String, String)>,
}

#[derive(Clone, Debug, PartialEq, Eq, Hash, Serialize, Deserialize)]
pub struct Method {
    pub name: String,
    pub oneway: bool,
    pub ret: Option<STy>,
    pub args: Vec<SField>,
    pub throws: Vec<SField>,
}

#[derive(Clone, Debug, PartialEq, Eq, Hash, Serialize, Deserialize)]
pub enum DeclKind {
    Enum(Vec<(String, i32)>),
    Typedef(STy),
    Struct(Vec<SField>),
    Exception(Vec<SField>),
    Union(Vec<SField>),
    Const(STy, Lit),
    Service(Vec<Method>, Option<(usize, String)>),
}

#[derive(Clone, Debug, PartialEq, Eq, Hash, Serialize, Deserialize)]
pub struct Decl {
    pub name: String,
    pub kind: DeclKind,
}

#[derive(Clone, Debug, PartialEq, Eq, Hash, Serialize, Deserialize)]
pub struct SFile {
    pub stem: String,
    /// `namespace rs a.b.c`; empty = no namespace (module named after the file)
    pub namespace: Vec<String>,
    pub includes: Vec<usize>,
    pub decls: Vec<Decl>,
}

/// files[0] is the main file handed to the builder.
#[derive(Clone, Debug, PartialEq, Eq, Hash, Serialize, Deserialize)]
pub struct SDoc {
    pub files: Vec<SFile>,
}

// ---------------------------------------------------------------------------------------------
// lookups

impl SDoc {
    pub fn decl(&self, file: usize, name: &str) -> Option<&Decl> {
        self.files.get(file)?.decls.iter().find(|d| d.name == name)
    }
    /// follow typedefs
    pub fn resolve<'a>(&'a self, ty: &'a STy) -> Resolved<'a> {
        match ty {
            STy::Named(f, n) => match self.decl(*f, n).map(|d| &d.kind) {
                Some(DeclKind::Typedef(t)) => self.resolve(t),
                Some(DeclKind::Enum(ms)) => Resolved::Enum(ms),
                Some(DeclKind::Struct(fs)) | Some(DeclKind::Exception(fs)) => Resolved::Struct(fs),
                Some(DeclKind::Union(fs)) => Resolved::Union(fs),
                _ => panic!("dangling type reference {:?}", ty),
            },
            o => Resolved::Plain(o),
        }
    }
    pub fn wire_tt(&self, ty: &STy) -> TT {
        match self.resolve(ty) {
            Resolved::Enum(_) => TT::I32,
            Resolved::Struct(_) | Resolved::Union(_) => TT::Struct,
            Resolved::Plain(p) => match p {
                STy::Bool => TT::Bool,
                STy::Byte => TT::I8,
                STy::I16 => TT::I16,
                STy::I32 => TT::I32,
                STy::I64 => TT::I64,
                STy::Double => TT::Double,
                STy::String | STy::Binary => TT::Binary,
                STy::Uuid => TT::Uuid,
                STy::List(_) => TT::List,
                STy::Set(_) => TT::Set,
                STy::Map(..) => TT::Map,
                STy::Named(..) => unreachable!(),
            },
        }
    }
    /// Rust module path of a file's items (below the output file's wrapper module).
    pub fn module_path(&self, file: usize) -> Vec<String> {
        let f = &self.files[file];
        if f.namespace.is_empty() {
            vec![f.stem.clone()]
        } else {
            f.namespace.clone()
        }
    }
}

pub enum Resolved<'a> {
    Plain(&'a STy),
    Enum(&'a Vec<(String, i32)>),
    Struct(&'a Vec<SField>),
    Union(&'a Vec<SField>),
}

// ---------------------------------------------------------------------------------------------
// every type that gets a `Message` impl, with its wire-level shape

#[derive(Clone, Debug, PartialEq, Eq, Hash, Serialize, Deserialize)]
pub enum Shape {
    /// struct or exception: fields
    Struct(Vec<SField>),
    /// union / result / exception enum; `void_ok`: zero fields decodes successfully (void result)
    Union { fields: Vec<SField>, void_ok: bool },
    /// enum newtype (i32 on the wire)
    Enum(Vec<(String, i32)>),
    /// typedef newtype
    Alias(STy),
}

#[derive(Clone, Debug, PartialEq, Eq, Hash, Serialize, Deserialize)]
pub struct MsgType {
    pub file: usize,
    /// Rust type name
    pub rust_name: String,
    pub shape: Shape,
    /// synthesised for a service method (argument struct / result / exception)
    pub synthesized: bool,
    /// is used as a method argument struct (ArgsSend/ArgsRecv)
    pub is_args: bool,
}

fn upper_first(s: &str) -> String {
    let mut c = s.chars();
    match c.next() {
        Some(f) => f.to_ascii_uppercase().to_string() + c.as_str(),
        None => String::new(),
    }
}

impl SDoc {
    /// All types pilota-build emits a `Message` impl for (plain identifier pool: the Rust name is
    /// predictable), in declaration order.
    pub fn msg_types(&self) -> Vec<MsgType> {
        let mut out = vec![];
        for (fi, f) in self.files.iter().enumerate() {
            for d in &f.decls {
                match &d.kind {
                    DeclKind::Enum(ms) => out.push(MsgType { file: fi, rust_name: d.name.clone(), shape: Shape::Enum(ms.clone()), synthesized: false, is_args: false }),
                    DeclKind::Typedef(t) => out.push(MsgType { file: fi, rust_name: d.name.clone(), shape: Shape::Alias(t.clone()), synthesized: false, is_args: false }),
                    DeclKind::Struct(fs) | DeclKind::Exception(fs) => out.push(MsgType { file: fi, rust_name: d.name.clone(), shape: Shape::Struct(fs.clone()), synthesized: false, is_args: false }),
                    DeclKind::Union(fs) => out.push(MsgType { file: fi, rust_name: d.name.clone(), shape: Shape::Union { fields: fs.clone(), void_ok: false }, synthesized: false, is_args: false }),
                    DeclKind::Const(..) => {}
                    DeclKind::Service(ms, _) => {
                        for m in ms {
                            let base = format!("{}{}", d.name, upper_first(&m.name));
                            // arguments: default requiredness means required for arguments
                            let args: Vec<SField> = m
                                .args
                                .iter()
                                .map(|a| SField { req: if a.req == Req::Optional { Req::Optional } else { Req::Required }, ..a.clone() })
                                .collect();
                            for suffix in ["ArgsSend", "ArgsRecv"] {
                                out.push(MsgType { file: fi, rust_name: format!("{}{}", base, suffix), shape: Shape::Struct(args.clone()), synthesized: true, is_args: true });
                            }
                            let mut rf: Vec<SField> = vec![];
                            if let Some(r) = &m.ret {
                                rf.push(SField { id: 0, name: "ok".into(), req: Req::Optional, ty: r.clone(), default: None, annots: vec![] });
                            }
                            rf.extend(m.throws.iter().cloned());
                            for suffix in ["ResultSend", "ResultRecv"] {
                                out.push(MsgType {
                                    file: fi,
                                    rust_name: format!("{}{}", base, suffix),
                                    shape: Shape::Union { fields: rf.clone(), void_ok: m.ret.is_none() },
                                    synthesized: true,
                                    is_args: false,
                                });
                            }
                            if !m.throws.is_empty() {
                                out.push(MsgType {
                                    file: fi,
                                    rust_name: format!("{}Exception", base),
                                    shape: Shape::Union { fields: m.throws.clone(), void_ok: false },
                                    synthesized: true,
                                    is_args: false,
                                });
                            }
                        }
                    }
                }
            }
        }
        out
    }

    pub fn shape_tt(&self, s: &Shape) -> TT {
        match s {
            Shape::Struct(_) | Shape::Union { .. } => TT::Struct,
            Shape::Enum(_) => TT::I32,
            Shape::Alias(t) => self.wire_tt(t),
        }
    }
}

// ---------------------------------------------------------------------------------------------
// reference semantics

/// Sort key for order-insensitive comparison (sets, maps, struct fields).
fn canon_key(v: &TVal) -> Vec<u8> {
    crate::refthrift::encode(crate::refthrift::Proto::Binary, v)
}

/// Canonical form: struct fields sorted by id, set elements and map entries sorted by their
/// canonical encoding. Lists keep their order.
pub fn canon(v: &TVal) -> TVal {
    match v {
        TVal::Struct(fs) => {
            let mut fs: Vec<(i16, TVal)> = fs.iter().map(|(i, v)| (*i, canon(v))).collect();
            fs.sort_by(|a, b| a.0.cmp(&b.0).then_with(|| canon_key(&a.1).cmp(&canon_key(&b.1))));
            TVal::Struct(fs)
        }
        // the element type of an empty container carries no information
        TVal::List(t, es) => TVal::List(if es.is_empty() { TT::Bool } else { *t }, es.iter().map(canon).collect()),
        TVal::Set(t, es) => {
            let mut es: Vec<TVal> = es.iter().map(canon).collect();
            es.sort_by_key(canon_key);
            TVal::Set(if es.is_empty() { TT::Bool } else { *t }, es)
        }
        TVal::Map(k, vt, es) => {
            if es.is_empty() {
                return TVal::Map(TT::Bool, TT::Bool, vec![]);
            }
            let mut es: Vec<(TVal, TVal)> = es.iter().map(|(a, b)| (canon(a), canon(b))).collect();
            es.sort_by_key(|(a, b)| (canon_key(a), canon_key(b)));
            TVal::Map(*k, *vt, es)
        }
        o => o.clone(),
    }
}

/// The escapes a Thrift string literal and a Rust string literal agree on.
pub fn unescape_idl(s: &str) -> String {
    let mut out = String::new();
    let mut it = s.chars();
    while let Some(c) = it.next() {
        if c != '\\' {
            out.push(c);
            continue;
        }
        match it.next() {
            Some('n') => out.push('\n'),
            Some('t') => out.push('\t'),
            Some('r') => out.push('\r'),
            Some('\\') => out.push('\\'),
            Some('"') => out.push('"'),
            Some('\'') => out.push('\''),
            Some(o) => {
                out.push('\\');
                out.push(o)
            }
            None => out.push('\\'),
        }
    }
    out
}

#[derive(Debug, Clone, PartialEq)]
pub enum Expect {
    Value(TVal),
    /// decoding must fail (missing required field, union with 0 or >= 2 known variants)
    Error(String),
}

impl SDoc {
    /// Value of a default literal at type `ty`.
    pub fn eval_lit(&self, ty: &STy, lit: &Lit) -> TVal {
        if let Lit::Hex(i) = lit {
            return self.eval_lit(ty, &Lit::Int(*i));
        }
        match (self.resolve(ty), lit) {
            (_, Lit::Const(f, n)) => match self.decl(*f, n).map(|d| &d.kind) {
                Some(DeclKind::Const(cty, l)) => {
                    let _ = cty;
                    self.eval_lit(ty, l)
                }
                _ => panic!("dangling const"),
            },
            (Resolved::Enum(_), Lit::Int(i)) => TVal::I32(*i as i32),
            (Resolved::Enum(_), Lit::EnumMember(f, e, m)) | (Resolved::Plain(_), Lit::EnumMember(f, e, m)) => {
                let v = match self.decl(*f, e).map(|d| &d.kind) {
                    Some(DeclKind::Enum(ms)) => ms.iter().find(|(n, _)| n == m).map(|(_, v)| *v).expect("enum member"),
                    _ => panic!("dangling enum"),
                };
                match self.resolve(ty) {
                    Resolved::Plain(STy::Byte) => TVal::I8(v as i8),
                    Resolved::Plain(STy::I16) => TVal::I16(v as i16),
                    Resolved::Plain(STy::I64) => TVal::I64(v as i64),
                    _ => TVal::I32(v),
                }
            }
            (Resolved::Plain(p), l) => match (p, l) {
                (STy::Bool, Lit::Bool(b)) => TVal::Bool(*b),
                (STy::Bool, Lit::Int(i)) => TVal::Bool(*i != 0),
                (STy::Byte, Lit::Int(i)) => TVal::I8(*i as i8),
                (STy::I16, Lit::Int(i)) => TVal::I16(*i as i16),
                (STy::I32, Lit::Int(i)) => TVal::I32(*i as i32),
                (STy::I64, Lit::Int(i)) => TVal::I64(*i),
                (STy::Double, Lit::Int(i)) => TVal::Double((*i as f64).to_bits()),
                (STy::Double, Lit::Double(s)) => TVal::Double(s.parse::<f64>().expect("double literal").to_bits()),
                (STy::String, Lit::Str(s)) | (STy::Binary, Lit::Str(s)) => TVal::Binary(unescape_idl(s).into_bytes()),
                (STy::List(e), Lit::List(ls)) => TVal::List(self.wire_tt(e), ls.iter().map(|l| self.eval_lit(e, l)).collect()),
                (STy::Set(e), Lit::List(ls)) => TVal::Set(self.wire_tt(e), ls.iter().map(|l| self.eval_lit(e, l)).collect()),
                (STy::Map(k, v), Lit::Map(ls)) => TVal::Map(self.wire_tt(k), self.wire_tt(v), ls.iter().map(|(a, b)| (self.eval_lit(k, a), self.eval_lit(v, b))).collect()),
                (STy::Map(k, v), Lit::List(ls)) if ls.is_empty() => TVal::Map(self.wire_tt(k), self.wire_tt(v), vec![]),
                (t, l) => panic!("ill-typed default {:?} for {:?}", l, t),
            },
            (Resolved::Struct(fs), Lit::Map(ls)) => {
                // struct literal: named fields; the others take their own defaults
                let mut out = vec![];
                for f in fs {
                    let given = ls.iter().find(|(k, _)| matches!(k, Lit::Str(s) if *s == f.name));
                    if let Some((_, l)) = given {
                        out.push((f.id, self.eval_lit(&f.ty, l)));
                    } else if let Some(d) = &f.default {
                        out.push((f.id, self.eval_lit(&f.ty, d)));
                    } else if f.req == Req::Required {
                        out.push((f.id, self.zero_value(&f.ty)));
                    }
                }
                TVal::Struct(out)
            }
            (r, l) => panic!("ill-typed default {:?} for {}", l, match r {
                Resolved::Enum(_) => "enum",
                Resolved::Struct(_) => "struct",
                Resolved::Union(_) => "union",
                Resolved::Plain(_) => "plain",
            }),
        }
    }

    /// The "empty value" of a type (what `Default` gives a required member without IDL default).
    pub fn zero_value(&self, ty: &STy) -> TVal {
        match self.resolve(ty) {
            Resolved::Enum(_) => TVal::I32(0),
            Resolved::Struct(fs) => self.struct_default(fs),
            // a union has no empty value: its Default is the first variant holding that variant's
            // own empty value
            Resolved::Union(fs) => match fs.first() {
                Some(f) => TVal::Struct(vec![(f.id, self.zero_value(&f.ty))]),
                None => TVal::Struct(vec![]),
            },
            Resolved::Plain(p) => match p {
                STy::Bool => TVal::Bool(false),
                STy::Byte => TVal::I8(0),
                STy::I16 => TVal::I16(0),
                STy::I32 => TVal::I32(0),
                STy::I64 => TVal::I64(0),
                STy::Double => TVal::Double(0),
                STy::String | STy::Binary => TVal::Binary(vec![]),
                STy::Uuid => TVal::Uuid([0; 16]),
                STy::List(e) => TVal::List(self.wire_tt(e), vec![]),
                STy::Set(e) => TVal::Set(self.wire_tt(e), vec![]),
                STy::Map(k, v) => TVal::Map(self.wire_tt(k), self.wire_tt(v), vec![]),
                STy::Named(..) => unreachable!(),
            },
        }
    }

    /// Model of `T::default()` for a struct: IDL default where given (present also for optional
    /// fields), the member's empty value for required members, absence otherwise.
    pub fn struct_default(&self, fs: &[SField]) -> TVal {
        let mut out = vec![];
        for f in fs {
            if let Some(d) = &f.default {
                out.push((f.id, self.eval_lit(&f.ty, d)));
            } else if f.req == Req::Required {
                out.push((f.id, self.zero_value(&f.ty)));
            }
        }
        TVal::Struct(out)
    }

    /// What a reader with schema `ty` must produce from the well-formed wire value `w` (written
    /// under any writer schema): unknown ids and wire-type mismatches ignored, defaults filled,
    /// errors for missing required fields / bad unions. `keep_unknown`: unknown fields are
    /// retained and re-emitted (C13) instead of dropped.
    pub fn project(&self, ty: &STy, w: &TVal, keep_unknown: bool) -> Expect {
        match self.resolve(ty) {
            Resolved::Struct(fs) => self.project_struct(fs, w, keep_unknown),
            Resolved::Union(fs) => self.project_union(fs, false, w, keep_unknown),
            Resolved::Enum(_) => Expect::Value(w.clone()),
            Resolved::Plain(p) => match (p, w) {
                (STy::List(e), TVal::List(t, es)) | (STy::Set(e), TVal::Set(t, es)) => {
                    let mut out = vec![];
                    for x in es {
                        match self.project(e, x, keep_unknown) {
                            Expect::Value(v) => out.push(v),
                            err => return err,
                        }
                    }
                    if matches!(p, STy::List(_)) {
                        Expect::Value(TVal::List(*t, out))
                    } else {
                        Expect::Value(TVal::Set(*t, out))
                    }
                }
                (STy::Map(kt, vt), TVal::Map(a, b, es)) => {
                    let mut out = vec![];
                    for (k, v) in es {
                        let k2 = match self.project(kt, k, keep_unknown) {
                            Expect::Value(v) => v,
                            err => return err,
                        };
                        let v2 = match self.project(vt, v, keep_unknown) {
                            Expect::Value(v) => v,
                            err => return err,
                        };
                        out.push((k2, v2));
                    }
                    Expect::Value(TVal::Map(*a, *b, out))
                }
                _ => Expect::Value(w.clone()),
            },
        }
    }

    /// `keep_top`: whether the top-level type itself retains unknown fields (the types
    /// synthesised for service methods never do; the declared types below them do).
    pub fn project_shape(&self, s: &Shape, w: &TVal, keep_unknown: bool, keep_top: bool) -> Expect {
        match s {
            Shape::Struct(fs) => self.project_struct_top(fs, w, keep_unknown, keep_top),
            Shape::Union { fields, void_ok } => self.project_union_top(fields, *void_ok, w, keep_unknown, keep_top),
            Shape::Enum(_) => Expect::Value(w.clone()),
            Shape::Alias(t) => self.project(t, w, keep_unknown),
        }
    }

    fn project_struct(&self, fs: &[SField], w: &TVal, keep_unknown: bool) -> Expect {
        self.project_struct_top(fs, w, keep_unknown, keep_unknown)
    }

    fn project_struct_top(&self, fs: &[SField], w: &TVal, keep_unknown: bool, keep_top: bool) -> Expect {
        let TVal::Struct(wfs) = w else { return Expect::Error("not a struct on the wire".into()) };
        let mut out: Vec<(i16, TVal)> = vec![];
        let mut unknown: Vec<(i16, TVal)> = vec![];
        let mut seen: BTreeMap<i16, TVal> = BTreeMap::new();
        for (id, v) in wfs {
            match fs.iter().find(|f| f.id == *id) {
                Some(f) if self.wire_tt(&f.ty) == v.tt() => match self.project(&f.ty, v, keep_unknown) {
                    // a repeated field: the last occurrence wins
                    Expect::Value(pv) => {
                        seen.insert(*id, pv);
                    }
                    err => return err,
                },
                _ => unknown.push((*id, v.clone())),
            }
        }
        for f in fs {
            if let Some(v) = seen.remove(&f.id) {
                out.push((f.id, v));
            } else if let Some(d) = &f.default {
                out.push((f.id, self.eval_lit(&f.ty, d)));
            } else if f.req == Req::Required {
                return Expect::Error(format!("required field {} ({}) absent", f.id, f.name));
            }
        }
        if keep_top {
            out.extend(unknown);
        }
        Expect::Value(TVal::Struct(out))
    }

    fn project_union(&self, fs: &[SField], void_ok: bool, w: &TVal, keep_unknown: bool) -> Expect {
        self.project_union_top(fs, void_ok, w, keep_unknown, keep_unknown)
    }

    fn project_union_top(&self, fs: &[SField], void_ok: bool, w: &TVal, keep_unknown: bool, keep_top: bool) -> Expect {
        let TVal::Struct(wfs) = w else { return Expect::Error("not a struct on the wire".into()) };
        let mut known: Vec<(i16, TVal)> = vec![];
        let mut unknown: Vec<(i16, TVal)> = vec![];
        for (id, v) in wfs {
            match fs.iter().find(|f| f.id == *id) {
                Some(f) if self.wire_tt(&f.ty) == v.tt() => match self.project(&f.ty, v, keep_unknown) {
                    Expect::Value(pv) => known.push((*id, pv)),
                    err => return err,
                },
                _ => unknown.push((*id, v.clone())),
            }
        }
        match known.len() {
            // a union holds one thing: next to a known variant, unknown fields are dropped
            1 => Expect::Value(TVal::Struct(known)),
            0 if keep_top && unknown.len() == 1 => Expect::Value(TVal::Struct(unknown)),
            0 if void_ok => Expect::Value(TVal::Struct(vec![])),
            0 => Expect::Error("union carries no known variant".into()),
            n => Expect::Error(format!("union carries {} variants", n)),
        }
    }
}

// ---------------------------------------------------------------------------------------------
// schema-directed value generation

#[derive(Clone, Copy, Debug)]
pub struct ValCfg {
    pub depth: u32,
    pub max_elems: usize,
    pub big_payloads: bool,
}

impl Default for ValCfg {
    fn default() -> Self {
        ValCfg { depth: 4, max_elems: 4, big_payloads: true }
    }
}

fn arb_key_double() -> BoxedStrategy<u64> {
    // no NaN and only one zero: OrderedFloat identifies them
    prop_oneof![
        (-1000i32..1000).prop_map(|i| (i as f64 * 0.5).to_bits()),
        prop::sample::select(vec![0u64, 1.5f64.to_bits(), f64::INFINITY.to_bits(), f64::MAX.to_bits(), f64::MIN_POSITIVE.to_bits(), (-2.25f64).to_bits()]),
    ]
    .boxed()
}

fn distinct<T: Clone>(items: Vec<T>, key: impl Fn(&T) -> Vec<u8>) -> Vec<T> {
    let mut seen = std::collections::BTreeSet::new();
    items.into_iter().filter(|i| seen.insert(key(i))).collect()
}

pub fn arb_value(doc: &SDoc, ty: &STy, cfg: ValCfg, in_key: bool) -> BoxedStrategy<TVal> {
    match doc.resolve(ty) {
        Resolved::Enum(ms) => {
            let vals: Vec<i32> = ms.iter().map(|(_, v)| *v).collect();
            if vals.is_empty() {
                crate::tval::arb_i32().prop_map(TVal::I32).boxed()
            } else {
                // declared members most of the time, unknown numbers sometimes
                prop_oneof![4 => prop::sample::select(vals).prop_map(TVal::I32), 1 => crate::tval::arb_i32().prop_map(TVal::I32)].boxed()
            }
        }
        Resolved::Struct(fs) => arb_struct(doc, fs, cfg, in_key),
        Resolved::Union(fs) => arb_union(doc, fs, cfg, in_key),
        Resolved::Plain(p) => match p {
            STy::Bool => any::<bool>().prop_map(TVal::Bool).boxed(),
            STy::Byte => any::<i8>().prop_map(TVal::I8).boxed(),
            STy::I16 => crate::tval::arb_i16().prop_map(TVal::I16).boxed(),
            STy::I32 => crate::tval::arb_i32().prop_map(TVal::I32).boxed(),
            STy::I64 => crate::tval::arb_i64().prop_map(TVal::I64).boxed(),
            STy::Double => {
                if in_key {
                    arb_key_double().prop_map(TVal::Double).boxed()
                } else {
                    crate::tval::arb_double_bits().prop_map(TVal::Double).boxed()
                }
            }
            STy::String => crate::tval::arb_payload(true, if cfg.big_payloads { 4097 } else { 0 }).prop_map(TVal::Binary).boxed(),
            STy::Binary => crate::tval::arb_payload(false, if cfg.big_payloads { 4097 } else { 0 }).prop_map(TVal::Binary).boxed(),
            STy::Uuid => any::<[u8; 16]>().prop_map(TVal::Uuid).boxed(),
            STy::List(e) => {
                let tt = doc.wire_tt(e);
                let inner = ValCfg { depth: cfg.depth.saturating_sub(1), ..cfg };
                let max = if cfg.depth == 0 { 0 } else { cfg.max_elems };
                prop::collection::vec(arb_value(doc, e, inner, in_key), 0..=max).prop_map(move |es| TVal::List(tt, es)).boxed()
            }
            STy::Set(e) => {
                let tt = doc.wire_tt(e);
                let inner = ValCfg { depth: cfg.depth.saturating_sub(1), ..cfg };
                let max = if cfg.depth == 0 { 0 } else { cfg.max_elems };
                // distinct as the *reader* sees them: two wire values that differ only in an absent
                // member with an IDL default are the same element once decoded
                let (d, et) = (std::sync::Arc::new(doc.clone()), (**e).clone());
                prop::collection::vec(arb_value(doc, e, inner, true), 0..=max)
                    .prop_map(move |es| TVal::Set(tt, distinct(es, |v| d.filled_key(&et, v))))
                    .boxed()
            }
            STy::Map(k, v) => {
                let (kt, vt) = (doc.wire_tt(k), doc.wire_tt(v));
                let inner = ValCfg { depth: cfg.depth.saturating_sub(1), ..cfg };
                let max = if cfg.depth == 0 { 0 } else { cfg.max_elems };
                let (d, kty) = (std::sync::Arc::new(doc.clone()), (**k).clone());
                prop::collection::vec((arb_value(doc, k, inner, true), arb_value(doc, v, inner, in_key)), 0..=max)
                    .prop_map(move |es| TVal::Map(kt, vt, distinct(es, |(k, _)| d.filled_key(&kty, k))))
                    .boxed()
            }
            STy::Named(..) => unreachable!(),
        },
    }
}

pub fn arb_struct(doc: &SDoc, fs: &[SField], cfg: ValCfg, in_key: bool) -> BoxedStrategy<TVal> {
    let inner = ValCfg { depth: cfg.depth.saturating_sub(1), ..cfg };
    let mut parts: Vec<BoxedStrategy<Option<(i16, TVal)>>> = vec![];
    for f in fs {
        let id = f.id;
        if f.req != Req::Required && cfg.depth == 0 {
            // cut recursion: optional members are absent at the depth limit
            parts.push(Just(None).boxed());
            continue;
        }
        let present: BoxedStrategy<Option<(i16, TVal)>> = arb_value(doc, &f.ty, inner, in_key).prop_map(move |v| Some((id, v))).boxed();
        if f.req == Req::Required {
            parts.push(present);
        } else {
            parts.push(prop_oneof![3 => present, 1 => Just(None)].boxed());
        }
    }
    parts.prop_map(|vs| TVal::Struct(vs.into_iter().flatten().collect())).boxed()
}

pub fn arb_union(doc: &SDoc, fs: &[SField], cfg: ValCfg, in_key: bool) -> BoxedStrategy<TVal> {
    if fs.is_empty() {
        return Just(TVal::Struct(vec![])).boxed();
    }
    let inner = ValCfg { depth: cfg.depth.saturating_sub(1), ..cfg };
    // at the depth limit prefer variants that do not recurse further
    let cands: Vec<BoxedStrategy<TVal>> = fs
        .iter()
        .map(|f| {
            let id = f.id;
            arb_value(doc, &f.ty, inner, in_key).prop_map(move |v| TVal::Struct(vec![(id, v)])).boxed()
        })
        .collect();
    proptest::strategy::Union::new(cands).boxed()
}

pub fn arb_shape_value(doc: &SDoc, s: &Shape, cfg: ValCfg) -> BoxedStrategy<TVal> {
    match s {
        Shape::Struct(fs) => arb_struct(doc, fs, cfg, false),
        Shape::Union { fields, void_ok } => {
            if *void_ok && fields.is_empty() {
                Just(TVal::Struct(vec![])).boxed()
            } else if *void_ok {
                prop_oneof![1 => Just(TVal::Struct(vec![])), 4 => arb_union(doc, fields, cfg, false)].boxed()
            } else {
                arb_union(doc, fields, cfg, false)
            }
        }
        Shape::Enum(ms) => {
            let vals: Vec<i32> = ms.iter().map(|(_, v)| *v).collect();
            if vals.is_empty() {
                crate::tval::arb_i32().prop_map(TVal::I32).boxed()
            } else {
                prop_oneof![3 => prop::sample::select(vals).prop_map(TVal::I32), 1 => crate::tval::arb_i32().prop_map(TVal::I32)].boxed()
            }
        }
        Shape::Alias(t) => arb_value(doc, t, cfg, false),
    }
}

// ---------------------------------------------------------------------------------------------
// lowering to the syntax model (printing)

fn ty_syn(doc: &SDoc, from_file: usize, t: &STy, annots: &[(String, String)]) -> tsyn::Type {
    let a = tsyn::Annot(annots.to_vec());
    let none = tsyn::Annot(vec![]);
    let inner = match t {
        STy::Bool => tsyn::Ty::Bool,
        STy::Byte => tsyn::Ty::Byte,
        STy::I16 => tsyn::Ty::I16,
        STy::I32 => tsyn::Ty::I32,
        STy::I64 => tsyn::Ty::I64,
        STy::Double => tsyn::Ty::Double,
        STy::String => tsyn::Ty::String,
        STy::Binary => tsyn::Ty::Binary,
        STy::Uuid => tsyn::Ty::Uuid,
        STy::List(e) => tsyn::Ty::List(Box::new(ty_syn(doc, from_file, e, &[])), None),
        STy::Set(e) => tsyn::Ty::Set(Box::new(ty_syn(doc, from_file, e, &[])), None),
        STy::Map(k, v) => tsyn::Ty::Map(Box::new(ty_syn(doc, from_file, k, &[])), Box::new(ty_syn(doc, from_file, v, &[])), None),
        STy::Named(f, n) => tsyn::Ty::Path(if *f == from_file { n.clone() } else { format!("{}.{}", doc.files[*f].stem, n) }),
    };
    let _ = none;
    tsyn::Type(inner, a)
}

fn lit_syn(doc: &SDoc, from_file: usize, l: &Lit) -> tsyn::CV {
    match l {
        Lit::Int(i) => tsyn::CV::Int(*i),
        Lit::Hex(i) => tsyn::CV::HexInt(*i),
        Lit::Double(s) => tsyn::CV::Double(s.clone()),
        Lit::Bool(b) => tsyn::CV::Bool(*b),
        Lit::Str(s) => tsyn::CV::Str(s.clone()),
        Lit::EnumMember(f, e, m) => tsyn::CV::Path(if *f == from_file { format!("{}.{}", e, m) } else { format!("{}.{}.{}", doc.files[*f].stem, e, m) }),
        Lit::Const(f, n) => tsyn::CV::Path(if *f == from_file { n.clone() } else { format!("{}.{}", doc.files[*f].stem, n) }),
        Lit::List(ls) => tsyn::CV::List(ls.iter().map(|l| lit_syn(doc, from_file, l)).collect()),
        Lit::Map(ls) => tsyn::CV::Map(ls.iter().map(|(k, v)| (lit_syn(doc, from_file, k), lit_syn(doc, from_file, v))).collect()),
    }
}

fn field_syn(doc: &SDoc, from_file: usize, f: &SField) -> tsyn::Field {
    // annotations that refine the Rust type sit on the field
    tsyn::Field {
        id: f.id as i32,
        name: f.name.clone(),
        attr: match f.req {
            Req::Required => tsyn::Attr::Required,
            Req::Optional => tsyn::Attr::Optional,
            Req::Default => tsyn::Attr::Default,
        },
        ty: ty_syn(doc, from_file, &f.ty, &[]),
        default: f.default.as_ref().map(|l| lit_syn(doc, from_file, l)),
        annot: tsyn::Annot(f.annots.clone()),
    }
}

impl SDoc {
    pub fn to_syntax(&self, file: usize) -> tsyn::Doc {
        let f = &self.files[file];
        let mut items = vec![];
        if !f.namespace.is_empty() {
            items.push(tsyn::Item::Namespace { scope: "rs".into(), name: f.namespace.join("."), annot: None });
        }
        for inc in &f.includes {
            items.push(tsyn::Item::Include(format!("{}.thrift", self.files[*inc].stem)));
        }
        let none = || tsyn::Annot(vec![]);
        for d in &f.decls {
            let sl = |fs: &Vec<SField>| tsyn::StructLike { name: d.name.clone(), fields: fs.iter().map(|x| field_syn(self, file, x)).collect(), annot: none() };
            items.push(match &d.kind {
                DeclKind::Enum(ms) => tsyn::Item::Enum { name: d.name.clone(), values: ms.iter().map(|(n, v)| (n.clone(), Some(*v as i64), none())).collect(), annot: none() },
                DeclKind::Typedef(t) => tsyn::Item::Typedef { ty: ty_syn(self, file, t, &[]), alias: d.name.clone(), annot: none() },
                DeclKind::Struct(fs) => tsyn::Item::Struct(sl(fs)),
                DeclKind::Exception(fs) => tsyn::Item::Exception(sl(fs)),
                DeclKind::Union(fs) => tsyn::Item::Union(sl(fs)),
                DeclKind::Const(t, l) => tsyn::Item::Const { name: d.name.clone(), ty: ty_syn(self, file, t, &[]), value: lit_syn(self, file, l), annot: none() },
                DeclKind::Service(ms, ext) => tsyn::Item::Service {
                    name: d.name.clone(),
                    extends: ext.as_ref().map(|(ef, en)| if *ef == file { en.clone() } else { format!("{}.{}", self.files[*ef].stem, en) }),
                    functions: ms
                        .iter()
                        .map(|m| tsyn::Function {
                            name: m.name.clone(),
                            oneway: m.oneway,
                            result: m.ret.as_ref().map(|t| ty_syn(self, file, t, &[])).unwrap_or(tsyn::Type(tsyn::Ty::Void, none())),
                            args: m
                                .args
                                .iter()
                                .map(|a| {
                                    let mut f = field_syn(self, file, a);
                                    // arguments are required unless spelled optional
                                    if f.attr == tsyn::Attr::Default {
                                        f.attr = tsyn::Attr::Required;
                                    }
                                    f
                                })
                                .collect(),
                            throws: m.throws.iter().map(|a| field_syn(self, file, a)).collect(),
                            annot: none(),
                        })
                        .collect(),
                    annot: none(),
                },
            });
        }
        tsyn::Doc { items }
    }

    /// (file name, text) for every file, printed in a readable canonical layout.
    pub fn print_files(&self) -> Vec<(String, String)> {
        (0..self.files.len())
            .map(|i| {
                let d = self.to_syntax(i);
                let (text, _) = tsyn::print(&d, &tsyn::Layout::canonical());
                (format!("{}.thrift", self.files[i].stem), text)
            })
            .collect()
    }
}

// ---------------------------------------------------------------------------------------------
// conformance and known-finding predicates

impl SDoc {
    /// Identity of a set member / map key as the reader sees it: canonical form after the
    /// reader's defaults have been filled in.
    pub fn filled_key(&self, ty: &STy, v: &TVal) -> Vec<u8> {
        match self.project(ty, v, false) {
            Expect::Value(x) => canon_key(&canon(&x)),
            Expect::Error(_) => canon_key(&canon(v)),
        }
    }
    /// Is `v` a value of the declared type: every field known with the declared wire type,
    /// required fields present, unions with exactly one variant (or none for a void result)?
    pub fn conforms_shape(&self, s: &Shape, v: &TVal) -> bool {
        match s {
            Shape::Struct(fs) => self.conforms_struct(fs, v),
            Shape::Union { fields, void_ok } => self.conforms_union(fields, *void_ok, v),
            Shape::Enum(_) => matches!(v, TVal::I32(_)),
            Shape::Alias(t) => self.conforms(t, v),
        }
    }
    pub fn conforms(&self, ty: &STy, v: &TVal) -> bool {
        if self.wire_tt(ty) != v.tt() {
            return false;
        }
        match self.resolve(ty) {
            Resolved::Struct(fs) => self.conforms_struct(fs, v),
            Resolved::Union(fs) => self.conforms_union(fs, false, v),
            Resolved::Enum(_) => true,
            Resolved::Plain(p) => match (p, v) {
                (STy::List(e), TVal::List(t, es)) => (*t == self.wire_tt(e) || es.is_empty()) && es.iter().all(|x| self.conforms(e, x)),
                // set members and map keys are distinct as the reader sees them (defaults filled)
                (STy::Set(e), TVal::Set(t, es)) => {
                    (*t == self.wire_tt(e) || es.is_empty()) && es.iter().all(|x| self.conforms(e, x)) && es.iter().map(|x| self.filled_key(e, x)).collect::<std::collections::BTreeSet<_>>().len() == es.len()
                }
                (STy::Map(k, vt), TVal::Map(a, b, es)) => {
                    (es.is_empty() || (*a == self.wire_tt(k) && *b == self.wire_tt(vt)))
                        && es.iter().all(|(x, y)| self.conforms(k, x) && self.conforms(vt, y))
                        && es.iter().map(|(x, _)| self.filled_key(k, x)).collect::<std::collections::BTreeSet<_>>().len() == es.len()
                }
                _ => true,
            },
        }
    }
    fn conforms_struct(&self, fs: &[SField], v: &TVal) -> bool {
        let TVal::Struct(wfs) = v else { return false };
        let mut seen = std::collections::BTreeSet::new();
        for (id, x) in wfs {
            let Some(f) = fs.iter().find(|f| f.id == *id) else { return false };
            if !seen.insert(*id) || !self.conforms(&f.ty, x) {
                return false;
            }
        }
        fs.iter().all(|f| f.req != Req::Required || f.default.is_some() || seen.contains(&f.id))
    }
    fn conforms_union(&self, fs: &[SField], void_ok: bool, v: &TVal) -> bool {
        let TVal::Struct(wfs) = v else { return false };
        match wfs.len() {
            0 => void_ok,
            1 => fs.iter().find(|f| f.id == wfs[0].0).map(|f| self.conforms(&f.ty, &wfs[0].1)).unwrap_or(false),
            _ => false,
        }
    }

    /// Types that pilota-build marks as "argument types": named directly (not inside a
    /// container) as the type of a method argument, as a method's return type, or in `throws`.
    pub fn arg_types(&self) -> std::collections::BTreeSet<(usize, String)> {
        let mut out: std::collections::BTreeSet<(usize, String)> = Default::default();
        let mut add = |t: &STy| {
            if let STy::Named(f, n) = t {
                out.insert((*f, n.clone()));
            }
        };
        for f in &self.files {
            for d in &f.decls {
                if let DeclKind::Service(ms, _) = &d.kind {
                    for m in ms {
                        for a in &m.args {
                            add(&a.ty);
                        }
                        if let Some(r) = &m.ret {
                            add(r);
                        }
                        for t in &m.throws {
                            add(&t.ty);
                        }
                    }
                }
            }
        }
        out
    }

    /// Known finding `arg-type-tail-swallow` (keep_unknown_fields builds): the sync decoder of a
    /// struct that is an "argument type" takes everything that is left in the buffer (minus two
    /// bytes) as unknown fields once all of its known fields have been seen. True when decoding
    /// `v` (or its re-encoding, where IDL defaults have been filled in) reaches that state in
    /// some struct of such a type.
    pub fn triggers_tail_swallow(&self, mt: &MsgType, v: &TVal) -> bool {
        let args = self.arg_types();
        let top_is_arg = !mt.synthesized && args.contains(&(mt.file, mt.rust_name.clone()));
        match &mt.shape {
            Shape::Struct(fs) => self.tail_fields(fs, v, &args, top_is_arg),
            Shape::Union { fields, .. } => self.tail_fields(fields, v, &args, false),
            Shape::Enum(_) => false,
            Shape::Alias(t) => self.tail_ty(t, v, &args),
        }
    }
    fn tail_ty(&self, ty: &STy, v: &TVal, args: &std::collections::BTreeSet<(usize, String)>) -> bool {
        match ty {
            STy::Named(f, n) => {
                let is_arg = args.contains(&(*f, n.clone()));
                match self.decl(*f, n).map(|d| &d.kind) {
                    Some(DeclKind::Typedef(t)) => self.tail_ty(t, v, args),
                    Some(DeclKind::Struct(fs)) | Some(DeclKind::Exception(fs)) => self.tail_fields(fs, v, args, is_arg),
                    Some(DeclKind::Union(fs)) => self.tail_fields(fs, v, args, false),
                    _ => false,
                }
            }
            STy::List(e) | STy::Set(e) => match v {
                TVal::List(_, es) | TVal::Set(_, es) => es.iter().any(|x| self.tail_ty(e, x, args)),
                _ => false,
            },
            STy::Map(k, vt) => match v {
                TVal::Map(_, _, es) => es.iter().any(|(a, b)| self.tail_ty(k, a, args) || self.tail_ty(vt, b, args)),
                _ => false,
            },
            _ => false,
        }
    }
    fn tail_fields(&self, fs: &[SField], v: &TVal, args: &std::collections::BTreeSet<(usize, String)>, counted: bool) -> bool {
        let TVal::Struct(wfs) = v else { return false };
        if counted {
            // every known field decoded (in either pass: defaults are re-emitted by encode)
            let covered = fs.iter().filter(|f| f.default.is_some() || wfs.iter().any(|(id, x)| *id == f.id && x.tt() == self.wire_tt(&f.ty))).count();
            if covered == fs.len() {
                return true;
            }
        }
        wfs.iter().any(|(id, x)| fs.iter().find(|f| f.id == *id).map(|f| self.tail_ty(&f.ty, x, args)).unwrap_or(false))
    }
}

// ---------------------------------------------------------------------------------------------
// writer-schema evolution expressed on the wire value (C08, C13)

#[derive(Clone, Debug, PartialEq, Eq, Hash, Serialize, Deserialize)]
pub enum PathStep {
    Field(usize),
    Elem(usize),
    MapKey(usize),
    MapVal(usize),
}

#[derive(Clone, Debug)]
pub struct StructNode {
    pub path: Vec<PathStep>,
    pub known_ids: Vec<i16>,
    pub is_union: bool,
    pub depth: usize,
    pub in_container: bool,
}

impl SDoc {
    /// All struct/union nodes of `v` (walked along the schema).
    pub fn struct_nodes(&self, s: &Shape, v: &TVal) -> Vec<StructNode> {
        let mut out = vec![];
        match s {
            Shape::Struct(fs) => self.nodes_fields(fs, false, v, vec![], 0, false, &mut out),
            Shape::Union { fields, .. } => self.nodes_fields(fields, true, v, vec![], 0, false, &mut out),
            Shape::Enum(_) => {}
            Shape::Alias(t) => self.nodes_ty(t, v, vec![], 0, false, &mut out),
        }
        out
    }
    fn nodes_ty(&self, ty: &STy, v: &TVal, path: Vec<PathStep>, depth: usize, in_c: bool, out: &mut Vec<StructNode>) {
        match self.resolve(ty) {
            Resolved::Struct(fs) => self.nodes_fields(fs, false, v, path, depth, in_c, out),
            Resolved::Union(fs) => self.nodes_fields(fs, true, v, path, depth, in_c, out),
            Resolved::Enum(_) => {}
            Resolved::Plain(p) => match (p, v) {
                (STy::List(e), TVal::List(_, es)) | (STy::Set(e), TVal::Set(_, es)) => {
                    for (i, x) in es.iter().enumerate() {
                        let mut p2 = path.clone();
                        p2.push(PathStep::Elem(i));
                        self.nodes_ty(e, x, p2, depth + 1, true, out);
                    }
                }
                (STy::Map(k, vt), TVal::Map(_, _, es)) => {
                    for (i, (a, b)) in es.iter().enumerate() {
                        let mut p2 = path.clone();
                        p2.push(PathStep::MapKey(i));
                        self.nodes_ty(k, a, p2, depth + 1, true, out);
                        let mut p3 = path.clone();
                        p3.push(PathStep::MapVal(i));
                        self.nodes_ty(vt, b, p3, depth + 1, true, out);
                    }
                }
                _ => {}
            },
        }
    }
    #[allow(clippy::too_many_arguments)]
    fn nodes_fields(&self, fs: &[SField], is_union: bool, v: &TVal, path: Vec<PathStep>, depth: usize, in_c: bool, out: &mut Vec<StructNode>) {
        let TVal::Struct(wfs) = v else { return };
        out.push(StructNode { path: path.clone(), known_ids: fs.iter().map(|f| f.id).collect(), is_union, depth, in_container: in_c });
        for (i, (id, x)) in wfs.iter().enumerate() {
            if let Some(f) = fs.iter().find(|f| f.id == *id) {
                if self.wire_tt(&f.ty) == x.tt() {
                    let mut p2 = path.clone();
                    p2.push(PathStep::Field(i));
                    self.nodes_ty(&f.ty, x, p2, depth + 1, false, out);
                }
            }
        }
    }
}

pub fn node_mut<'a>(v: &'a mut TVal, path: &[PathStep]) -> Option<&'a mut TVal> {
    let mut cur = v;
    for s in path {
        cur = match (s, cur) {
            (PathStep::Field(i), TVal::Struct(fs)) => &mut fs.get_mut(*i)?.1,
            (PathStep::Elem(i), TVal::List(_, es)) | (PathStep::Elem(i), TVal::Set(_, es)) => es.get_mut(*i)?,
            (PathStep::MapKey(i), TVal::Map(_, _, es)) => &mut es.get_mut(*i)?.0,
            (PathStep::MapVal(i), TVal::Map(_, _, es)) => &mut es.get_mut(*i)?.1,
            _ => return None,
        };
    }
    Some(cur)
}

#[derive(Clone, Debug, PartialEq, Eq, Hash, Serialize, Deserialize)]
pub enum Edit {
    /// insert a field the reader does not know: (node selector, id seed, position seed, value)
    AddUnknown(u16, u16, u8, TVal),
    /// drop a field the writer no longer sends
    Remove(u16, u8),
    /// the writer changed a field's type to one with a different wire type
    Retype(u16, u8, TVal),
    /// the writer emits fields in another order
    Reorder(u16, u8),
    /// a set element / map key that is a struct gets a twin that agrees with it on every field
    /// and carries one more field the reader does not know: (node selector, id seed, value)
    SplitKey(u16, u16, TVal),
}

#[derive(Debug, Clone, Default)]
pub struct EditInfo {
    pub added: usize,
    pub added_nested: usize,
    pub added_in_container: usize,
    pub added_in_union: usize,
    pub removed: usize,
    pub retyped: usize,
    pub reordered: usize,
    pub split_keys: usize,
}

fn fresh_id(known: &[i16], present: &[(i16, TVal)], seed: u16) -> i16 {
    let mut cands: Vec<i16> = vec![];
    for k in known {
        cands.push(k.wrapping_add(1));
        cands.push(k.wrapping_sub(1));
    }
    cands.extend([1, 2, 100, 255, 256, 32767, -1, 0, (seed % 32767) as i16, -((seed % 1000) as i16)]);
    let start = seed as usize % cands.len();
    for i in 0..cands.len() {
        let c = cands[(start + i) % cands.len()];
        if !known.contains(&c) && !present.iter().any(|(id, _)| *id == c) {
            return c;
        }
    }
    let mut c = seed as i16;
    while known.contains(&c) || present.iter().any(|(id, _)| *id == c) {
        c = c.wrapping_add(7);
    }
    c
}

impl SDoc {
    /// Applies writer-side edits to a value of the reader's type.
    pub fn evolve(&self, s: &Shape, v: &TVal, edits: &[Edit], union_replace: bool) -> (TVal, EditInfo) {
        let mut v = v.clone();
        let mut info = EditInfo::default();
        for e in edits {
            let nodes = self.struct_nodes(s, &v);
            if nodes.is_empty() {
                break;
            }
            let sel = |i: u16| &nodes[(i as usize * nodes.len()) >> 16];
            match e {
                Edit::AddUnknown(ns, ids, pos, val) => {
                    let n = sel(*ns);
                    if let Some(TVal::Struct(fs)) = node_mut(&mut v, &n.path) {
                        let id = fresh_id(&n.known_ids, fs, *ids);
                        let at = if fs.is_empty() { 0 } else { *pos as usize % (fs.len() + 1) };
                        if n.is_union && union_replace {
                            // a union carries exactly one field: the writer chose a variant the
                            // reader does not know
                            fs.clear();
                            fs.push((id, val.clone()));
                        } else {
                            fs.insert(at, (id, val.clone()));
                        }
                        info.added += 1;
                        if n.depth > 0 {
                            info.added_nested += 1;
                        }
                        if n.in_container {
                            info.added_in_container += 1;
                        }
                        if n.is_union {
                            info.added_in_union += 1;
                        }
                    }
                }
                Edit::Remove(ns, w) => {
                    let n = sel(*ns);
                    if let Some(TVal::Struct(fs)) = node_mut(&mut v, &n.path) {
                        if !fs.is_empty() {
                            let i = *w as usize % fs.len();
                            fs.remove(i);
                            info.removed += 1;
                        }
                    }
                }
                Edit::Retype(ns, w, val) => {
                    let n = sel(*ns);
                    if let Some(TVal::Struct(fs)) = node_mut(&mut v, &n.path) {
                        if !fs.is_empty() {
                            let i = *w as usize % fs.len();
                            if fs[i].1.tt() != val.tt() {
                                fs[i].1 = val.clone();
                                info.retyped += 1;
                            }
                        }
                    }
                }
                Edit::SplitKey(ns, ids, val) => {
                    // struct nodes that are a set element or a map key (unions carry one field only)
                    let cands: Vec<&StructNode> = nodes
                        .iter()
                        .filter(|n| !n.is_union)
                        .filter(|n| match n.path.split_last() {
                            Some((PathStep::MapKey(_), _)) => true,
                            Some((PathStep::Elem(_), parent)) => {
                                let mut probe = v.clone();
                                matches!(node_mut(&mut probe, parent), Some(TVal::Set(..)))
                            }
                            _ => false,
                        })
                        .collect();
                    if !cands.is_empty() {
                        let n = cands[(*ns as usize * cands.len()) >> 16];
                        let (last, parent) = n.path.split_last().unwrap();
                        let mut twin = None;
                        if let Some(TVal::Struct(fs)) = node_mut(&mut v, &n.path) {
                            let id = fresh_id(&n.known_ids, fs, *ids);
                            let mut t = fs.clone();
                            t.push((id, val.clone()));
                            twin = Some(TVal::Struct(t));
                        }
                        if let (Some(twin), Some(container)) = (twin, node_mut(&mut v, parent)) {
                            match (last, container) {
                                (PathStep::Elem(_), TVal::Set(_, es)) if !es.contains(&twin) => {
                                    es.push(twin);
                                    info.split_keys += 1;
                                }
                                (PathStep::MapKey(i), TVal::Map(_, _, es)) if !es.iter().any(|(k, _)| *k == twin) => {
                                    let val = es[*i].1.clone();
                                    es.push((twin, val));
                                    info.split_keys += 1;
                                }
                                _ => {}
                            }
                            if info.split_keys > 0 {
                                info.added += 1;
                                info.added_nested += 1;
                                info.added_in_container += 1;
                            }
                        }
                    }
                }
                Edit::Reorder(ns, k) => {
                    let n = sel(*ns);
                    if let Some(TVal::Struct(fs)) = node_mut(&mut v, &n.path) {
                        if fs.len() > 1 {
                            let r = *k as usize % fs.len();
                            fs.rotate_left(r);
                            if *k % 2 == 1 {
                                fs.reverse();
                            }
                            info.reordered += 1;
                        }
                    }
                }
            }
        }
        (v, info)
    }
}

/// Edits for readers that retain unknown fields: unknown fields, reordering, and twins of set
/// elements / map keys that differ in an unknown field only.
pub fn arb_unknown_edit() -> BoxedStrategy<Edit> {
    let cfg = crate::tval::GenCfg { utf8: true, max_big: 300, max_children: 3 };
    let small = (0u32..=1).prop_flat_map(move |d| crate::tval::arb_any(d, cfg));
    prop_oneof![
        16 => arb_edit().prop_filter("unknown-field edits only", |e| matches!(e, Edit::AddUnknown(..) | Edit::Reorder(..))),
        2 => (any::<u16>(), any::<u16>(), small).prop_map(|(a, b, c)| Edit::SplitKey(a, b, c)),
        // now and then an unknown field that is large by itself (retention keeps it whatever its size)
        1 => (any::<u16>(), any::<u16>(), any::<u8>(), prop::sample::select(vec![65_530usize, 65_536, 70_000, 140_000]), any::<bool>()).prop_map(|(a, b, c, n, as_list)| {
            let v = if as_list { TVal::List(TT::I64, (0..n / 8).map(|i| TVal::I64(i as i64)).collect()) } else { TVal::Binary((0..n).map(|i| b'a' + (i % 23) as u8).collect()) };
            Edit::AddUnknown(a, b, c, v)
        }),
    ]
    .boxed()
}

pub fn arb_edit() -> BoxedStrategy<Edit> {
    let cfg = crate::tval::GenCfg { utf8: true, max_big: 4097, max_children: 3 };
    // unknown values: mostly shallow; one in five is a container whose elements are built one
    // level deeper than arb_any would (maps with a struct on one side only, structs that hold
    // structs inside map keys / values / list elements: the shapes on which the skippers' fast
    // and slow paths part)
    let shallow = (0u32..=2).prop_flat_map(move |d| crate::tval::arb_any(d, cfg));
    let side = || prop::sample::select(vec![TT::I8, TT::I32, TT::I64, TT::Double, TT::Uuid, TT::Bool, TT::Binary, TT::Struct, TT::Struct]);
    let deep_map = (side(), side(), 1usize..4).prop_flat_map(move |(kt, vt, n)| {
        prop::collection::vec((crate::tval::arb_of(kt, 2, cfg), crate::tval::arb_of(vt, 2, cfg)), n).prop_map(move |es| TVal::Map(kt, vt, es))
    });
    let deep_seq = (side(), any::<bool>(), 1usize..4).prop_flat_map(move |(et, is_set, n)| {
        prop::collection::vec(crate::tval::arb_of(et, 2, cfg), n).prop_map(move |es| if is_set { TVal::Set(et, es) } else { TVal::List(et, es) })
    });
    let any_val = prop_oneof![8 => shallow, 1 => deep_map, 1 => deep_seq].boxed();
    prop_oneof![
        5 => (any::<u16>(), any::<u16>(), any::<u8>(), any_val.clone()).prop_map(|(a, b, c, d)| Edit::AddUnknown(a, b, c, d)),
        2 => (any::<u16>(), any::<u8>()).prop_map(|(a, b)| Edit::Remove(a, b)),
        2 => (any::<u16>(), any::<u8>(), any_val).prop_map(|(a, b, c)| Edit::Retype(a, b, c)),
        1 => (any::<u16>(), any::<u8>()).prop_map(|(a, b)| Edit::Reorder(a, b)),
    ]
    .boxed()
}

impl SDoc {
    /// Known finding `union-variant-wire-type-mismatch`: generated union decoders select the
    /// variant by field id only; true when `v` carries, in some union node, a known variant id
    /// with a wire type other than the declared one.
    pub fn union_type_mismatch(&self, s: &Shape, v: &TVal) -> bool {
        match s {
            Shape::Struct(fs) => self.utm_fields(fs, false, v),
            Shape::Union { fields, .. } => self.utm_fields(fields, true, v),
            Shape::Enum(_) => false,
            Shape::Alias(t) => self.utm_ty(t, v),
        }
    }
    fn utm_ty(&self, ty: &STy, v: &TVal) -> bool {
        match self.resolve(ty) {
            Resolved::Struct(fs) => self.utm_fields(fs, false, v),
            Resolved::Union(fs) => self.utm_fields(fs, true, v),
            Resolved::Enum(_) => false,
            Resolved::Plain(p) => match (p, v) {
                (STy::List(e), TVal::List(_, es)) | (STy::Set(e), TVal::Set(_, es)) => es.iter().any(|x| self.utm_ty(e, x)),
                (STy::Map(k, vt), TVal::Map(_, _, es)) => es.iter().any(|(a, b)| self.utm_ty(k, a) || self.utm_ty(vt, b)),
                _ => false,
            },
        }
    }
    fn utm_fields(&self, fs: &[SField], is_union: bool, v: &TVal) -> bool {
        let TVal::Struct(wfs) = v else { return false };
        for (id, x) in wfs {
            if let Some(f) = fs.iter().find(|f| f.id == *id) {
                if self.wire_tt(&f.ty) != x.tt() {
                    if is_union {
                        return true;
                    }
                } else if self.utm_ty(&f.ty, x) {
                    return true;
                }
            }
        }
        false
    }
}


impl SDoc {
    /// The wire value is inside the domain of C08/C13: wherever a known field id carries the
    /// declared outer wire type, its content has the declared inner types too ("retyping inside
    /// a container is outside the property").
    pub fn tolerant_conforms_shape(&self, s: &Shape, v: &TVal) -> bool {
        self.tolerant_conforms_shape_for(s, v, false)
    }
    /// `keep`: the reader retains unknown fields, so two set members / map keys that agree on
    /// every known field and differ in what else they carry are two members for it.
    pub fn tolerant_conforms_shape_for(&self, s: &Shape, v: &TVal, keep: bool) -> bool {
        match s {
            Shape::Struct(fs) | Shape::Union { fields: fs, .. } => self.tc_fields(fs, v, keep),
            Shape::Enum(_) => true,
            Shape::Alias(t) => self.tc_ty(t, v, keep),
        }
    }
    fn reader_key(&self, ty: &STy, v: &TVal, keep: bool) -> Vec<u8> {
        let mut k = self.filled_key(ty, v);
        if keep {
            k.extend_from_slice(&canon_key(&canon(v)));
        }
        k
    }
    fn tc_ty(&self, ty: &STy, v: &TVal, keep: bool) -> bool {
        if self.wire_tt(ty) != v.tt() {
            return false;
        }
        match self.resolve(ty) {
            Resolved::Struct(fs) | Resolved::Union(fs) => self.tc_fields(fs, v, keep),
            Resolved::Enum(_) => true,
            Resolved::Plain(p) => match (p, v) {
                (STy::List(e), TVal::List(t, es)) => es.is_empty() || (*t == self.wire_tt(e) && es.iter().all(|x| self.tc_ty(e, x, keep))),
                // set members / map keys must stay distinct for the reader (unknown members
                // ignored, defaults filled): which of two colliding entries survives is not
                // something the properties fix
                (STy::Set(e), TVal::Set(t, es)) => {
                    es.is_empty() || (*t == self.wire_tt(e) && es.iter().all(|x| self.tc_ty(e, x, keep)) && es.iter().map(|x| self.reader_key(e, x, keep)).collect::<std::collections::BTreeSet<_>>().len() == es.len())
                }
                (STy::Map(k, vt), TVal::Map(a, b, es)) => {
                    es.is_empty()
                        || (*a == self.wire_tt(k)
                            && *b == self.wire_tt(vt)
                            && es.iter().all(|(x, y)| self.tc_ty(k, x, keep) && self.tc_ty(vt, y, keep))
                            && es.iter().map(|(x, _)| self.reader_key(k, x, keep)).collect::<std::collections::BTreeSet<_>>().len() == es.len())
                }
                _ => true,
            },
        }
    }
    fn tc_fields(&self, fs: &[SField], v: &TVal, keep: bool) -> bool {
        let TVal::Struct(wfs) = v else { return false };
        wfs.iter().all(|(id, x)| match fs.iter().find(|f| f.id == *id) {
            Some(f) if self.wire_tt(&f.ty) == x.tt() => self.tc_ty(&f.ty, x, keep),
            _ => true,
        })
    }
}


impl SDoc {
    /// Does the type (transitively) contain a list whose elements own heap memory or input
    /// handles (strings, binaries, containers, structs)? Such lists are where the known finding
    /// `list-elem-leak` lives.
    pub fn shape_has_heap_list(&self, s: &Shape) -> bool {
        let mut seen = std::collections::BTreeSet::new();
        match s {
            Shape::Struct(fs) | Shape::Union { fields: fs, .. } => fs.iter().any(|f| self.ty_has_heap_list(&f.ty, &mut seen)),
            Shape::Enum(_) => false,
            Shape::Alias(t) => self.ty_has_heap_list(t, &mut seen),
        }
    }
    fn ty_has_heap_list(&self, t: &STy, seen: &mut std::collections::BTreeSet<(usize, String)>) -> bool {
        match t {
            STy::List(e) => {
                let heap = !matches!(self.resolve(e), Resolved::Enum(_) | Resolved::Plain(STy::Bool | STy::Byte | STy::I16 | STy::I32 | STy::I64 | STy::Double | STy::Uuid));
                heap || self.ty_has_heap_list(e, seen)
            }
            STy::Set(e) => self.ty_has_heap_list(e, seen),
            STy::Map(k, v) => self.ty_has_heap_list(k, seen) || self.ty_has_heap_list(v, seen),
            STy::Named(f, n) => {
                if !seen.insert((*f, n.clone())) {
                    return false;
                }
                match self.decl(*f, n).map(|d| &d.kind) {
                    Some(DeclKind::Typedef(t)) => self.ty_has_heap_list(t, seen),
                    Some(DeclKind::Struct(fs)) | Some(DeclKind::Exception(fs)) | Some(DeclKind::Union(fs)) => fs.iter().any(|f| self.ty_has_heap_list(&f.ty, seen)),
                    _ => false,
                }
            }
            _ => false,
        }
    }
}

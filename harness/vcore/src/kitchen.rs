//! Hand-built "kitchen sink" documents: guarantee that every feature the properties talk about
//! is present in the corpus whatever the seed.
use crate::tschema::*;

fn f(id: i16, name: &str, req: Req, ty: STy) -> SField {
    SField { id, name: name.into(), req, ty, default: None, annots: vec![] }
}
fn fd(id: i16, name: &str, req: Req, ty: STy, d: Lit) -> SField {
    SField { id, name: name.into(), req, ty, default: Some(d), annots: vec![] }
}
fn named(file: usize, n: &str) -> STy {
    STy::Named(file, n.into())
}
fn list(t: STy) -> STy {
    STy::List(Box::new(t))
}
fn set(t: STy) -> STy {
    STy::Set(Box::new(t))
}
fn map(k: STy, v: STy) -> STy {
    STy::Map(Box::new(k), Box::new(v))
}

pub fn thrift_docs() -> Vec<SDoc> {
    use Req::*;
    // ---- document 0: two files, every base type, containers to depth 3, recursion, unions,
    // typedefs, enums, services
    let base = SFile {
        stem: "kbase".into(),
        namespace: vec!["kit".into(), "base".into()],
        includes: vec![],
        decls: vec![
            Decl { name: "Color".into(), kind: DeclKind::Enum(vec![("RED".into(), 1), ("GREEN".into(), 2), ("BLUE".into(), 40000)]) },
            Decl { name: "Empty".into(), kind: DeclKind::Enum(vec![]) },
            Decl {
                name: "Point".into(),
                kind: DeclKind::Struct(vec![f(1, "x", Required, STy::I32), f(2, "y", Optional, STy::I32), f(3, "label", Default, STy::String)]),
            },
            Decl { name: "Points".into(), kind: DeclKind::Typedef(list(named(1, "Point"))) },
            Decl { name: "Id".into(), kind: DeclKind::Typedef(STy::I64) },
            Decl { name: "Oops".into(), kind: DeclKind::Exception(vec![f(1, "msg", Default, STy::String), f(2, "code", Required, STy::I32)]) },
            Decl { name: "KMAX".into(), kind: DeclKind::Const(STy::I32, Lit::Int(77)) },
        ],
    };
    let main = SFile {
        stem: "kmain".into(),
        namespace: vec![],
        includes: vec![1],
        decls: vec![
            Decl {
                name: "Scalars".into(),
                kind: DeclKind::Struct(vec![
                    f(1, "b", Required, STy::Bool),
                    f(2, "by", Required, STy::Byte),
                    f(3, "s", Required, STy::I16),
                    f(4, "i", Required, STy::I32),
                    f(5, "l", Required, STy::I64),
                    f(6, "d", Required, STy::Double),
                    f(7, "st", Required, STy::String),
                    f(8, "bi", Required, STy::Binary),
                    f(9, "u", Required, STy::Uuid),
                    f(20, "ob", Optional, STy::Bool),
                    f(21, "oby", Optional, STy::Byte),
                    f(22, "os", Optional, STy::I16),
                    f(23, "oi", Optional, STy::I32),
                    f(24, "ol", Optional, STy::I64),
                    f(25, "od", Optional, STy::Double),
                    f(26, "ost", Optional, STy::String),
                    f(27, "obi", Optional, STy::Binary),
                    f(28, "ou", Optional, STy::Uuid),
                    f(300, "far", Default, STy::Bool),
                    f(32000, "very_far", Default, STy::I32),
                ]),
            },
            Decl {
                name: "Containers".into(),
                kind: DeclKind::Struct(vec![
                    f(1, "li", Required, list(STy::I32)),
                    f(2, "lb", Default, list(STy::Bool)),
                    f(3, "ls", Optional, list(STy::String)),
                    f(4, "si", Default, set(STy::I64)),
                    f(5, "ss", Optional, set(STy::String)),
                    f(6, "sd", Default, set(STy::Double)),
                    f(7, "m1", Required, map(STy::String, STy::I32)),
                    f(8, "m2", Default, map(STy::I32, list(named(1, "Point")))),
                    f(9, "m3", Optional, map(STy::Byte, map(STy::String, set(STy::I16)))),
                    f(10, "lll", Default, list(list(list(STy::Double)))),
                    f(11, "lp", Default, list(named(1, "Point"))),
                    f(12, "mu", Default, map(STy::Uuid, STy::Binary)),
                    f(13, "me", Default, map(named(1, "Color"), named(1, "Color"))),
                    f(14, "mb", Default, map(STy::Bool, STy::Bool)),
                    f(15, "pts", Default, named(1, "Points")),
                    f(16, "mk", Default, map(named(1, "Point"), STy::String)),
                    f(17, "sb", Default, set(STy::Binary)),
                    f(18, "md", Default, map(STy::Double, STy::Double)),
                    f(19, "lu", Default, list(named(0, "Choice"))),
                ]),
            },
            Decl {
                name: "Node".into(),
                kind: DeclKind::Struct(vec![
                    f(1, "value", Required, STy::I32),
                    f(2, "next", Optional, named(0, "Node")),
                    f(3, "kids", Default, list(named(0, "Node"))),
                    f(4, "by_name", Optional, map(STy::String, named(0, "Node"))),
                    f(5, "flag", Default, STy::Bool),
                    f(6, "other", Optional, named(0, "Tree")),
                ]),
            },
            Decl {
                name: "Tree".into(),
                kind: DeclKind::Struct(vec![f(1, "root", Optional, named(0, "Node")), f(2, "pick", Optional, named(0, "Choice")), f(3, "name", Required, STy::String)]),
            },
            Decl {
                name: "Choice".into(),
                kind: DeclKind::Union(vec![
                    f(1, "num", Default, STy::I32),
                    f(2, "text", Default, STy::String),
                    f(3, "pt", Default, named(1, "Point")),
                    f(4, "many", Default, list(STy::I64)),
                    f(5, "flag", Default, STy::Bool),
                    f(6, "col", Default, named(1, "Color")),
                    f(7, "dd", Default, STy::Double),
                    f(8, "tree", Default, named(0, "Tree")),
                ]),
            },
            Decl { name: "Nothing".into(), kind: DeclKind::Struct(vec![]) },
            // structs as set elements and map keys
            Decl {
                name: "Keyed".into(),
                kind: DeclKind::Struct(vec![
                    f(1, "ps", Default, set(named(1, "Point"))),
                    f(2, "pm", Default, map(named(1, "Point"), STy::I32)),
                    f(3, "lps", Optional, list(set(named(1, "Point")))),
                    f(4, "tail", Default, STy::I16),
                ]),
            },
            Decl {
                name: "Svc".into(),
                kind: DeclKind::Service(
                    vec![
                        Method {
                            name: "get".into(),
                            oneway: false,
                            ret: Some(named(0, "Tree")),
                            args: vec![f(1, "req", Default, named(0, "Node")), f(2, "n", Optional, STy::I32), f(3, "c", Default, named(0, "Containers"))],
                            throws: vec![f(1, "oops", Default, named(1, "Oops"))],
                        },
                        Method { name: "ping".into(), oneway: false, ret: None, args: vec![], throws: vec![] },
                        Method { name: "fire".into(), oneway: true, ret: None, args: vec![f(1, "s", Default, STy::String), f(2, "flag", Default, STy::Bool)], throws: vec![] },
                        Method { name: "count".into(), oneway: false, ret: Some(STy::I64), args: vec![f(5, "sc", Default, named(0, "Scalars"))], throws: vec![] },
                        Method { name: "risky".into(), oneway: false, ret: None, args: vec![f(1, "ch", Default, named(0, "Choice"))], throws: vec![f(1, "a", Default, named(1, "Oops")), f(2, "b", Default, named(1, "Oops"))] },
                        // exception ids that are not 1..n in order (a retired id, a hole, out of order)
                        Method { name: "gaps".into(), oneway: false, ret: None, args: vec![], throws: vec![f(2, "denied", Default, named(1, "Oops"))] },
                        Method { name: "holes".into(), oneway: false, ret: Some(STy::I32), args: vec![f(7, "x", Default, STy::I32)], throws: vec![f(5, "late", Default, named(1, "Oops")), f(3, "early", Default, named(1, "Oops"))] },
                        Method { name: "names".into(), oneway: false, ret: Some(list(STy::String)), args: vec![f(1, "ids", Default, list(named(1, "Id")))], throws: vec![] },
                        // structs that reach a method only as container elements (never directly)
                        Method { name: "batch".into(), oneway: false, ret: Some(list(named(1, "Point"))), args: vec![f(1, "pts", Default, list(named(1, "Point"))), f(2, "by", Default, map(STy::String, named(0, "Keyed"))), f(3, "cs", Optional, set(named(1, "Color")))], throws: vec![] },
                    ],
                    None,
                ),
            },
        ],
    };
    let doc0 = SDoc { files: vec![main, base] };

    // ---- document 1: defaults of every kind (mirrors default_value.thrift / multi.thrift)
    let dfile = SFile {
        stem: "kdef".into(),
        namespace: vec!["kit".into(), "defs".into()],
        includes: vec![],
        decls: vec![
            Decl { name: "Level".into(), kind: DeclKind::Enum(vec![("LOW".into(), 0), ("MID".into(), 5), ("HIGH".into(), 9)]) },
            Decl { name: "Alias".into(), kind: DeclKind::Typedef(STy::I32) },
            Decl { name: "Names".into(), kind: DeclKind::Typedef(list(STy::String)) },
            Decl { name: "KNUM".into(), kind: DeclKind::Const(STy::I32, Lit::Int(42)) },
            Decl { name: "KSTR".into(), kind: DeclKind::Const(STy::String, Lit::Str("const text".into())) },
            Decl { name: "KLIST".into(), kind: DeclKind::Const(list(STy::I32), Lit::List(vec![Lit::Int(1), Lit::Int(2), Lit::Int(3)])) },
            Decl { name: "KDBL".into(), kind: DeclKind::Const(STy::Double, Lit::Double("2.5".into())) },
            Decl {
                name: "Inner".into(),
                kind: DeclKind::Struct(vec![fd(1, "a", Default, STy::I32, Lit::Int(7)), f(2, "b", Optional, STy::String), fd(3, "c", Required, STy::String, Lit::Str("cc".into()))]),
            },
            Decl {
                name: "Camel".into(),
                kind: DeclKind::Struct(vec![f(1, "userName", Default, STy::String), f(2, "retryCount", Optional, STy::I32), f(3, "plain", Default, STy::I32), f(4, "HTTPCode", Default, STy::I16)]),
            },
            // every default is the type's zero: the struct must still say so for optional members
            Decl {
                name: "ZeroDefaults".into(),
                kind: DeclKind::Struct(vec![
                    fd(1, "a", Optional, STy::I32, Lit::Int(0)),
                    fd(2, "b", Optional, STy::Bool, Lit::Bool(false)),
                    fd(3, "s", Default, STy::String, Lit::Str("".into())),
                    fd(4, "d", Optional, STy::Double, Lit::Int(0)),
                    fd(5, "r", Required, STy::I64, Lit::Int(0)),
                    fd(6, "bi", Optional, STy::Binary, Lit::Str("".into())),
                    fd(7, "bz", Default, STy::Bool, Lit::Int(0)),
                ]),
            },
            // doubles written with exponents (the IDL value is the correctly rounded one)
            Decl {
                name: "Physics".into(),
                kind: DeclKind::Struct(vec![
                    fd(1, "avogadro", Default, STy::Double, Lit::Double("6.02e23".into())),
                    fd(2, "charge", Optional, STy::Double, Lit::Double("1.6e-19".into())),
                    fd(3, "planck", Default, STy::Double, Lit::Double("6.62e-34".into())),
                    fd(4, "big", Optional, STy::Double, Lit::Double("1e308".into())),
                    fd(5, "milli", Default, STy::Double, Lit::Double("2.5e-3".into())),
                    fd(6, "lights", Default, list(STy::Double), Lit::List(vec![Lit::Double("2.99792458e8".into()), Lit::Double("1.e5".into())])),
                    fd(7, "by_exp", Optional, map(STy::String, STy::Double), Lit::Map(vec![(Lit::Str("h".into()), Lit::Double("6.62607015e-34".into()))])),
                ]),
            },
            // member values that start at 0, end at n-1 and are not ascending in between
            Decl { name: "Perm".into(), kind: DeclKind::Enum(vec![("LOW".into(), 0), ("HIGH".into(), 2), ("MID".into(), 1), ("MAX".into(), 3)]) },
            // more fields than any size / arity threshold a generator might special-case
            Decl {
                name: "Wide".into(),
                kind: DeclKind::Struct(
                    (1..=40i16)
                        .map(|i| match i % 5 {
                            0 => f(i, &format!("w{}", i), Optional, STy::String),
                            1 => f(i, &format!("w{}", i), Default, STy::I32),
                            2 => f(i, &format!("w{}", i), Optional, STy::Bool),
                            3 => f(i + 1000, &format!("w{}", i), Default, STy::I64),
                            _ => f(i, &format!("w{}", i), Optional, list(STy::I16)),
                        })
                        .collect(),
                ),
            },
            Decl {
                name: "WideHolder".into(),
                kind: DeclKind::Struct(vec![f(7, "before", Default, STy::I32), f(8, "w", Optional, named(0, "Wide")), f(9, "after", Default, STy::Bool), f(10, "ws", Default, list(named(0, "Wide"))), f(11, "last", Optional, STy::I16)]),
            },
            Decl {
                name: "Defaults".into(),
                kind: DeclKind::Struct(vec![
                    // integer literals on doubles beyond the 24-bit significand of an f32; enum defaults by number
                    // on an enum whose members are not declared in ascending order
                    fd(48, "d_int_wide", Default, STy::Double, Lit::Int(16777217)),
                    fd(49, "d_int_wide2", Optional, STy::Double, Lit::Int(123456789)),
                    fd(50, "ld_int_wide", Default, list(STy::Double), Lit::List(vec![Lit::Int(16777217), Lit::Int(-123456789)])),
                    fd(51, "md_int_wide", Default, map(STy::String, STy::Double), Lit::Map(vec![(Lit::Str("k".into()), Lit::Int(4294967297))])),
                    fd(56, "b_neg", Default, STy::Bool, Lit::Int(-1)),
                    fd(57, "b_neg_opt", Optional, STy::Bool, Lit::Hex(-16)),
                    fd(58, "bools_neg", Default, list(STy::Bool), Lit::List(vec![Lit::Int(-1), Lit::Int(0), Lit::Int(2), Lit::Int(-9223372036854775807)])),
                    fd(59, "mb_neg", Optional, map(STy::String, STy::Bool), Lit::Map(vec![(Lit::Str("k".into()), Lit::Int(-3))])),
                    fd(52, "perm_num", Default, named(0, "Perm"), Lit::Int(1)),
                    fd(53, "perm_num2", Optional, named(0, "Perm"), Lit::Int(2)),
                    fd(54, "perm_list", Default, list(named(0, "Perm")), Lit::List(vec![Lit::Int(2), Lit::Int(1), Lit::Int(0), Lit::Int(3)])),
                    fd(55, "perm_map", Default, map(named(0, "Perm"), STy::I32), Lit::Map(vec![(Lit::Int(1), Lit::Int(10)), (Lit::Int(2), Lit::Int(20))])),
                    // literal keys are IDL names, not Rust names; repeated list elements stay repeated
                    fd(35, "camel", Default, named(0, "Camel"), Lit::Map(vec![(Lit::Str("userName".into()), Lit::Str("bob".into())), (Lit::Str("retryCount".into()), Lit::Int(3)), (Lit::Str("plain".into()), Lit::Int(7)), (Lit::Str("HTTPCode".into()), Lit::Int(404))])),
                    fd(36, "dup", Default, list(STy::I32), Lit::List(vec![Lit::Int(1), Lit::Int(1), Lit::Int(2), Lit::Int(1)])),
                    fd(37, "dups", Optional, list(STy::String), Lit::List(vec![Lit::Str("a".into()), Lit::Str("b".into()), Lit::Str("a".into())])),
                    fd(38, "bools", Default, list(STy::Bool), Lit::List(vec![Lit::Int(1), Lit::Int(0), Lit::Int(1)])),
                    fd(39, "ml", Default, map(STy::String, list(STy::I32)), Lit::Map(vec![(Lit::Str("k".into()), Lit::List(vec![Lit::Int(5), Lit::Int(5)]))])),
                    // hexadecimal literals (negative ones keep their sign) and the escapes pilota's IDL grammar knows (\\n, \\\\, \\", \\')
                    fd(40, "neg_hex", Default, STy::I32, Lit::Hex(-16)),
                    fd(41, "hexes", Default, list(STy::I64), Lit::List(vec![Lit::Hex(-255), Lit::Hex(4096), Lit::Int(-1)])),
                    fd(42, "d_neg_hex", Optional, STy::Double, Lit::Hex(-2)),
                    fd(43, "by_hex", Default, STy::Byte, Lit::Hex(-127)),
                    fd(44, "esc", Default, STy::String, Lit::Str("line1\\nline2\\\\bs \\\"q\\\"".into())),
                    fd(45, "esc_bin", Optional, STy::Binary, Lit::Str("a\\\\b\\n".into())),
                    fd(46, "big", Optional, STy::I64, Lit::Int(5000000000)),
                    fd(47, "big_neg", Default, STy::I64, Lit::Int(-3000000000)),
                    fd(1, "i_opt", Optional, STy::I32, Lit::Int(-5)),
                    fd(2, "i_def", Default, STy::I32, Lit::Int(123456)),
                    fd(3, "i_req", Required, STy::I32, Lit::Int(3)),
                    fd(4, "b_true", Default, STy::Bool, Lit::Bool(true)),
                    fd(5, "b_from_int", Default, STy::Bool, Lit::Int(1)),
                    fd(6, "b_zero", Optional, STy::Bool, Lit::Int(0)),
                    fd(7, "d_from_int", Default, STy::Double, Lit::Int(1)),
                    fd(8, "d_float", Optional, STy::Double, Lit::Double("1.25".into())),
                    fd(9, "s", Default, STy::String, Lit::Str("hello".into())),
                    fd(10, "s_empty", Optional, STy::String, Lit::Str("".into())),
                    fd(11, "bin", Default, STy::Binary, Lit::Str("bytes".into())),
                    fd(12, "e_name", Default, named(0, "Level"), Lit::EnumMember(0, "Level".into(), "MID".into())),
                    fd(13, "e_num", Optional, named(0, "Level"), Lit::Int(9)),
                    fd(14, "k_ref", Default, STy::I32, Lit::Const(0, "KNUM".into())),
                    fd(15, "k_str", Optional, STy::String, Lit::Const(0, "KSTR".into())),
                    fd(16, "li", Default, list(STy::I32), Lit::List(vec![Lit::Int(1), Lit::Int(2)])),
                    fd(17, "ls_empty", Optional, list(STy::String), Lit::List(vec![])),
                    fd(18, "st", Default, set(STy::String), Lit::List(vec![Lit::Str("a".into())])),
                    fd(19, "mp", Default, map(STy::String, STy::I32), Lit::Map(vec![(Lit::Str("k".into()), Lit::Int(1))])),
                    fd(20, "mp_empty", Optional, map(STy::I32, STy::String), Lit::Map(vec![])),
                    fd(21, "ali", Default, named(0, "Alias"), Lit::Int(11)),
                    fd(22, "names", Default, named(0, "Names"), Lit::List(vec![Lit::Str("n1".into())])),
                    fd(23, "by", Default, STy::Byte, Lit::Int(-1)),
                    fd(24, "sh", Default, STy::I16, Lit::Int(300)),
                    fd(25, "lg", Default, STy::I64, Lit::Int(1 << 40)),
                    fd(26, "k_list", Default, list(STy::I32), Lit::Const(0, "KLIST".into())),
                    fd(27, "k_dbl", Default, STy::Double, Lit::Const(0, "KDBL".into())),
                    fd(28, "e_as_int", Default, STy::I32, Lit::EnumMember(0, "Level".into(), "HIGH".into())),
                    fd(29, "nested", Default, list(list(STy::I32)), Lit::List(vec![Lit::List(vec![Lit::Int(1)]), Lit::List(vec![])])),
                    // every member of the literal is spelled out (a literal that leaves out a member which
                    // has its own default is the known finding exercised by `thrift_side_docs`)
                    fd(30, "inner", Default, named(0, "Inner"), Lit::Map(vec![(Lit::Str("a".into()), Lit::Int(9)), (Lit::Str("b".into()), Lit::Str("bb".into())), (Lit::Str("c".into()), Lit::Str("c3".into()))])),
                    f(31, "plain_opt", Optional, STy::I32),
                    f(32, "plain_req", Required, STy::String),
                    f(33, "inner_req", Required, named(0, "Inner")),
                    f(34, "inner_opt", Optional, named(0, "Inner")),
                ]),
            },
        ],
    };
    let mut dfile = dfile;
    dfile.decls.push(Decl {
        name: "Finder".into(),
        kind: DeclKind::Service(
            vec![Method {
                name: "find".into(),
                oneway: false,
                ret: Some(list(STy::String)),
                args: vec![
                    fd(1, "limit", Optional, STy::I32, Lit::Int(25)),
                    fd(2, "fuzzy", Optional, STy::Bool, Lit::Bool(true)),
                    fd(3, "q", Default, STy::String, Lit::Str("x".into())),
                    fd(4, "lvl", Optional, named(0, "Level"), Lit::Int(5)),
                    f(5, "plain", Optional, STy::I64),
                ],
                throws: vec![],
            }],
            None,
        ),
    });
    let doc1 = SDoc { files: vec![dfile] };

    // ---- document 2: two files whose namespaces differ in the first segment and agree in the
    // last one; typedefs of enums, of typedefs and of structs in field, element, key and value
    // position; recursion that passes through a typedef
    let model = SFile {
        stem: "kmodel".into(),
        namespace: vec!["base".into(), "model".into()],
        includes: vec![2],
        decls: vec![
            Decl { name: "Tag".into(), kind: DeclKind::Enum(vec![("A".into(), 1), ("B".into(), 5)]) },
            Decl { name: "Count".into(), kind: DeclKind::Typedef(STy::I32) },
            Decl { name: "KBASE".into(), kind: DeclKind::Const(STy::I32, Lit::Int(7)) },
            Decl { name: "KUNIT".into(), kind: DeclKind::Const(STy::String, Lit::Str("ms".into())) },
            Decl {
                name: "Meta".into(),
                kind: DeclKind::Struct(vec![f(1, "id", Default, STy::String), f(2, "tag", Optional, named(1, "Tag")), fd(3, "lvl", Optional, STy::I32, Lit::Const(1, "KBASE".into())), fd(4, "unit", Default, STy::String, Lit::Const(1, "KUNIT".into())), f(5, "leaf", Optional, named(2, "Leaf")), f(6, "leaves", Default, list(named(2, "Leaf")))]),
            },
        ],
    };
    // a third file that only kmodel includes: kshop reaches it over two include steps
    let leaf = SFile {
        stem: "kleaf".into(),
        namespace: vec!["base".into(), "leaf".into()],
        includes: vec![],
        decls: vec![
            Decl { name: "LeafKind".into(), kind: DeclKind::Enum(vec![("PLAIN".into(), 0), ("FANCY".into(), 3)]) },
            Decl { name: "Leaf".into(), kind: DeclKind::Struct(vec![f(1, "n", Default, STy::I32), f(2, "s", Optional, STy::String), f(3, "kind", Optional, named(2, "LeafKind"))]) },
        ],
    };
    let shop = SFile {
        stem: "kshop".into(),
        namespace: vec!["shop".into(), "model".into()],
        includes: vec![1],
        decls: vec![
            Decl { name: "TagT".into(), kind: DeclKind::Typedef(named(1, "Tag")) },
            Decl { name: "TagAlias".into(), kind: DeclKind::Typedef(named(0, "TagT")) },
            Decl { name: "Count2".into(), kind: DeclKind::Typedef(named(1, "Count")) },
            Decl { name: "Flag".into(), kind: DeclKind::Typedef(STy::Bool) },
            Decl { name: "Switch".into(), kind: DeclKind::Typedef(named(0, "Flag")) },
            // constants of the same name and type in both files; defaults refer to either
            Decl { name: "KBASE".into(), kind: DeclKind::Const(STy::I32, Lit::Int(9)) },
            Decl { name: "KUNIT".into(), kind: DeclKind::Const(STy::String, Lit::Str("s".into())) },
            Decl {
                name: "Job".into(),
                kind: DeclKind::Struct(vec![
                    fd(1, "lvl", Optional, STy::I32, Lit::Const(1, "KBASE".into())),
                    fd(2, "unit", Default, STy::String, Lit::Const(1, "KUNIT".into())),
                    fd(3, "own_lvl", Optional, STy::I32, Lit::Const(0, "KBASE".into())),
                    fd(4, "own_unit", Default, STy::String, Lit::Const(0, "KUNIT".into())),
                    f(5, "sw", Default, named(0, "Switch")),
                    f(16, "sw_far", Optional, named(0, "Switch")),
                    f(17, "bytes", Default, list(STy::Byte)),
                ]),
            },
            Decl { name: "Text".into(), kind: DeclKind::Typedef(STy::String) },
            Decl { name: "NodeRef".into(), kind: DeclKind::Typedef(named(0, "Link")) },
            Decl { name: "MetaT".into(), kind: DeclKind::Typedef(named(1, "Meta")) },
            Decl {
                name: "Link".into(),
                kind: DeclKind::Struct(vec![f(1, "v", Default, STy::I32), f(2, "next", Optional, named(0, "NodeRef")), f(3, "kids", Default, list(named(0, "NodeRef")))]),
            },
            Decl {
                name: "Order".into(),
                kind: DeclKind::Struct(vec![
                    f(1, "meta", Default, named(1, "Meta")),
                    f(2, "tag", Default, named(0, "TagT")),
                    f(3, "tag2", Optional, named(0, "TagAlias")),
                    f(4, "n", Required, named(0, "Count2")),
                    f(5, "m", Default, map(named(0, "Count2"), named(0, "TagT"))),
                    f(6, "root", Optional, named(0, "Link")),
                    f(7, "flag", Default, named(0, "Flag")),
                    f(8, "flags", Default, list(named(0, "Flag"))),
                    f(9, "text", Optional, named(0, "Text")),
                    f(10, "meta_t", Optional, named(0, "MetaT")),
                    f(11, "tags", Default, set(named(0, "TagAlias"))),
                    f(300, "far", Default, named(0, "Flag")),
                ]),
            },
            Decl {
                name: "Pick".into(),
                kind: DeclKind::Union(vec![f(1, "t", Default, named(0, "TagAlias")), f(2, "f", Default, named(0, "Flag")), f(3, "c", Default, named(0, "Count2")), f(4, "m", Default, named(0, "MetaT"))]),
            },
            Decl {
                name: "Shop".into(),
                kind: DeclKind::Service(vec![Method { name: "place".into(), oneway: false, ret: Some(named(0, "TagT")), args: vec![f(1, "o", Default, named(0, "Order")), f(2, "t", Default, named(0, "TagAlias")), f(3, "f", Default, named(0, "Flag"))], throws: vec![] }], None),
            },
        ],
    };
    let doc2 = SDoc { files: vec![shop, model, leaf] };
    vec![doc0, doc1, doc2]
}

/// Side-stream documents: each exercises exactly one known-finding class; (finding key, doc).
pub fn thrift_side_docs() -> Vec<(&'static str, SDoc)> {
    use Req::*;
    let lit_file = SFile {
        stem: "kside".into(),
        namespace: vec![],
        includes: vec![],
        decls: vec![
            Decl {
                name: "Inner".into(),
                kind: DeclKind::Struct(vec![fd(1, "a", Default, STy::I32, Lit::Int(7)), f(2, "b", Optional, STy::String), fd(3, "c", Required, STy::String, Lit::Str("cc".into()))]),
            },
            Decl {
                name: "Outer".into(),
                kind: DeclKind::Struct(vec![fd(1, "inner", Default, named(0, "Inner"), Lit::Map(vec![(Lit::Str("a".into()), Lit::Int(9)), (Lit::Str("b".into()), Lit::Str("bb".into()))]))]),
            },
        ],
    };
    vec![("struct-literal-default-ignores-member-defaults", SDoc { files: vec![lit_file] })]
}

// ---------------------------------------------------------------------------------------------
// protobuf kitchen sinks

pub fn proto_docs() -> Vec<crate::pschema::PDoc> {
    use crate::pschema::*;
    let mk = |proto3: bool, stem: &str, pkg: Vec<String>| -> PFile {
        let file = 0usize;
        let inner = PMessage {
            name: "Inner".into(),
            fields: vec![
                PField { number: 1, name: "a".into(), ty: PTy::Scalar(Sc::Sint32), label: if proto3 { Label::Plain } else { Label::Optional } },
                PField { number: 2, name: "b".into(), ty: PTy::Scalar(Sc::String), label: Label::Repeated },
                PField { number: 3, name: "again".into(), ty: PTy::Message(Ref { file, path: vec!["All".into(), "Inner".into()] }), label: Label::Optional },
            ],
            oneofs: vec![],
            nested: vec![],
            enums: vec![],
        };
        let kind = PEnum { name: "Kind".into(), values: vec![("KIND_ZERO".into(), 0), ("KIND_ONE".into(), 1), ("KIND_BIG".into(), 100000), ("KIND_NEG".into(), -3)] };
        let mut fields = vec![];
        let mut n = 1u32;
        for sc in ALL_SC {
            let low = sc.name();
            fields.push(PField { number: n, name: format!("s_{}", low), ty: PTy::Scalar(sc), label: if proto3 { Label::Plain } else { Label::Required } });
            fields.push(PField { number: n + 20, name: format!("o_{}", low), ty: PTy::Scalar(sc), label: Label::Optional });
            fields.push(PField { number: n + 40, name: format!("r_{}", low), ty: PTy::Scalar(sc), label: Label::Repeated });
            fields.push(PField { number: n + 60, name: format!("mv_{}", low), ty: PTy::Scalar(sc), label: Label::Map(Sc::String) });
            if sc.map_key_ok() {
                fields.push(PField { number: n + 80, name: format!("mk_{}", low), ty: PTy::Scalar(Sc::Int32), label: Label::Map(sc) });
            }
            fields.push(PField { number: n + 100, name: format!("one_{}", low), ty: PTy::Scalar(sc), label: Label::Oneof(0) });
            n += 1;
        }
        let inner_ref = Ref { file, path: vec!["All".into(), "Inner".into()] };
        let kind_ref = Ref { file, path: vec!["All".into(), "Kind".into()] };
        fields.push(PField { number: 200, name: "msg".into(), ty: PTy::Message(inner_ref.clone()), label: Label::Optional });
        fields.push(PField { number: 201, name: "msgs".into(), ty: PTy::Message(inner_ref.clone()), label: Label::Repeated });
        fields.push(PField { number: 202, name: "msg_map".into(), ty: PTy::Message(inner_ref.clone()), label: Label::Map(Sc::Sint64) });
        fields.push(PField { number: 203, name: "kind".into(), ty: PTy::Enum(kind_ref.clone()), label: if proto3 { Label::Plain } else { Label::Optional } });
        fields.push(PField { number: 204, name: "kinds".into(), ty: PTy::Enum(kind_ref.clone()), label: Label::Repeated });
        fields.push(PField { number: 205, name: "kind_map".into(), ty: PTy::Enum(kind_ref.clone()), label: Label::Map(Sc::Bool) });
        fields.push(PField { number: 206, name: "one_msg".into(), ty: PTy::Message(inner_ref.clone()), label: Label::Oneof(1) });
        fields.push(PField { number: 207, name: "one_kind".into(), ty: PTy::Enum(kind_ref), label: Label::Oneof(1) });
        // an enum whose declared numbers all fit one varint byte (open enums still carry any number)
        let small_ref = Ref { file, path: vec!["All".into(), "Small".into()] };
        fields.push(PField { number: 210, name: "smalls".into(), ty: PTy::Enum(small_ref.clone()), label: Label::Repeated });
        fields.push(PField { number: 211, name: "small".into(), ty: PTy::Enum(small_ref), label: Label::Optional });
        // a oneof whose members are declared out of numeric order, with a plain field in the gap
        fields.push(PField { number: 302, name: "scr_a".into(), ty: PTy::Scalar(Sc::Int32), label: Label::Oneof(2) });
        fields.push(PField { number: 307, name: "scr_b".into(), ty: PTy::Scalar(Sc::String), label: Label::Oneof(2) });
        fields.push(PField { number: 304, name: "scr_c".into(), ty: PTy::Scalar(Sc::Bool), label: Label::Oneof(2) });
        fields.push(PField { number: 303, name: "scr_gap".into(), ty: PTy::Scalar(Sc::Uint32), label: Label::Optional });
        // ... and one whose gap (313) stays undeclared
        fields.push(PField { number: 312, name: "scr2_a".into(), ty: PTy::Scalar(Sc::Sint32), label: Label::Oneof(3) });
        fields.push(PField { number: 317, name: "scr2_b".into(), ty: PTy::Scalar(Sc::Bytes), label: Label::Oneof(3) });
        fields.push(PField { number: 314, name: "scr2_c".into(), ty: PTy::Scalar(Sc::Fixed64), label: Label::Oneof(3) });
        // a message that can be present and empty (only optional / repeated members)
        let hollow_ref = Ref { file, path: vec!["All".into(), "Hollow".into()] };
        fields.push(PField { number: 212, name: "hollow".into(), ty: PTy::Message(hollow_ref.clone()), label: Label::Optional });
        fields.push(PField { number: 213, name: "hollows".into(), ty: PTy::Message(hollow_ref.clone()), label: Label::Repeated });
        fields.push(PField { number: 214, name: "hollow_map".into(), ty: PTy::Message(hollow_ref), label: Label::Map(Sc::Int32) });
        fields.push(PField { number: 536870911, name: "last".into(), ty: PTy::Scalar(Sc::Fixed32), label: Label::Optional });
        // field numbers on both sides of every key-length border (16, 2^11, 2^18, 2^25)
        for (i, num) in [16u32, 17, 262143, 262144, 33554431, 33554432].into_iter().enumerate() {
            fields.push(PField { number: num, name: format!("key_edge_{}", num), ty: PTy::Scalar([Sc::Uint32, Sc::String, Sc::Bool][i % 3]), label: if i % 2 == 0 { Label::Optional } else { Label::Repeated } });
        }
        fields.push(PField { number: 2047, name: "two_byte_key_edge".into(), ty: PTy::Scalar(Sc::Uint64), label: Label::Optional });
        fields.push(PField { number: 2048, name: "three_byte_key".into(), ty: PTy::Scalar(Sc::Sfixed64), label: Label::Repeated });
        let hollow = PMessage {
            name: "Hollow".into(),
            fields: vec![
                PField { number: 1, name: "x".into(), ty: PTy::Scalar(Sc::Int32), label: Label::Optional },
                PField { number: 2, name: "ys".into(), ty: PTy::Scalar(Sc::String), label: Label::Repeated },
                PField { number: 3, name: "deeper".into(), ty: PTy::Message(Ref { file, path: vec!["All".into(), "Hollow".into()] }), label: Label::Optional },
            ],
            oneofs: vec![],
            nested: vec![],
            enums: vec![],
        };
        let small = PEnum { name: "Small".into(), values: vec![("SMALL_ZERO".into(), 0), ("SMALL_ONE".into(), 1), ("SMALL_TWO".into(), 2)] };
        let all = PMessage { name: "All".into(), fields, oneofs: vec!["pick".into(), "other".into(), "scr".into(), "scr2".into()], nested: vec![inner, hollow], enums: vec![kind, small] };
        let tree = PMessage {
            name: "Tree".into(),
            fields: vec![
                PField { number: 1, name: "value".into(), ty: PTy::Scalar(Sc::Int64), label: if proto3 { Label::Plain } else { Label::Optional } },
                PField { number: 2, name: "kids".into(), ty: PTy::Message(Ref { file, path: vec!["Tree".into()] }), label: Label::Repeated },
                PField { number: 3, name: "left".into(), ty: PTy::Message(Ref { file, path: vec!["Tree".into()] }), label: Label::Optional },
                PField { number: 4, name: "by_name".into(), ty: PTy::Message(Ref { file, path: vec!["Tree".into()] }), label: Label::Map(Sc::String) },
                PField { number: 5, name: "all".into(), ty: PTy::Message(Ref { file, path: vec!["All".into()] }), label: Label::Optional },
            ],
            oneofs: vec![],
            nested: vec![],
            enums: vec![],
        };
        PFile {
            stem: stem.into(),
            proto3,
            package: pkg,
            imports: vec![],
            messages: vec![all, tree],
            enums: vec![],
            services: vec![("Greeter".into(), vec![("Say".into(), Ref { file, path: vec!["All".into()] }, Ref { file, path: vec!["Tree".into()] }, false, false), ("Chat".into(), Ref { file, path: vec!["Tree".into()] }, Ref { file, path: vec!["Tree".into()] }, true, true)])],
        }
    };
    // ---- imports: one package is a prefix of another (geo, geo.shapes), two imported files
    // share a package (geo), and the importing file refers to types of all three
    let sc = |n: u32, name: &str, s: Sc| PField { number: n, name: name.into(), ty: PTy::Scalar(s), label: Label::Plain };
    let msg = |n: u32, name: &str, file: usize, path: &[&str], label: Label| PField { number: n, name: name.into(), ty: PTy::Message(Ref { file, path: path.iter().map(|s| s.to_string()).collect() }), label };
    let plain = |name: &str, fields: Vec<PField>| PMessage { name: name.into(), fields, oneofs: vec![], nested: vec![], enums: vec![] };
    let pfile = |stem: &str, pkg: &[&str], imports: Vec<usize>, messages: Vec<PMessage>| PFile { stem: stem.into(), proto3: true, package: pkg.iter().map(|s| s.to_string()).collect(), imports, messages, enums: vec![], services: vec![] };
    let imports_doc = PDoc {
        files: vec![
            pfile(
                "kshop",
                &["shop"],
                vec![1, 2, 3],
                vec![plain(
                    "Order",
                    vec![
                        msg(1, "p", 1, &["Point"], Label::Optional),
                        msg(2, "c", 2, &["Circle"], Label::Optional),
                        msg(3, "e", 3, &["Extra"], Label::Optional),
                        msg(4, "cs", 2, &["Circle"], Label::Repeated),
                        msg(5, "m", 3, &["Extra"], Label::Map(Sc::String)),
                        sc(6, "n", Sc::Sint64),
                    ],
                )],
            ),
            pfile("kgeo", &["geo"], vec![], vec![plain("Point", vec![sc(1, "x", Sc::Int32), sc(2, "y", Sc::Sfixed32)])]),
            pfile("kshapes", &["geo", "shapes"], vec![1], vec![plain("Circle", vec![msg(1, "center", 1, &["Point"], Label::Optional), sc(2, "r", Sc::Double)])]),
            pfile("kgeo2", &["geo"], vec![], vec![plain("Extra", vec![sc(1, "note", Sc::String), sc(2, "w", Sc::Fixed64)])]),
        ],
    };
    vec![PDoc { files: vec![mk(true, "kp3", vec!["kit".into(), "p3".into()])] }, PDoc { files: vec![mk(false, "kp2", vec![])] }, imports_doc]
}

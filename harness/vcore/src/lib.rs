pub mod evidence;
pub mod findings;
pub mod mutate;
pub mod refthrift;
pub mod shrink;
pub mod tsyn;
pub mod tval;

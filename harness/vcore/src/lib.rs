pub mod evidence;
pub mod findings;
pub mod refthrift;
pub mod shrink;
pub mod tval;

//! Run-time described protobuf messages for the runtime field codecs (C05 runtime part):
//! a schema is data, a message is a value tree, and this module holds the generators and an
//! independent reference encoder / decoder. The pilota-facing interpreter (`vrt::pdyn`)
//! implements `pilota::prost::Message` over the same trees by calling the field codec modules
//! the way generated code does - including `group` and `btree_map`, which pilota-build never
//! emits and which are therefore out of reach of the generated-code checks.
use proptest::prelude::*;
use serde::{Deserialize, Serialize};

#[derive(Clone, Copy, Debug, PartialEq, Eq, Hash, Serialize, Deserialize)]
pub enum Sk {
    Bool,
    Int32,
    Int64,
    Uint32,
    Uint64,
    Sint32,
    Sint64,
    Fixed32,
    Fixed64,
    Sfixed32,
    Sfixed64,
    Float,
    Double,
    Str,
    FastStr,
    Bytes,
    BytesVec,
}

pub const ALL_SK: [Sk; 17] = [
    Sk::Bool,
    Sk::Int32,
    Sk::Int64,
    Sk::Uint32,
    Sk::Uint64,
    Sk::Sint32,
    Sk::Sint64,
    Sk::Fixed32,
    Sk::Fixed64,
    Sk::Sfixed32,
    Sk::Sfixed64,
    Sk::Float,
    Sk::Double,
    Sk::Str,
    Sk::FastStr,
    Sk::Bytes,
    Sk::BytesVec,
];
/// map key kinds / map value kinds the interpreter instantiates
pub const MAP_KEYS: [Sk; 5] = [Sk::Int32, Sk::Uint64, Sk::Sfixed32, Sk::Bool, Sk::Str];
pub const MAP_VALS: [Sk; 5] = [Sk::Int32, Sk::Sint64, Sk::Double, Sk::Str, Sk::Bytes];

impl Sk {
    /// 0 varint, 1 64-bit, 2 length-delimited, 5 32-bit
    pub fn wire(self) -> u8 {
        match self {
            Sk::Bool | Sk::Int32 | Sk::Int64 | Sk::Uint32 | Sk::Uint64 | Sk::Sint32 | Sk::Sint64 => 0,
            Sk::Fixed64 | Sk::Sfixed64 | Sk::Double => 1,
            Sk::Fixed32 | Sk::Sfixed32 | Sk::Float => 5,
            Sk::Str | Sk::FastStr | Sk::Bytes | Sk::BytesVec => 2,
        }
    }
    pub fn packable(self) -> bool {
        self.wire() != 2
    }
    pub fn default(self) -> DV {
        match self {
            Sk::Bool => DV::Bool(false),
            Sk::Int32 | Sk::Sint32 | Sk::Sfixed32 => DV::I32(0),
            Sk::Int64 | Sk::Sint64 | Sk::Sfixed64 => DV::I64(0),
            Sk::Uint32 | Sk::Fixed32 => DV::U32(0),
            Sk::Uint64 | Sk::Fixed64 => DV::U64(0),
            Sk::Float => DV::F32(0),
            Sk::Double => DV::F64(0),
            Sk::Str | Sk::FastStr => DV::Str(String::new()),
            Sk::Bytes | Sk::BytesVec => DV::Bytes(vec![]),
        }
    }
}

#[derive(Clone, Debug, PartialEq, Serialize, Deserialize)]
pub enum DKind {
    Sc(Sk),
    Msg(Box<DSchema>),
    Group(Box<DSchema>),
}

#[derive(Clone, Debug, PartialEq, Serialize, Deserialize)]
pub enum DCard {
    /// always written (as generated code does for a required / non-default field)
    Single,
    Optional,
    Repeated,
    Packed,
    BTreeMap(Sk),
    HashMap(Sk),
}

#[derive(Clone, Debug, PartialEq, Serialize, Deserialize)]
pub struct DField {
    pub tag: u32,
    pub kind: DKind,
    pub card: DCard,
}

#[derive(Clone, Debug, PartialEq, Default, Serialize, Deserialize)]
pub struct DSchema {
    pub fields: Vec<DField>,
}

#[derive(Clone, Debug, PartialEq, Serialize, Deserialize)]
pub enum DV {
    Bool(bool),
    I32(i32),
    I64(i64),
    U32(u32),
    U64(u64),
    /// bit patterns, so that NaN payloads compare
    F32(u32),
    F64(u64),
    Str(String),
    Bytes(Vec<u8>),
    Msg(DMsg),
}

#[derive(Clone, Debug, PartialEq, Serialize, Deserialize)]
pub enum DFV {
    Single(DV),
    Opt(Option<DV>),
    Rep(Vec<DV>),
    /// entries sorted by the reference encoding of the key, keys unique
    Map(Vec<(DV, DV)>),
}

/// One value per schema field, in schema order.
#[derive(Clone, Debug, PartialEq, Default, Serialize, Deserialize)]
pub struct DMsg {
    pub vals: Vec<DFV>,
}

impl DSchema {
    pub fn empty_msg(&self) -> DMsg {
        DMsg {
            vals: self
                .fields
                .iter()
                .map(|f| match f.card {
                    DCard::Single => DFV::Single(f.kind.default()),
                    DCard::Optional => DFV::Opt(None),
                    DCard::Repeated | DCard::Packed => DFV::Rep(vec![]),
                    DCard::BTreeMap(_) | DCard::HashMap(_) => DFV::Map(vec![]),
                })
                .collect(),
        }
    }
    pub fn has_group(&self) -> bool {
        self.fields.iter().any(|f| match &f.kind {
            DKind::Group(_) => true,
            DKind::Msg(s) => s.has_group(),
            _ => false,
        })
    }
    pub fn has_map(&self) -> bool {
        self.fields.iter().any(|f| {
            matches!(f.card, DCard::BTreeMap(_) | DCard::HashMap(_))
                || match &f.kind {
                    DKind::Group(s) | DKind::Msg(s) => s.has_map(),
                    _ => false,
                }
        })
    }
    /// a group (at any level) one of whose members carries the group's own field number
    pub fn group_member_reuses_number(&self) -> bool {
        self.fields.iter().any(|f| match &f.kind {
            DKind::Group(s) => s.fields.iter().any(|g| g.tag == f.tag) || s.group_member_reuses_number(),
            DKind::Msg(s) => s.group_member_reuses_number(),
            _ => false,
        })
    }
    pub fn max_tag(&self) -> u32 {
        self.fields
            .iter()
            .map(|f| {
                f.tag.max(match &f.kind {
                    DKind::Group(s) | DKind::Msg(s) => s.max_tag(),
                    _ => 0,
                })
            })
            .max()
            .unwrap_or(0)
    }
}

impl DKind {
    pub fn default(&self) -> DV {
        match self {
            DKind::Sc(s) => s.default(),
            DKind::Msg(s) | DKind::Group(s) => DV::Msg(s.empty_msg()),
        }
    }
}

// ---------------------------------------------------------------------------------------------
// generators

pub fn arb_tag() -> BoxedStrategy<u32> {
    prop_oneof![
        6 => prop::sample::select(vec![1u32, 2, 3, 4, 15, 16, 17, 2047, 2048, 262143, 262144, 33554431, 33554432, 536870910, 536870911]),
        2 => 1u32..64,
        1 => 1u32..=536870911,
    ]
    .prop_filter("reserved range", |t| !(19000..=19999).contains(t))
    .boxed()
}

fn arb_sk() -> BoxedStrategy<Sk> {
    prop::sample::select(ALL_SK.to_vec()).boxed()
}

pub fn arb_schema(depth: u32) -> BoxedStrategy<DSchema> {
    let kind = if depth == 0 {
        arb_sk().prop_map(DKind::Sc).boxed()
    } else {
        prop_oneof![
            5 => arb_sk().prop_map(DKind::Sc),
            1 => arb_schema(depth - 1).prop_map(|s| DKind::Msg(Box::new(s))),
            2 => arb_schema(depth - 1).prop_map(|s| DKind::Group(Box::new(s))),
        ]
        .boxed()
    };
    let field = (arb_tag(), kind, 0u8..12, prop::sample::select(MAP_KEYS.to_vec()), prop::sample::select(MAP_VALS.to_vec())).prop_map(|(tag, kind, c, mk, mv)| {
        let (kind, card) = match (c, kind) {
            (0..=2, k) => (k, DCard::Single),
            (3..=4, k) => (k, DCard::Optional),
            (5..=6, k) => (k, DCard::Repeated),
            (7..=8, DKind::Sc(s)) if s.packable() => (DKind::Sc(s), DCard::Packed),
            (7..=8, k) => (k, DCard::Repeated),
            // maps: scalar or message values from the instantiated sets; never groups
            (9, DKind::Msg(s)) => (DKind::Msg(s), DCard::BTreeMap(mk)),
            (10, DKind::Msg(s)) => (DKind::Msg(s), DCard::HashMap(mk)),
            (9, DKind::Sc(_)) => (DKind::Sc(mv), DCard::BTreeMap(mk)),
            (10, DKind::Sc(_)) => (DKind::Sc(mv), DCard::HashMap(mk)),
            (_, k) => (k, DCard::Optional),
        };
        DField { tag, kind, card }
    });
    prop::collection::vec(field, 1..7)
        .prop_map(|mut fields| {
            // field numbers are unique within one message
            let mut seen = std::collections::BTreeSet::new();
            fields.retain(|f| seen.insert(f.tag));
            DSchema { fields }
        })
        .boxed()
}

fn arb_text() -> BoxedStrategy<String> {
    prop_oneof![4 => "[ -~\u{e9}\u{4e2d}]{0,12}", 1 => "[a-z]{127,130}", 1 => Just(String::new())].boxed()
}

pub fn arb_sc(sk: Sk) -> BoxedStrategy<DV> {
    use crate::tval::{arb_i32, arb_i64};
    match sk {
        Sk::Bool => any::<bool>().prop_map(DV::Bool).boxed(),
        Sk::Int32 | Sk::Sint32 | Sk::Sfixed32 => arb_i32().prop_map(DV::I32).boxed(),
        Sk::Int64 | Sk::Sint64 | Sk::Sfixed64 => arb_i64().prop_map(DV::I64).boxed(),
        Sk::Uint32 | Sk::Fixed32 => prop_oneof![arb_i32().prop_map(|v| v as u32), prop::sample::select(vec![0u32, 1, 127, 128, u32::MAX])].prop_map(DV::U32).boxed(),
        Sk::Uint64 | Sk::Fixed64 => prop_oneof![arb_i64().prop_map(|v| v as u64), prop::sample::select(vec![0u64, 1, 127, 128, u64::MAX])].prop_map(DV::U64).boxed(),
        Sk::Float => prop_oneof![any::<u32>(), prop::sample::select(vec![0u32, 0x8000_0000, 1.5f32.to_bits(), f32::NAN.to_bits(), f32::INFINITY.to_bits(), 1])].prop_map(DV::F32).boxed(),
        Sk::Double => prop_oneof![any::<u64>(), prop::sample::select(vec![0u64, 1 << 63, 1.5f64.to_bits(), f64::NAN.to_bits(), f64::NEG_INFINITY.to_bits(), 1])].prop_map(DV::F64).boxed(),
        Sk::Str | Sk::FastStr => arb_text().prop_map(DV::Str).boxed(),
        Sk::Bytes | Sk::BytesVec => prop_oneof![4 => prop::collection::vec(any::<u8>(), 0..20), 1 => prop::collection::vec(any::<u8>(), 127..130)].prop_map(DV::Bytes).boxed(),
    }
}

fn arb_kind_value(k: &DKind) -> BoxedStrategy<DV> {
    match k {
        DKind::Sc(s) => arb_sc(*s),
        DKind::Msg(s) | DKind::Group(s) => arb_msg(s).prop_map(DV::Msg).boxed(),
    }
}

pub fn arb_msg(schema: &DSchema) -> BoxedStrategy<DMsg> {
    let mut parts: Vec<BoxedStrategy<DFV>> = vec![];
    for f in &schema.fields {
        let v = arb_kind_value(&f.kind);
        parts.push(match &f.card {
            DCard::Single => v.prop_map(DFV::Single).boxed(),
            DCard::Optional => prop::option::weighted(0.7, v).prop_map(DFV::Opt).boxed(),
            DCard::Repeated | DCard::Packed => prop::collection::vec(v, 0..4).prop_map(DFV::Rep).boxed(),
            DCard::BTreeMap(k) | DCard::HashMap(k) => {
                let k = *k;
                prop::collection::vec((arb_sc(k), v), 0..4)
                    .prop_map(move |es| {
                        let mut seen = std::collections::BTreeSet::new();
                        let mut es: Vec<(DV, DV)> = es.into_iter().filter(|(a, _)| seen.insert(key_bytes(k, a))).collect();
                        es.sort_by_key(|(a, _)| key_bytes(k, a));
                        DFV::Map(es)
                    })
                    .boxed()
            }
        });
    }
    parts.prop_map(|vals| DMsg { vals }).boxed()
}

pub fn key_bytes(k: Sk, v: &DV) -> Vec<u8> {
    let mut out = vec![];
    put_scalar(&mut out, k, v);
    out
}

// ---------------------------------------------------------------------------------------------
// reference codec (written from the encoding guide; shares nothing with pilota)

pub fn put_varint(out: &mut Vec<u8>, mut n: u64) {
    while n >= 0x80 {
        out.push((n as u8) | 0x80);
        n >>= 7;
    }
    out.push(n as u8);
}

pub fn put_key(out: &mut Vec<u8>, number: u32, wire: u8) {
    put_varint(out, ((number as u64) << 3) | wire as u64);
}

/// the payload of a scalar, without key
fn put_scalar(out: &mut Vec<u8>, sk: Sk, v: &DV) {
    match (sk, v) {
        (Sk::Bool, DV::Bool(b)) => out.push(*b as u8),
        (Sk::Int32, DV::I32(x)) => put_varint(out, *x as i64 as u64),
        (Sk::Int64, DV::I64(x)) => put_varint(out, *x as u64),
        (Sk::Uint32, DV::U32(x)) => put_varint(out, *x as u64),
        (Sk::Uint64, DV::U64(x)) => put_varint(out, *x),
        (Sk::Sint32, DV::I32(x)) => put_varint(out, (((*x) << 1) ^ ((*x) >> 31)) as u32 as u64),
        (Sk::Sint64, DV::I64(x)) => put_varint(out, (((*x) << 1) ^ ((*x) >> 63)) as u64),
        (Sk::Fixed32, DV::U32(x)) => out.extend_from_slice(&x.to_le_bytes()),
        (Sk::Sfixed32, DV::I32(x)) => out.extend_from_slice(&x.to_le_bytes()),
        (Sk::Float, DV::F32(x)) => out.extend_from_slice(&x.to_le_bytes()),
        (Sk::Fixed64, DV::U64(x)) => out.extend_from_slice(&x.to_le_bytes()),
        (Sk::Sfixed64, DV::I64(x)) => out.extend_from_slice(&x.to_le_bytes()),
        (Sk::Double, DV::F64(x)) => out.extend_from_slice(&x.to_le_bytes()),
        (Sk::Str | Sk::FastStr, DV::Str(s)) => {
            put_varint(out, s.len() as u64);
            out.extend_from_slice(s.as_bytes());
        }
        (Sk::Bytes | Sk::BytesVec, DV::Bytes(b)) => {
            put_varint(out, b.len() as u64);
            out.extend_from_slice(b);
        }
        (k, v) => panic!("value {:?} does not fit kind {:?}", v, k),
    }
}

fn put_one(out: &mut Vec<u8>, tag: u32, kind: &DKind, v: &DV) {
    match (kind, v) {
        (DKind::Sc(s), v) => {
            put_key(out, tag, s.wire());
            put_scalar(out, *s, v);
        }
        (DKind::Msg(s), DV::Msg(m)) => {
            let body = ref_encode(s, m);
            put_key(out, tag, 2);
            put_varint(out, body.len() as u64);
            out.extend_from_slice(&body);
        }
        (DKind::Group(s), DV::Msg(m)) => {
            put_key(out, tag, 3);
            out.extend_from_slice(&ref_encode(s, m));
            put_key(out, tag, 4);
        }
        (k, v) => panic!("value {:?} does not fit kind {:?}", v, k),
    }
}

/// Canonical reference encoding: fields in schema order, every present value written (defaults
/// too, inside map entries as well), packed fields packed.
pub fn ref_encode(schema: &DSchema, m: &DMsg) -> Vec<u8> {
    let mut out = vec![];
    for (f, v) in schema.fields.iter().zip(&m.vals) {
        match (&f.card, v) {
            (DCard::Single, DFV::Single(v)) => put_one(&mut out, f.tag, &f.kind, v),
            (DCard::Optional, DFV::Opt(Some(v))) => put_one(&mut out, f.tag, &f.kind, v),
            (DCard::Optional, DFV::Opt(None)) => {}
            (DCard::Repeated, DFV::Rep(vs)) => {
                for v in vs {
                    put_one(&mut out, f.tag, &f.kind, v);
                }
            }
            (DCard::Packed, DFV::Rep(vs)) => {
                if let (DKind::Sc(s), false) = (&f.kind, vs.is_empty()) {
                    let mut body = vec![];
                    for v in vs {
                        put_scalar(&mut body, *s, v);
                    }
                    put_key(&mut out, f.tag, 2);
                    put_varint(&mut out, body.len() as u64);
                    out.extend_from_slice(&body);
                }
            }
            (DCard::BTreeMap(k) | DCard::HashMap(k), DFV::Map(es)) => {
                for (a, b) in es {
                    let mut body = vec![];
                    put_key(&mut body, 1, k.wire());
                    put_scalar(&mut body, *k, a);
                    put_one(&mut body, 2, &f.kind, b);
                    put_key(&mut out, f.tag, 2);
                    put_varint(&mut out, body.len() as u64);
                    out.extend_from_slice(&body);
                }
            }
            (c, v) => panic!("value {:?} does not fit cardinality {:?}", v, c),
        }
    }
    out
}

struct Dec<'a> {
    buf: &'a [u8],
    pos: usize,
}

impl<'a> Dec<'a> {
    fn varint(&mut self) -> Result<u64, String> {
        let mut v = 0u64;
        for i in 0..10 {
            let b = *self.buf.get(self.pos).ok_or("varint cut short")?;
            self.pos += 1;
            v |= ((b & 0x7f) as u64) << (7 * i);
            if b < 0x80 {
                return Ok(v);
            }
        }
        Err("varint longer than ten bytes".into())
    }
    fn take(&mut self, n: usize) -> Result<&'a [u8], String> {
        if self.buf.len() - self.pos < n {
            return Err(format!("{} bytes announced, {} left", n, self.buf.len() - self.pos));
        }
        let s = &self.buf[self.pos..self.pos + n];
        self.pos += n;
        Ok(s)
    }
    fn scalar(&mut self, sk: Sk) -> Result<DV, String> {
        Ok(match sk {
            Sk::Bool => DV::Bool(self.varint()? != 0),
            Sk::Int32 => DV::I32(self.varint()? as i32),
            Sk::Int64 => DV::I64(self.varint()? as i64),
            Sk::Uint32 => DV::U32(self.varint()? as u32),
            Sk::Uint64 => DV::U64(self.varint()?),
            Sk::Sint32 => {
                let n = self.varint()? as u32;
                DV::I32(((n >> 1) as i32) ^ -((n & 1) as i32))
            }
            Sk::Sint64 => {
                let n = self.varint()?;
                DV::I64(((n >> 1) as i64) ^ -((n & 1) as i64))
            }
            Sk::Fixed32 => DV::U32(u32::from_le_bytes(self.take(4)?.try_into().unwrap())),
            Sk::Sfixed32 => DV::I32(i32::from_le_bytes(self.take(4)?.try_into().unwrap())),
            Sk::Float => DV::F32(u32::from_le_bytes(self.take(4)?.try_into().unwrap())),
            Sk::Fixed64 => DV::U64(u64::from_le_bytes(self.take(8)?.try_into().unwrap())),
            Sk::Sfixed64 => DV::I64(i64::from_le_bytes(self.take(8)?.try_into().unwrap())),
            Sk::Double => DV::F64(u64::from_le_bytes(self.take(8)?.try_into().unwrap())),
            Sk::Str | Sk::FastStr => {
                let n = self.varint()? as usize;
                DV::Str(String::from_utf8(self.take(n)?.to_vec()).map_err(|_| "invalid utf-8 in string")?)
            }
            Sk::Bytes | Sk::BytesVec => {
                let n = self.varint()? as usize;
                DV::Bytes(self.take(n)?.to_vec())
            }
        })
    }
}

/// Schema-directed reference decoder with merge semantics; `end_group` = Some(tag) while inside
/// a group with that field number. Unknown fields are an error: the interpreter writes none.
fn ref_merge(schema: &DSchema, d: &mut Dec, into: &mut DMsg, end_group: Option<u32>, depth: u32) -> Result<(), String> {
    if depth > 100 {
        return Err("nested too deep".into());
    }
    loop {
        if d.pos == d.buf.len() {
            return if end_group.is_some() { Err("input ends inside a group".into()) } else { Ok(()) };
        }
        let key = d.varint()?;
        let (num, wire) = ((key >> 3) as u32, (key & 7) as u8);
        if wire == 4 {
            return if end_group == Some(num) { Ok(()) } else { Err(format!("stray end-group {}", num)) };
        }
        let Some(i) = schema.fields.iter().position(|f| f.tag == num) else { return Err(format!("undeclared field {}", num)) };
        let f = &schema.fields[i];
        let read_one = |d: &mut Dec, wire: u8, kind: &DKind, existing: Option<&DV>| -> Result<DV, String> {
            match kind {
                DKind::Sc(s) => {
                    if wire != s.wire() {
                        return Err(format!("field {} has wire type {}, expected {}", num, wire, s.wire()));
                    }
                    d.scalar(*s)
                }
                DKind::Msg(s) => {
                    if wire != 2 {
                        return Err(format!("message field {} has wire type {}", num, wire));
                    }
                    let n = d.varint()? as usize;
                    let body = d.take(n)?;
                    let mut m = match existing {
                        Some(DV::Msg(m)) => m.clone(),
                        _ => s.empty_msg(),
                    };
                    ref_merge(s, &mut Dec { buf: body, pos: 0 }, &mut m, None, depth + 1)?;
                    Ok(DV::Msg(m))
                }
                DKind::Group(s) => {
                    if wire != 3 {
                        return Err(format!("group field {} has wire type {}", num, wire));
                    }
                    let mut m = match existing {
                        Some(DV::Msg(m)) => m.clone(),
                        _ => s.empty_msg(),
                    };
                    ref_merge(s, d, &mut m, Some(num), depth + 1)?;
                    Ok(DV::Msg(m))
                }
            }
        };
        match (&f.card, &mut into.vals[i]) {
            (DCard::Single, DFV::Single(v)) => {
                let n = read_one(d, wire, &f.kind, Some(&*v))?;
                *v = n;
            }
            (DCard::Optional, DFV::Opt(v)) => {
                let n = read_one(d, wire, &f.kind, v.as_ref())?;
                *v = Some(n);
            }
            (DCard::Repeated | DCard::Packed, DFV::Rep(vs)) => match &f.kind {
                DKind::Sc(s) if s.packable() && wire == 2 => {
                    let n = d.varint()? as usize;
                    let body = d.take(n)?;
                    let mut pd = Dec { buf: body, pos: 0 };
                    while pd.pos < body.len() {
                        vs.push(pd.scalar(*s)?);
                    }
                }
                k => vs.push(read_one(d, wire, k, None)?),
            },
            (DCard::BTreeMap(k) | DCard::HashMap(k), DFV::Map(es)) => {
                if wire != 2 {
                    return Err(format!("map field {} has wire type {}", num, wire));
                }
                let n = d.varint()? as usize;
                let body = d.take(n)?;
                let mut ed = Dec { buf: body, pos: 0 };
                let (mut key, mut val) = (k.default(), f.kind.default());
                while ed.pos < body.len() {
                    let ek = ed.varint()?;
                    match ((ek >> 3) as u32, (ek & 7) as u8) {
                        (1, w) if w == k.wire() => key = ed.scalar(*k)?,
                        (2, w) => val = read_one(&mut ed, w, &f.kind, Some(&val))?,
                        (n, w) => return Err(format!("map entry record {}/{}", n, w)),
                    }
                }
                let kb = key_bytes(*k, &key);
                es.retain(|(a, _)| key_bytes(*k, a) != kb);
                es.push((key, val));
                es.sort_by_key(|(a, _)| key_bytes(*k, a));
            }
            (c, v) => return Err(format!("shape: {:?} / {:?}", c, v)),
        }
    }
}

pub fn ref_decode(schema: &DSchema, bytes: &[u8]) -> Result<DMsg, String> {
    let mut m = schema.empty_msg();
    ref_merge(schema, &mut Dec { buf: bytes, pos: 0 }, &mut m, None, 0)?;
    Ok(m)
}

/// Order-insensitive form: map entries sorted by key (they already are when generated).
pub fn canon(schema: &DSchema, m: &DMsg) -> DMsg {
    let mut out = m.clone();
    for (f, v) in schema.fields.iter().zip(out.vals.iter_mut()) {
        let sub = |v: &mut DV| {
            if let (DKind::Msg(s) | DKind::Group(s), DV::Msg(x)) = (&f.kind, &mut *v) {
                *x = canon(s, x);
            }
        };
        match v {
            DFV::Single(x) => sub(x),
            DFV::Opt(Some(x)) => sub(x),
            DFV::Opt(None) => {}
            DFV::Rep(xs) => xs.iter_mut().for_each(sub),
            DFV::Map(es) => {
                es.iter_mut().for_each(|(_, b)| sub(b));
                // inside a map entry a value equal to the default may be omitted by the encoder,
                // and a zero of either sign is "the default": its sign is not carried
                for (_, b) in es.iter_mut() {
                    match b {
                        DV::F32(0x8000_0000) => *b = DV::F32(0),
                        DV::F64(0x8000_0000_0000_0000) => *b = DV::F64(0),
                        _ => {}
                    }
                }
                if let DCard::BTreeMap(k) | DCard::HashMap(k) = &f.card {
                    let k = *k;
                    es.sort_by_key(|(a, _)| key_bytes(k, a));
                }
            }
        }
    }
    out
}

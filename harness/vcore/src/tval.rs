//! Thrift value model (independent of pilota) and proptest strategies for it.
use proptest::prelude::*;
use serde::{Deserialize, Serialize};

#[derive(Clone, Copy, Debug, PartialEq, Eq, Hash, PartialOrd, Ord, Serialize, Deserialize)]
pub enum TT {
    Bool,
    I8,
    Double,
    I16,
    I32,
    I64,
    Binary,
    Struct,
    Map,
    Set,
    List,
    Uuid,
}

pub const ALL_TT: [TT; 12] = [
    TT::Bool,
    TT::I8,
    TT::Double,
    TT::I16,
    TT::I32,
    TT::I64,
    TT::Binary,
    TT::Struct,
    TT::Map,
    TT::Set,
    TT::List,
    TT::Uuid,
];

impl TT {
    /// Type code of the binary protocol (thrift-binary-protocol.md).
    pub fn code(self) -> u8 {
        match self {
            TT::Bool => 2,
            TT::I8 => 3,
            TT::Double => 4,
            TT::I16 => 6,
            TT::I32 => 8,
            TT::I64 => 10,
            TT::Binary => 11,
            TT::Struct => 12,
            TT::Map => 13,
            TT::Set => 14,
            TT::List => 15,
            TT::Uuid => 16,
        }
    }
    pub fn from_code(c: u8) -> Option<TT> {
        ALL_TT.iter().copied().find(|t| t.code() == c)
    }
    /// Element / field type code of the compact protocol (bool = 1 as "true"/element type).
    pub fn compact_code(self) -> u8 {
        match self {
            TT::Bool => 1,
            TT::I8 => 3,
            TT::I16 => 4,
            TT::I32 => 5,
            TT::I64 => 6,
            TT::Double => 7,
            TT::Binary => 8,
            TT::List => 9,
            TT::Set => 10,
            TT::Map => 11,
            TT::Struct => 12,
            TT::Uuid => 13,
        }
    }
    pub fn from_compact_code(c: u8) -> Option<TT> {
        match c {
            1 | 2 => Some(TT::Bool),
            3 => Some(TT::I8),
            4 => Some(TT::I16),
            5 => Some(TT::I32),
            6 => Some(TT::I64),
            7 => Some(TT::Double),
            8 => Some(TT::Binary),
            9 => Some(TT::List),
            10 => Some(TT::Set),
            11 => Some(TT::Map),
            12 => Some(TT::Struct),
            13 => Some(TT::Uuid),
            _ => None,
        }
    }
    pub fn is_container(self) -> bool {
        matches!(self, TT::Struct | TT::Map | TT::Set | TT::List)
    }
}

#[derive(Clone, PartialEq, Eq, Hash, Serialize, Deserialize)]
pub enum TVal {
    Bool(bool),
    I8(i8),
    I16(i16),
    I32(i32),
    I64(i64),
    /// bit pattern, so NaN payloads compare exactly
    Double(u64),
    Binary(Vec<u8>),
    Uuid([u8; 16]),
    Struct(Vec<(i16, TVal)>),
    List(TT, Vec<TVal>),
    Set(TT, Vec<TVal>),
    Map(TT, TT, Vec<(TVal, TVal)>),
}

impl std::fmt::Debug for TVal {
    fn fmt(&self, f: &mut std::fmt::Formatter<'_>) -> std::fmt::Result {
        match self {
            TVal::Bool(b) => write!(f, "{}", b),
            TVal::I8(v) => write!(f, "{}i8", v),
            TVal::I16(v) => write!(f, "{}i16", v),
            TVal::I32(v) => write!(f, "{}i32", v),
            TVal::I64(v) => write!(f, "{}i64", v),
            TVal::Double(b) => write!(f, "f64:{:#018x}", b),
            TVal::Binary(b) => {
                if b.len() <= 24 {
                    write!(f, "bin\"{}\"", hex(b))
                } else {
                    write!(f, "bin[len={} {}..]", b.len(), hex(&b[..8]))
                }
            }
            TVal::Uuid(u) => write!(f, "uuid:{}", hex(u)),
            TVal::Struct(fs) => {
                write!(f, "{{")?;
                for (i, (id, v)) in fs.iter().enumerate() {
                    if i > 0 {
                        write!(f, ", ")?;
                    }
                    write!(f, "{}: {:?}", id, v)?;
                }
                write!(f, "}}")
            }
            TVal::List(t, es) => {
                write!(f, "list<{:?}>", t)?;
                f.debug_list().entries(es.iter()).finish()
            }
            TVal::Set(t, es) => {
                write!(f, "set<{:?}>", t)?;
                f.debug_list().entries(es.iter()).finish()
            }
            TVal::Map(k, v, es) => {
                write!(f, "map<{:?},{:?}>", k, v)?;
                f.debug_map().entries(es.iter().map(|(a, b)| (a, b))).finish()
            }
        }
    }
}

pub fn hex(b: &[u8]) -> String {
    let mut s = String::with_capacity(b.len() * 2);
    for x in b {
        s.push_str(&format!("{:02x}", x));
    }
    s
}

pub fn unhex(s: &str) -> Vec<u8> {
    (0..s.len() / 2)
        .map(|i| u8::from_str_radix(&s[2 * i..2 * i + 2], 16).unwrap())
        .collect()
}

impl TVal {
    pub fn tt(&self) -> TT {
        match self {
            TVal::Bool(_) => TT::Bool,
            TVal::I8(_) => TT::I8,
            TVal::I16(_) => TT::I16,
            TVal::I32(_) => TT::I32,
            TVal::I64(_) => TT::I64,
            TVal::Double(_) => TT::Double,
            TVal::Binary(_) => TT::Binary,
            TVal::Uuid(_) => TT::Uuid,
            TVal::Struct(_) => TT::Struct,
            TVal::List(..) => TT::List,
            TVal::Set(..) => TT::Set,
            TVal::Map(..) => TT::Map,
        }
    }
    pub fn depth(&self) -> usize {
        match self {
            TVal::Struct(fs) => 1 + fs.iter().map(|(_, v)| v.depth()).max().unwrap_or(0),
            TVal::List(_, es) | TVal::Set(_, es) => {
                1 + es.iter().map(|v| v.depth()).max().unwrap_or(0)
            }
            TVal::Map(_, _, es) => {
                1 + es
                    .iter()
                    .map(|(k, v)| k.depth().max(v.depth()))
                    .max()
                    .unwrap_or(0)
            }
            _ => 0,
        }
    }
    /// Visit every node.
    pub fn walk<'a>(&'a self, f: &mut dyn FnMut(&'a TVal)) {
        f(self);
        match self {
            TVal::Struct(fs) => fs.iter().for_each(|(_, v)| v.walk(f)),
            TVal::List(_, es) | TVal::Set(_, es) => es.iter().for_each(|v| v.walk(f)),
            TVal::Map(_, _, es) => es.iter().for_each(|(k, v)| {
                k.walk(f);
                v.walk(f)
            }),
            _ => {}
        }
    }
    /// Empty maps do not carry key/value types in the compact protocol; normalise them away.
    pub fn normalized(&self) -> TVal {
        match self {
            TVal::Struct(fs) => TVal::Struct(fs.iter().map(|(i, v)| (*i, v.normalized())).collect()),
            TVal::List(t, es) => TVal::List(*t, es.iter().map(|v| v.normalized()).collect()),
            TVal::Set(t, es) => TVal::Set(*t, es.iter().map(|v| v.normalized()).collect()),
            TVal::Map(k, v, es) => {
                if es.is_empty() {
                    TVal::Map(TT::Bool, TT::Bool, vec![])
                } else {
                    TVal::Map(
                        *k,
                        *v,
                        es.iter().map(|(a, b)| (a.normalized(), b.normalized())).collect(),
                    )
                }
            }
            o => o.clone(),
        }
    }
    pub fn all_binaries_utf8(&self) -> bool {
        let mut ok = true;
        self.walk(&mut |v| {
            if let TVal::Binary(b) = v {
                if std::str::from_utf8(b).is_err() {
                    ok = false;
                }
            }
        });
        ok
    }
    pub fn fingerprint(&self) -> u64 {
        use std::hash::{Hash, Hasher};
        let mut h = std::collections::hash_map::DefaultHasher::new();
        self.hash(&mut h);
        h.finish()
    }
}

/// Classes used by the evidence histograms.
#[derive(Default, Debug, Clone)]
pub struct Shape {
    pub sibling_after_nested_struct: bool,
    pub has_double: bool,
    pub has_uuid: bool,
    pub big_payload: bool,
    pub long_form_id: bool,
    pub negative_id: bool,
    pub empty_map: bool,
    pub bool_field: bool,
    pub bool_elem: bool,
    pub long_collection: bool,
    pub has_map: bool,
    pub has_container: bool,
    pub struct_levels: usize,
}

pub fn shape_of(v: &TVal) -> Shape {
    let mut s = Shape::default();
    fn levels(v: &TVal) -> usize {
        match v {
            TVal::Struct(fs) => 1 + fs.iter().map(|(_, v)| levels(v)).max().unwrap_or(0),
            TVal::List(_, es) | TVal::Set(_, es) => es.iter().map(levels).max().unwrap_or(0),
            TVal::Map(_, _, es) => es.iter().map(|(k, v)| levels(k).max(levels(v))).max().unwrap_or(0),
            _ => 0,
        }
    }
    fn contains_struct(v: &TVal) -> bool {
        let mut r = false;
        v.walk(&mut |x| {
            if matches!(x, TVal::Struct(_)) {
                r = true
            }
        });
        r
    }
    s.struct_levels = levels(v);
    v.walk(&mut |x| match x {
        TVal::Double(_) => s.has_double = true,
        TVal::Uuid(_) => s.has_uuid = true,
        TVal::Binary(b) if b.len() >= 4096 => s.big_payload = true,
        TVal::Struct(fs) => {
            s.has_container = true;
            let mut last = 0i32;
            let mut seen_nested = false;
            for (id, fv) in fs {
                let d = *id as i32 - last;
                if !(d > 0 && d <= 15) {
                    s.long_form_id = true;
                }
                if *id < 0 {
                    s.negative_id = true;
                }
                last = *id as i32;
                if seen_nested {
                    s.sibling_after_nested_struct = true;
                }
                if contains_struct(fv) {
                    seen_nested = true;
                }
                if matches!(fv, TVal::Bool(_)) {
                    s.bool_field = true;
                }
            }
        }
        TVal::List(t, es) | TVal::Set(t, es) => {
            s.has_container = true;
            if *t == TT::Bool && !es.is_empty() {
                s.bool_elem = true;
            }
            if es.len() >= 15 {
                s.long_collection = true;
            }
        }
        TVal::Map(k, vv, es) => {
            s.has_container = true;
            s.has_map = true;
            if es.is_empty() {
                s.empty_map = true;
            }
            if (*k == TT::Bool || *vv == TT::Bool) && !es.is_empty() {
                s.bool_elem = true;
            }
            if es.len() >= 15 {
                s.long_collection = true;
            }
        }
        _ => {}
    });
    s
}

// ---------------------------------------------------------------------------------------------
// strategies

pub fn arb_i16() -> BoxedStrategy<i16> {
    prop_oneof![
        3 => any::<i16>(),
        2 => prop::sample::select(vec![0i16, 1, -1, 63, 64, -64, -65, 127, 128, 8191, 8192, -8192, -8193, i16::MAX, i16::MIN]),
    ]
    .boxed()
}
pub fn arb_i32() -> BoxedStrategy<i32> {
    prop_oneof![
        3 => any::<i32>(),
        1 => (0u32..31, any::<bool>(), -1i32..=1).prop_map(|(k, neg, d)| {
            let b = (1i64 << k) + d as i64;
            (if neg { -b } else { b }) as i32
        }),
        1 => prop::sample::select(vec![0i32, 1, -1, i32::MAX, i32::MIN, i32::MAX - 1, i32::MIN + 1]),
    ]
    .boxed()
}
pub fn arb_i64() -> BoxedStrategy<i64> {
    prop_oneof![
        3 => any::<i64>(),
        1 => (0u32..63, any::<bool>(), -1i64..=1).prop_map(|(k, neg, d)| {
            let b = (1i128 << k) + d as i128;
            (if neg { -b } else { b }) as i64
        }),
        1 => prop::sample::select(vec![0i64, 1, -1, i64::MAX, i64::MIN, i64::MAX - 1, i64::MIN + 1]),
    ]
    .boxed()
}
pub fn arb_double_bits() -> BoxedStrategy<u64> {
    prop_oneof![
        3 => any::<u64>(),
        2 => prop::sample::select(vec![
            0u64,
            0x8000_0000_0000_0000,
            1.5f64.to_bits(),
            (-2.25f64).to_bits(),
            f64::INFINITY.to_bits(),
            f64::NEG_INFINITY.to_bits(),
            f64::NAN.to_bits(),
            0x7ff0_0000_0000_0001,
            0xfff8_0000_dead_beef,
            f64::MIN_POSITIVE.to_bits(),
            1,
            f64::MAX.to_bits(),
            0x0102_0304_0506_0708,
        ]),
    ]
    .boxed()
}

/// Payload: (length class, fill seed). Large payloads use a cheap deterministic fill so that
/// generation and shrinking stay fast.
pub fn arb_payload(utf8: bool, max_big: usize) -> BoxedStrategy<Vec<u8>> {
    let small = if utf8 {
        "[ -~\u{e9}\u{4e2d}]{0,24}".prop_map(|s: String| s.into_bytes()).boxed()
    } else {
        prop::collection::vec(any::<u8>(), 0..40).boxed()
    };
    // lengths around the zero-copy threshold, and lengths whose varint prefix changes width
    // (the short ones are cheap and always in)
    let bigs: Vec<usize> = [63usize, 64, 127, 128, 129, 255, 256, 16383, 16384, 16385, 4095, 4096, 4097, 8192, 65536]
        .iter()
        .copied()
        .filter(|l| *l <= max_big.max(300))
        .collect();
    let big = (prop::sample::select(bigs), any::<u8>()).prop_map(move |(len, seed)| {
        (0..len)
            .map(|i| {
                if utf8 {
                    b'a' + ((i as u32 * 7 + seed as u32) % 26) as u8
                } else {
                    (i as u32 * 7 + seed as u32) as u8
                }
            })
            .collect::<Vec<u8>>()
    });
    prop_oneof![12 => small, 1 => big].boxed()
}

#[derive(Clone, Copy, Debug)]
pub struct GenCfg {
    pub utf8: bool,
    pub max_big: usize,
    pub max_children: usize,
}

impl Default for GenCfg {
    fn default() -> Self {
        GenCfg {
            utf8: false,
            max_big: 8192,
            max_children: 6,
        }
    }
}

pub fn arb_leaf_tt() -> BoxedStrategy<TT> {
    prop::sample::select(vec![
        TT::Bool,
        TT::I8,
        TT::I16,
        TT::I32,
        TT::I64,
        TT::Double,
        TT::Binary,
        TT::Uuid,
    ])
    .boxed()
}

pub fn arb_tt(depth: u32) -> BoxedStrategy<TT> {
    if depth == 0 {
        arb_leaf_tt()
    } else {
        prop_oneof![
            4 => arb_leaf_tt(),
            6 => prop::sample::select(vec![TT::Struct, TT::Struct, TT::List, TT::Set, TT::Map]),
        ]
        .boxed()
    }
}

/// Field-id sequences: ascending small deltas, gaps, negatives, extremes, arbitrary order.
pub fn arb_field_ids(n: usize) -> BoxedStrategy<Vec<i16>> {
    if n == 0 {
        return Just(vec![]).boxed();
    }
    prop_oneof![
        // ascending with small deltas (short-form headers)
        4 => (0i16..20, prop::collection::vec(1i16..=15, n)).prop_map(|(start, ds)| {
            let mut cur = start;
            ds.into_iter()
                .map(|d| {
                    cur = cur.saturating_add(d);
                    cur
                })
                .collect()
        }),
        // ascending with large gaps (> 15)
        2 => (0i16..100, prop::collection::vec(1i16..2000, n)).prop_map(|(start, ds)| {
            let mut cur = start;
            ds.into_iter()
                .map(|d| {
                    cur = cur.saturating_add(d);
                    cur
                })
                .collect()
        }),
        // anything at all, incl. negative, descending, extremes, zero
        3 => prop::collection::vec(arb_i16(), n),
    ]
    .boxed()
}

pub fn arb_of(tt: TT, depth: u32, cfg: GenCfg) -> BoxedStrategy<TVal> {
    match tt {
        TT::Bool => any::<bool>().prop_map(TVal::Bool).boxed(),
        TT::I8 => any::<i8>().prop_map(TVal::I8).boxed(),
        TT::I16 => arb_i16().prop_map(TVal::I16).boxed(),
        TT::I32 => arb_i32().prop_map(TVal::I32).boxed(),
        TT::I64 => arb_i64().prop_map(TVal::I64).boxed(),
        TT::Double => arb_double_bits().prop_map(TVal::Double).boxed(),
        TT::Binary => arb_payload(cfg.utf8, cfg.max_big).prop_map(TVal::Binary).boxed(),
        TT::Uuid => any::<[u8; 16]>().prop_map(TVal::Uuid).boxed(),
        TT::Struct => {
            let d = depth.saturating_sub(1);
            (0..=cfg.max_children)
                .prop_flat_map(move |n| {
                    (
                        arb_field_ids(n),
                        prop::collection::vec(arb_tt(d).prop_flat_map(move |t| arb_of(t, d, cfg)), n),
                    )
                })
                .prop_map(|(ids, vals)| TVal::Struct(ids.into_iter().zip(vals).collect()))
                .boxed()
        }
        TT::List | TT::Set => {
            let d = depth.saturating_sub(1);
            let is_list = tt == TT::List;
            arb_tt(d)
                .prop_flat_map(move |et| {
                    let max = if et.is_container() || et == TT::Binary { cfg.max_children } else { 40 };
                    // small sizes most of the time; 15..=max to reach the long-form size header
                    let len = if max > 16 {
                        // 15: long-form size header; 64 / 128: the varint of the size (and of a
                        // zig-zagged size) changes width
                        prop_oneof![20 => 0usize..=6, 4 => 13usize..=17, 4 => 0usize..=max, 1 => prop::sample::select(vec![63usize, 64, 65, 127, 128, 129])].boxed()
                    } else {
                        (0usize..=max).boxed()
                    };
                    (Just(et), len.prop_flat_map(move |n| prop::collection::vec(arb_of(et, d, cfg), n)))
                })
                .prop_map(move |(et, es)| if is_list { TVal::List(et, es) } else { TVal::Set(et, es) })
                .boxed()
        }
        TT::Map => {
            let d = depth.saturating_sub(1);
            (arb_tt(d), arb_tt(d))
                .prop_flat_map(move |(kt, vt)| {
                    let heavy = kt.is_container() || vt.is_container();
                    let max = if heavy { cfg.max_children.min(4) } else { 18 };
                    let len = if max > 16 {
                        prop_oneof![20 => 0usize..=4, 4 => 14usize..=18, 1 => prop::sample::select(vec![63usize, 64, 65, 127, 128, 129])].boxed()
                    } else {
                        (0usize..=max).boxed()
                    };
                    (
                        Just(kt),
                        Just(vt),
                        len.prop_flat_map(move |n| {
                            prop::collection::vec((arb_of(kt, d, cfg), arb_of(vt, d, cfg)), n)
                        }),
                    )
                })
                .prop_map(|(kt, vt, es)| TVal::Map(kt, vt, es))
                .boxed()
        }
    }
}

pub fn arb_any(depth: u32, cfg: GenCfg) -> BoxedStrategy<TVal> {
    arb_tt(depth).prop_flat_map(move |t| arb_of(t, depth, cfg)).boxed()
}

/// A chain of `n` nested structs (C07 depth probes): {1: {1: ... {1: leaf} } } with optional
/// container hops.
pub fn struct_chain(n: usize, leaf: TVal) -> TVal {
    let mut v = leaf;
    for i in 0..n {
        v = TVal::Struct(vec![((i % 7 + 1) as i16, v)]);
    }
    v
}

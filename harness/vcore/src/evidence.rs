//! Evidence recording, violation reporting and the proptest driver shared by all checks.
use proptest::strategy::{Strategy, ValueTree};
use proptest::test_runner::{Config, RngAlgorithm, TestCaseError, TestError, TestRng, TestRunner};
use serde_json::{json, Value};
use std::cell::RefCell;
use std::collections::{BTreeMap, HashSet};
use std::path::PathBuf;
use std::time::Instant;

pub fn verif_root() -> PathBuf {
    std::env::var("VERIF_ROOT").map(PathBuf::from).unwrap_or_else(|_| PathBuf::from("/verif"))
}

#[derive(Clone, Copy, Debug, PartialEq, Eq)]
pub enum Tier {
    Quick,
    Thorough,
}

impl Tier {
    pub fn name(self) -> &'static str {
        match self {
            Tier::Quick => "quick",
            Tier::Thorough => "thorough",
        }
    }
    pub fn pick(self, quick: u32, thorough: u32) -> u32 {
        match self {
            Tier::Quick => quick,
            Tier::Thorough => thorough,
        }
    }
}

pub fn env_seed() -> u64 {
    std::env::var("VERIF_SEED")
        .ok()
        .and_then(|s| s.trim().parse::<i64>().ok())
        .map(|v| v as u64)
        .unwrap_or(0)
}

#[derive(Debug, Clone)]
pub struct Violation {
    pub sub: String,
    pub message: String,
    pub replay: Value,
}

pub struct Recorder {
    pub property: String,
    pub tier: Tier,
    pub seed: u64,
    pub level: &'static str,
    pub rule: String,
    pub evaluations: u64,
    nontrivial: HashSet<u64>,
    pub classes: BTreeMap<String, u64>,
    first_samples: Vec<Value>,
    hashed_samples: Vec<(u64, Value)>,
    last_sample: Option<Value>,
    pub excluded: BTreeMap<String, u64>,
    pub known_hits: BTreeMap<String, u64>,
    pub violations: Vec<Violation>,
    pub assumptions: Vec<String>,
    pub notes: BTreeMap<String, Value>,
    pub exhaustive_parts: Vec<String>,
    frozen: bool,
    start: Instant,
    sample_budget: usize,
    pub extra_nontrivial: u64,
    pub partial_violations: u64,
    pub partial_known: BTreeMap<String, u64>,
}

fn mix(a: u64, b: u64) -> u64 {
    let mut x = a ^ b.wrapping_mul(0x9E37_79B9_7F4A_7C15);
    x ^= x >> 33;
    x = x.wrapping_mul(0xff51_afd7_ed55_8ccd);
    x ^= x >> 33;
    x
}

impl Recorder {
    pub fn new(property: &str, tier: Tier, seed: u64) -> Self {
        let mut r = Self::new_plain(property, tier, seed);
        // counts carried over from worker processes that were killed (journaled-worker protocol)
        if let Ok(v) = std::env::var("VERIF_CARRY") {
            if let Ok(j) = serde_json::from_str::<Value>(&v) {
                r.evaluations += j["evaluations"].as_u64().unwrap_or(0);
                r.extra_nontrivial += j["distinct_nontrivial"].as_u64().unwrap_or(0);
                if let Some(m) = j["known"].as_object() {
                    for (k, n) in m {
                        *r.partial_known.entry(k.clone()).or_insert(0) += n.as_u64().unwrap_or(0);
                    }
                }
                if let Some(m) = j["classes"].as_object() {
                    for (k, n) in m {
                        *r.classes.entry(k.clone()).or_insert(0) += n.as_u64().unwrap_or(0);
                    }
                }
            }
        }
        r
    }

    fn new_plain(property: &str, tier: Tier, seed: u64) -> Self {
        Recorder {
            property: property.to_string(),
            tier,
            seed,
            level: "exploration",
            rule: String::new(),
            evaluations: 0,
            nontrivial: HashSet::new(),
            classes: BTreeMap::new(),
            first_samples: vec![],
            hashed_samples: vec![],
            last_sample: None,
            excluded: BTreeMap::new(),
            known_hits: BTreeMap::new(),
            violations: vec![],
            assumptions: vec![],
            notes: BTreeMap::new(),
            exhaustive_parts: vec![],
            frozen: false,
            start: Instant::now(),
            sample_budget: 3,
            extra_nontrivial: 0,
            partial_violations: 0,
            partial_known: BTreeMap::new(),
        }
    }
    pub fn freeze(&mut self) {
        self.frozen = true;
    }
    pub fn unfreeze(&mut self) {
        self.frozen = false;
    }
    pub fn is_frozen(&self) -> bool {
        self.frozen
    }
    /// Count one executed case. `fp` identifies the case; `nontrivial` by the property's rule.
    pub fn case(&mut self, fp: u64, nontrivial: bool, sample: impl FnOnce() -> Value) {
        if self.frozen {
            return;
        }
        self.evaluations += 1;
        let newly = if nontrivial { self.nontrivial.insert(fp) } else { false };
        // sampling: first two, three with smallest mixed hash, and the last one
        let h = mix(fp, self.seed);
        let want_first = self.first_samples.len() < 2;
        let want_hashed = newly
            && (self.hashed_samples.len() < self.sample_budget
                || self.hashed_samples.iter().any(|(x, _)| h < *x));
        let want_last = self.evaluations % 97 == 0 || self.last_sample.is_none();
        if want_first || want_hashed || want_last {
            let s = sample();
            if want_first {
                self.first_samples.push(s.clone());
            }
            if want_hashed {
                self.hashed_samples.push((h, s.clone()));
                self.hashed_samples.sort_by_key(|(x, _)| *x);
                self.hashed_samples.truncate(self.sample_budget);
            }
            if want_last {
                self.last_sample = Some(s);
            }
        }
    }
    pub fn class(&mut self, name: &str) {
        if self.frozen {
            return;
        }
        *self.classes.entry(name.to_string()).or_insert(0) += 1;
    }
    pub fn class_if(&mut self, cond: bool, name: &str) {
        if cond {
            self.class(name)
        }
    }
    pub fn exclude(&mut self, key: &str) {
        if self.frozen {
            return;
        }
        *self.excluded.entry(key.to_string()).or_insert(0) += 1;
    }
    pub fn known_hit(&mut self, key: &str) {
        *self.known_hits.entry(key.to_string()).or_insert(0) += 1;
    }
    pub fn distinct_nontrivial(&self) -> usize {
        self.nontrivial.len()
    }
    pub fn violation(&mut self, sub: &str, message: String, replay: Value) {
        self.violations.push(Violation {
            sub: sub.to_string(),
            message,
            replay,
        });
    }

    /// Fails (exit 2 by the caller) when a class the property depends on was never generated.
    pub fn missing_classes(&self, required: &[&str]) -> Vec<String> {
        required
            .iter()
            .filter(|c| self.classes.get(**c).copied().unwrap_or(0) == 0)
            .map(|c| c.to_string())
            .collect()
    }

    pub fn to_json(&self) -> Value {
        let mut samples: Vec<Value> = self.first_samples.clone();
        samples.extend(self.hashed_samples.iter().map(|(_, v)| v.clone()));
        if let Some(l) = &self.last_sample {
            samples.push(l.clone());
        }
        let known = {
            let mut k = self.known_hits.clone();
            for (a, b) in &self.partial_known {
                *k.entry(a.clone()).or_insert(0) += b;
            }
            k
        };
        let mut coverage = json!({
            "evaluations": self.evaluations,
            "distinct_nontrivial": (self.nontrivial.len() as u64 + self.extra_nontrivial),
            "rule": self.rule,
            "samples": samples,
            "classes": self.classes,
            "excluded": self.excluded,
            "known_findings_hit": known,
        });
        if !self.exhaustive_parts.is_empty() {
            coverage["exhaustive_parts"] = json!(self.exhaustive_parts);
        }
        for (k, v) in &self.notes {
            coverage[k] = v.clone();
        }
        // libFuzzer campaigns run by harness/fuzz.sh ahead of the thorough tier
        if std::env::var("VERIF_PARTIAL").is_err() {
            if let Ok(t) = std::fs::read_to_string(verif_root().join("work").join(format!("fuzz-{}.json", self.property))) {
                if let Ok(v) = serde_json::from_str::<Value>(&t) {
                    coverage["fuzz_campaigns"] = v;
                }
            }
        }
        json!({
            "property_id": self.property,
            "tier": self.tier.name(),
            "seed": self.seed as i64,
            "level": self.level,
            "coverage": coverage,
            "assumptions": self.assumptions,
            "wall_s": self.start.elapsed().as_secs_f64(),
            "violations": self.violations.len() as u64 + self.partial_violations,
        })
    }

    /// Writes evidence, replay files and prints VIOLATION / KNOWN-FINDING lines. Returns the
    /// process exit code.
    /// Merges the evidence written by a sub-process (`VERIF_PARTIAL`) into this recorder.
    pub fn merge_partial(&mut self, part: &Value) {
        let c = &part["coverage"];
        self.evaluations += c["evaluations"].as_u64().unwrap_or(0);
        self.extra_nontrivial += c["distinct_nontrivial"].as_u64().unwrap_or(0);
        if let Some(m) = c["classes"].as_object() {
            for (k, v) in m {
                *self.classes.entry(k.clone()).or_insert(0) += v.as_u64().unwrap_or(0);
            }
        }
        if let Some(m) = c["excluded"].as_object() {
            for (k, v) in m {
                *self.excluded.entry(k.clone()).or_insert(0) += v.as_u64().unwrap_or(0);
            }
        }
        if let Some(a) = c["samples"].as_array() {
            for s in a.iter().take(4) {
                self.first_samples.push(s.clone());
            }
        }
        if let Some(r) = c["rule"].as_str() {
            if !r.is_empty() {
                self.rule = format!("{} || {}", self.rule, r);
            }
        }
        if let Some(a) = part["assumptions"].as_array() {
            for s in a {
                if let Some(s) = s.as_str() {
                    self.assumptions.push(s.to_string());
                }
            }
        }
        self.partial_violations += part["violations"].as_u64().unwrap_or(0);
        if let Some(m) = c["known_findings_hit"].as_object() {
            for (k, v) in m {
                *self.partial_known.entry(k.clone()).or_insert(0) += v.as_u64().unwrap_or(0);
            }
        }
    }

    pub fn partial_path(property: &str) -> PathBuf {
        verif_root().join("work").join(format!("partial-{}.json", property))
    }

    pub fn finish(&self, findings: &crate::findings::Findings) -> i32 {
        let root = verif_root();
        let _ = std::fs::create_dir_all(root.join("evidence"));
        let _ = std::fs::create_dir_all(root.join("replays"));
        let _ = std::fs::create_dir_all(root.join("work"));
        let ev = self.to_json();
        let partial = std::env::var("VERIF_PARTIAL").is_ok();
        let path = if partial { Self::partial_path(&self.property) } else { root.join("evidence").join(format!("{}.json", self.property)) };
        std::fs::write(&path, serde_json::to_string_pretty(&ev).unwrap()).expect("write evidence");
        let mut all_known = self.known_hits.clone();
        if !partial {
            for (k, n) in &self.partial_known {
                if !self.known_hits.contains_key(k) {
                    all_known.insert(k.clone(), *n);
                }
            }
        }
        for (key, n) in all_known.iter().filter(|_| !partial) {
            println!(
                "KNOWN-FINDING: property={} key={} hits={} {}",
                self.property,
                key,
                n,
                findings.describe(&self.property, key)
            );
        }
        let mut code = 0;
        for (i, v) in self.violations.iter().enumerate() {
            let rp = root
                .join("replays")
                .join(format!("{}-{}-{}{}.json", self.property, v.sub, i, if partial { "g" } else { "" }));
            let body = json!({
                "property": self.property,
                "sub": v.sub,
                "message": v.message,
                "seed": self.seed as i64,
                "case": v.replay,
            });
            std::fs::write(&rp, serde_json::to_string_pretty(&body).unwrap()).expect("write replay");
            println!("VIOLATION property={} replay={}", self.property, rp.display());
            println!("  [{}] {}", v.sub, truncate(&v.message, 2000));
            code = 1;
        }
        println!(
            "{} {}: evaluations={} distinct_nontrivial={} violations={} known={} wall={:.1}s",
            self.property,
            self.tier.name(),
            self.evaluations,
            self.nontrivial.len() as u64 + self.extra_nontrivial,
            self.violations.len() as u64 + self.partial_violations,
            all_known.len(),
            self.start.elapsed().as_secs_f64()
        );
        code
    }
}

pub fn truncate(s: &str, n: usize) -> String {
    if s.len() <= n {
        s.to_string()
    } else {
        let mut e = n;
        while !s.is_char_boundary(e) {
            e -= 1;
        }
        format!("{}…[{} bytes]", &s[..e], s.len())
    }
}

pub fn rng_for(seed: u64, salt: &str) -> TestRng {
    let mut s = [0u8; 32];
    s[..8].copy_from_slice(&seed.to_le_bytes());
    let mut h: u64 = 0xcbf2_9ce4_8422_2325;
    for b in salt.bytes() {
        h ^= b as u64;
        h = h.wrapping_mul(0x1000_0000_01b3);
    }
    s[8..16].copy_from_slice(&h.to_le_bytes());
    s[16..24].copy_from_slice(&mix(seed, h).to_le_bytes());
    TestRng::from_seed(RngAlgorithm::ChaCha, &s)
}

/// Failure description returned by property bodies.
#[derive(Debug, Clone)]
pub struct Fail {
    /// signature used to match known findings (computed from the failing case, not from text)
    pub key: String,
    pub msg: String,
}

impl Fail {
    pub fn new(key: &str, msg: impl Into<String>) -> Fail {
        Fail {
            key: key.to_string(),
            msg: msg.into(),
        }
    }
}

pub type PResult = Result<(), Fail>;

#[macro_export]
macro_rules! ensure {
    ($cond:expr, $key:expr, $($arg:tt)+) => {
        if !$cond {
            return Err($crate::evidence::Fail::new($key, format!($($arg)+)));
        }
    };
}

/// Runs `cases` generated cases of `strategy` through `test`. On failure the case is shrunk
/// (the recorder is frozen meanwhile so counts stay those of the search) and returned.
pub fn run_prop<T, S>(
    rec: &RefCell<Recorder>,
    salt: &str,
    cases: u32,
    strategy: S,
    test: impl Fn(&T) -> PResult,
) -> Option<(T, Fail)>
where
    S: Strategy<Value = T>,
    T: std::fmt::Debug + Clone + crate::shrink::Shrink,
{
    let (case, fail) = run_prop_noshrink(rec, salt, cases, strategy, &test)?;
    // structure-aware minimisation, keeping the failure signature fixed
    rec.borrow_mut().freeze();
    let key = fail.key.clone();
    let min = crate::shrink::minimize(case, 6000, |c| matches!(test(c), Err(f) if f.key == key));
    let f = match test(&min) {
        Err(f) => f,
        Ok(()) => fail,
    };
    rec.borrow_mut().unfreeze();
    Some((min, f))
}

pub fn run_prop_noshrink<T, S>(
    rec: &RefCell<Recorder>,
    salt: &str,
    cases: u32,
    strategy: S,
    test: impl Fn(&T) -> PResult,
) -> Option<(T, Fail)>
where
    S: Strategy<Value = T>,
    T: std::fmt::Debug + Clone,
{
    let seed = rec.borrow().seed;
    let cfg = Config {
        cases,
        failure_persistence: None,
        max_shrink_iters: 300,
        max_shrink_time: 0,
        max_local_rejects: 1_000_000,
        max_global_rejects: 1_000_000,
        ..Config::default()
    };
    let mut runner = TestRunner::new_with_rng(cfg, rng_for(seed, salt));
    let last_fail: RefCell<Option<Fail>> = RefCell::new(None);
    let res = runner.run(&strategy, |v| match test(&v) {
        Ok(()) => Ok(()),
        Err(f) => {
            rec.borrow_mut().freeze();
            let m = f.msg.clone();
            *last_fail.borrow_mut() = Some(f);
            Err(TestCaseError::fail(m))
        }
    });
    rec.borrow_mut().unfreeze();
    match res {
        Ok(()) => None,
        Err(TestError::Fail(_, minimal)) => {
            // re-run on the minimal value to get its own failure record
            rec.borrow_mut().freeze();
            let f = match test(&minimal) {
                Err(f) => f,
                Ok(()) => last_fail.borrow().clone().unwrap_or(Fail::new("flaky", "failure did not reproduce")),
            };
            rec.borrow_mut().unfreeze();
            Some((minimal, f))
        }
        Err(TestError::Abort(r)) => Some((
            strategy.new_tree(&mut runner).unwrap().current(),
            Fail::new("abort", format!("proptest aborted: {}", r)),
        )),
    }
}

pub fn catch<R>(f: impl FnOnce() -> R) -> Result<R, String> {
    match std::panic::catch_unwind(std::panic::AssertUnwindSafe(f)) {
        Ok(r) => Ok(r),
        Err(e) => {
            let msg = if let Some(s) = e.downcast_ref::<&str>() {
                s.to_string()
            } else if let Some(s) = e.downcast_ref::<String>() {
                s.clone()
            } else {
                "panic (non-string payload)".to_string()
            };
            Err(msg)
        }
    }
}

/// Silence the default panic printer (panics are caught and reported as failures).
pub fn quiet_panics() {
    if std::env::var("VERIF_LOUD").is_err() {
        std::panic::set_hook(Box::new(|_| {}));
    }
}

/// Accumulates, over the distinct failing inputs of a run, the live bytes each first execution
/// left behind. One-time initialisations are paid during the warm-up; what keeps growing
/// afterwards is memory that a failed decode never gives back.
#[derive(Default, Debug)]
pub struct LeakAcc {
    pub cases: u64,
    pub sum_after_warmup: i64,
    pub positive_after_warmup: u64,
    pub examples: Vec<String>,
}

impl LeakAcc {
    pub const WARMUP: u64 = 150;
    pub fn add(&mut self, first_exec_growth: isize, what: &str) {
        self.cases += 1;
        if self.cases <= Self::WARMUP {
            return;
        }
        self.sum_after_warmup += first_exec_growth as i64;
        if first_exec_growth > 0 {
            self.positive_after_warmup += 1;
            if self.examples.len() < 3 {
                self.examples.push(format!("{} bytes: {}", first_exec_growth, truncate(what, 160)));
            }
        }
    }
    /// Some(message) when the run as a whole kept memory after the warm-up: more than 1 KiB net
    /// growth spread over at least 8 inputs, or more than 8 KiB at all (a buffer that grows by
    /// doubling shows as a few large steps). On the unchanged tree the sum is exactly 0.
    pub fn verdict(&self) -> Option<String> {
        if (self.sum_after_warmup > 1024 && self.positive_after_warmup >= 8) || self.sum_after_warmup > 8192 {
            Some(format!(
                "failed decodes of {} distinct inputs after a warm-up of {} left {} bytes allocated in total ({} of them left something behind), e.g. {:?}",
                self.cases.saturating_sub(Self::WARMUP),
                Self::WARMUP,
                self.sum_after_warmup,
                self.positive_after_warmup,
                self.examples
            ))
        } else {
            None
        }
    }
}

//! Structure-aware greedy shrinking for the harness's own case types. proptest's shrinking of
//! `prop_flat_map`-built trees is slow on typed containers, so after proptest has reported a
//! failing case it is minimised further here: repeatedly replace the case by the first simpler
//! candidate that still fails.
use crate::tval::{TVal, TT};

pub trait Shrink: Sized + Clone {
    /// Simpler variants, most aggressive first.
    fn candidates(&self) -> Vec<Self>;
}

pub fn minimize<T: Shrink>(start: T, budget: usize, still_fails: impl Fn(&T) -> bool) -> T {
    let mut cur = start;
    let mut evals = 0;
    'outer: loop {
        for c in cur.candidates() {
            if evals >= budget {
                break 'outer;
            }
            evals += 1;
            if still_fails(&c) {
                cur = c;
                continue 'outer;
            }
        }
        break;
    }
    cur
}

fn simplest(tt: TT) -> TVal {
    match tt {
        TT::Bool => TVal::Bool(false),
        TT::I8 => TVal::I8(0),
        TT::I16 => TVal::I16(0),
        TT::I32 => TVal::I32(0),
        TT::I64 => TVal::I64(0),
        TT::Double => TVal::Double(0),
        TT::Binary => TVal::Binary(vec![]),
        TT::Uuid => TVal::Uuid([0; 16]),
        TT::Struct => TVal::Struct(vec![]),
        TT::List => TVal::List(TT::Bool, vec![]),
        TT::Set => TVal::Set(TT::Bool, vec![]),
        TT::Map => TVal::Map(TT::Bool, TT::Bool, vec![]),
    }
}

fn seq_candidates<E: Clone>(es: &[E], shrink_elem: impl Fn(&E) -> Vec<E>) -> Vec<Vec<E>> {
    let mut out = vec![];
    let n = es.len();
    if n == 0 {
        return out;
    }
    out.push(vec![]);
    if n > 2 {
        out.push(es[..n / 2].to_vec());
        out.push(es[n / 2..].to_vec());
    }
    if n <= 24 {
        for i in 0..n {
            let mut v = es.to_vec();
            v.remove(i);
            out.push(v);
        }
    } else {
        out.push(es[1..].to_vec());
        out.push(es[..n - 1].to_vec());
    }
    for i in 0..n.min(24) {
        for c in shrink_elem(&es[i]) {
            let mut v = es.to_vec();
            v[i] = c;
            out.push(v);
        }
    }
    out
}

impl Shrink for TVal {
    fn candidates(&self) -> Vec<TVal> {
        let mut out = vec![];
        let s = simplest(self.tt());
        if *self != s && !matches!(self, TVal::List(..) | TVal::Set(..) | TVal::Map(..)) {
            out.push(s);
        }
        match self {
            TVal::Bool(_) | TVal::Uuid(_) => {}
            TVal::I8(x) => {
                if *x != 0 && *x != 1 {
                    out.push(TVal::I8(1))
                }
            }
            TVal::I16(x) => {
                if *x != 0 && *x != 1 {
                    out.push(TVal::I16(1));
                    out.push(TVal::I16(x / 2));
                }
            }
            TVal::I32(x) => {
                if *x != 0 && *x != 1 {
                    out.push(TVal::I32(1));
                    out.push(TVal::I32(x / 2));
                }
            }
            TVal::I64(x) => {
                if *x != 0 && *x != 1 {
                    out.push(TVal::I64(1));
                    out.push(TVal::I64(x / 2));
                }
            }
            TVal::Double(b) => {
                if *b != 0 && *b != 1.5f64.to_bits() {
                    out.push(TVal::Double(1.5f64.to_bits()))
                }
            }
            TVal::Binary(b) => {
                if b.len() > 1 {
                    out.push(TVal::Binary(b[..b.len() / 2].to_vec()));
                    out.push(TVal::Binary(b[..b.len() - 1].to_vec()));
                    if b.iter().any(|x| *x != b'a') {
                        out.push(TVal::Binary(vec![b'a'; b.len()]));
                    }
                } else if b.len() == 1 && b[0] != b'a' {
                    out.push(TVal::Binary(vec![b'a']));
                }
            }
            TVal::Struct(fs) => {
                // hoist a nested struct
                for (_, v) in fs {
                    if matches!(v, TVal::Struct(_)) {
                        out.push(v.clone());
                    }
                }
                for c in seq_candidates(fs, |(id, v)| {
                    let mut r: Vec<(i16, TVal)> = v.candidates().into_iter().map(|c| (*id, c)).collect();
                    // replace the value by the simplest value of another type
                    if v.tt() != TT::I32 {
                        r.push((*id, TVal::I32(0)));
                    }
                    r
                }) {
                    out.push(TVal::Struct(c));
                }
                // renumber ids 1..n
                let renum: Vec<(i16, TVal)> = fs.iter().enumerate().map(|(i, (_, v))| ((i + 1) as i16, v.clone())).collect();
                if renum != *fs {
                    out.push(TVal::Struct(renum));
                }
                for i in 0..fs.len() {
                    let want = (i + 1) as i16;
                    if fs[i].0 != want {
                        let mut v = fs.clone();
                        v[i].0 = want;
                        out.push(TVal::Struct(v));
                    }
                }
            }
            TVal::List(t, es) => {
                for c in seq_candidates(es, |e| e.candidates()) {
                    out.push(TVal::List(*t, c));
                }
            }
            TVal::Set(t, es) => {
                for c in seq_candidates(es, |e| e.candidates()) {
                    out.push(TVal::Set(*t, c));
                }
            }
            TVal::Map(k, v, es) => {
                for c in seq_candidates(es, |(a, b)| {
                    let mut r: Vec<(TVal, TVal)> = a.candidates().into_iter().map(|c| (c, b.clone())).collect();
                    r.extend(b.candidates().into_iter().map(|c| (a.clone(), c)));
                    r
                }) {
                    out.push(TVal::Map(*k, *v, c));
                }
            }
        }
        // keep container element types consistent: candidates() of an element never changes its TT
        out.retain(|c| c.tt() == self.tt() || !matches!(self, TVal::List(..) | TVal::Set(..) | TVal::Map(..)));
        out
    }
}

/// Candidates that keep the wire type (needed for container elements / typed positions).
pub fn same_type_candidates(v: &TVal) -> Vec<TVal> {
    v.candidates().into_iter().filter(|c| c.tt() == v.tt()).collect()
}

impl<T: Shrink> Shrink for Vec<T> {
    fn candidates(&self) -> Vec<Vec<T>> {
        seq_candidates(self, |e| e.candidates())
    }
}

//! Protobuf side: schema model (G_proto), generator, .proto printer, schema-directed values,
//! reference wire codec written from the protobuf encoding guide (encoder with free choices,
//! decoder with merge semantics). Independent of pilota / prost.
use crate::shrink::Shrink;
use proptest::prelude::*;
use serde::{Deserialize, Serialize};
use std::collections::BTreeMap;

#[derive(Clone, Copy, Debug, PartialEq, Eq, Hash, PartialOrd, Ord, Serialize, Deserialize)]
pub enum Sc {
    Double,
    Float,
    Int32,
    Int64,
    Uint32,
    Uint64,
    Sint32,
    Sint64,
    Fixed32,
    Fixed64,
    Sfixed32,
    Sfixed64,
    Bool,
    String,
    Bytes,
}

pub const ALL_SC: [Sc; 15] = [
    Sc::Double,
    Sc::Float,
    Sc::Int32,
    Sc::Int64,
    Sc::Uint32,
    Sc::Uint64,
    Sc::Sint32,
    Sc::Sint64,
    Sc::Fixed32,
    Sc::Fixed64,
    Sc::Sfixed32,
    Sc::Sfixed64,
    Sc::Bool,
    Sc::String,
    Sc::Bytes,
];

impl Sc {
    pub fn name(self) -> &'static str {
        match self {
            Sc::Double => "double",
            Sc::Float => "float",
            Sc::Int32 => "int32",
            Sc::Int64 => "int64",
            Sc::Uint32 => "uint32",
            Sc::Uint64 => "uint64",
            Sc::Sint32 => "sint32",
            Sc::Sint64 => "sint64",
            Sc::Fixed32 => "fixed32",
            Sc::Fixed64 => "fixed64",
            Sc::Sfixed32 => "sfixed32",
            Sc::Sfixed64 => "sfixed64",
            Sc::Bool => "bool",
            Sc::String => "string",
            Sc::Bytes => "bytes",
        }
    }
    /// wire type: 0 varint, 1 64-bit, 2 length-delimited, 5 32-bit
    pub fn wire(self) -> u8 {
        match self {
            Sc::Double | Sc::Fixed64 | Sc::Sfixed64 => 1,
            Sc::Float | Sc::Fixed32 | Sc::Sfixed32 => 5,
            Sc::String | Sc::Bytes => 2,
            _ => 0,
        }
    }
    pub fn packable(self) -> bool {
        !matches!(self, Sc::String | Sc::Bytes)
    }
    pub fn map_key_ok(self) -> bool {
        !matches!(self, Sc::Double | Sc::Float | Sc::Bytes)
    }
}

/// Path of a message / enum: (file, names from the outermost message inwards)
#[derive(Clone, Debug, PartialEq, Eq, Hash, PartialOrd, Ord, Serialize, Deserialize)]
pub struct Ref {
    pub file: usize,
    pub path: Vec<String>,
}

#[derive(Clone, Debug, PartialEq, Eq, Hash, Serialize, Deserialize)]
pub enum PTy {
    Scalar(Sc),
    Message(Ref),
    Enum(Ref),
}

#[derive(Clone, Debug, PartialEq, Eq, Hash, Serialize, Deserialize)]
pub enum Label {
    /// proto3 field without label (implicit presence for scalars/enums)
    Plain,
    /// `optional` (explicit presence)
    Optional,
    /// proto2 `required`
    Required,
    Repeated,
    /// map<key, value>
    Map(Sc),
    /// member of the oneof with this index
    Oneof(usize),
}

#[derive(Clone, Debug, PartialEq, Eq, Hash, Serialize, Deserialize)]
pub struct PField {
    pub number: u32,
    pub name: String,
    pub ty: PTy,
    pub label: Label,
}

#[derive(Clone, Debug, PartialEq, Eq, Hash, Serialize, Deserialize)]
pub struct PEnum {
    pub name: String,
    pub values: Vec<(String, i32)>,
}

#[derive(Clone, Debug, PartialEq, Eq, Hash, Serialize, Deserialize)]
pub struct PMessage {
    pub name: String,
    pub fields: Vec<PField>,
    pub oneofs: Vec<String>,
    pub nested: Vec<PMessage>,
    pub enums: Vec<PEnum>,
}

#[derive(Clone, Debug, PartialEq, Eq, Hash, Serialize, Deserialize)]
pub struct PFile {
    pub stem: String,
    pub proto3: bool,
    pub package: Vec<String>,
    pub imports: Vec<usize>,
    pub messages: Vec<PMessage>,
    pub enums: Vec<PEnum>,
    /// services: (name, methods (name, input, output, client streaming, server streaming))
    pub services: Vec<(String, Vec<(String, Ref, Ref, bool, bool)>)>,
}

#[derive(Clone, Debug, PartialEq, Eq, Hash, Serialize, Deserialize)]
pub struct PDoc {
    pub files: Vec<PFile>,
}

impl PDoc {
    pub fn message(&self, r: &Ref) -> &PMessage {
        let f = &self.files[r.file];
        let mut cur: Option<&PMessage> = f.messages.iter().find(|m| m.name == r.path[0]);
        for seg in &r.path[1..] {
            cur = cur.and_then(|m| m.nested.iter().find(|n| n.name == *seg));
        }
        cur.unwrap_or_else(|| panic!("dangling message ref {:?}", r))
    }
    pub fn enum_(&self, r: &Ref) -> &PEnum {
        let f = &self.files[r.file];
        if r.path.len() == 1 {
            return f.enums.iter().find(|e| e.name == r.path[0]).expect("enum");
        }
        let m = self.message(&Ref { file: r.file, path: r.path[..r.path.len() - 1].to_vec() });
        m.enums.iter().find(|e| e.name == *r.path.last().unwrap()).expect("nested enum")
    }
    pub fn proto3(&self, r: &Ref) -> bool {
        self.files[r.file].proto3
    }
    /// All messages with their refs, depth first.
    pub fn all_messages(&self) -> Vec<Ref> {
        fn walk(file: usize, prefix: &[String], m: &PMessage, out: &mut Vec<Ref>) {
            let mut p = prefix.to_vec();
            p.push(m.name.clone());
            out.push(Ref { file, path: p.clone() });
            for n in &m.nested {
                walk(file, &p, n, out);
            }
        }
        let mut out = vec![];
        for (fi, f) in self.files.iter().enumerate() {
            for m in &f.messages {
                walk(fi, &[], m, &mut out);
            }
        }
        out
    }
    /// Rust path of a message below the output wrapper module (plain identifier pool).
    pub fn rust_path(&self, r: &Ref) -> String {
        let f = &self.files[r.file];
        let mut segs: Vec<String> = f.package.clone();
        for s in &r.path[..r.path.len() - 1] {
            segs.push(s.to_lowercase());
        }
        segs.push(r.path.last().unwrap().clone());
        segs.join("::")
    }
    /// fully qualified .proto name relative to `from`
    fn type_name(&self, r: &Ref) -> String {
        let f = &self.files[r.file];
        let mut segs: Vec<String> = f.package.clone();
        segs.extend(r.path.iter().cloned());
        format!(".{}", segs.join("."))
    }
}

// ---------------------------------------------------------------------------------------------
// printer

impl PDoc {
    pub fn print_files(&self) -> Vec<(String, String)> {
        self.files.iter().enumerate().map(|(i, f)| (format!("{}.proto", f.stem), self.print_file(i))).collect()
    }
    fn print_file(&self, fi: usize) -> String {
        let f = &self.files[fi];
        let mut s = String::new();
        s.push_str(if f.proto3 { "syntax = \"proto3\";\n" } else { "syntax = \"proto2\";\n" });
        if !f.package.is_empty() {
            s.push_str(&format!("package {};\n", f.package.join(".")));
        }
        for i in &f.imports {
            s.push_str(&format!("import \"{}.proto\";\n", self.files[*i].stem));
        }
        for e in &f.enums {
            self.print_enum(e, 0, &mut s);
        }
        for m in &f.messages {
            self.print_message(m, f.proto3, 0, &mut s);
        }
        for (name, methods) in &f.services {
            s.push_str(&format!("service {} {{\n", name));
            for (mn, i, o, cs, ss) in methods {
                s.push_str(&format!("  rpc {}({}{}) returns ({}{});\n", mn, if *cs { "stream " } else { "" }, self.type_name(i), if *ss { "stream " } else { "" }, self.type_name(o)));
            }
            s.push_str("}\n");
        }
        s
    }
    fn print_enum(&self, e: &PEnum, ind: usize, s: &mut String) {
        let pad = "  ".repeat(ind);
        s.push_str(&format!("{}enum {} {{\n", pad, e.name));
        for (n, v) in &e.values {
            s.push_str(&format!("{}  {} = {};\n", pad, n, v));
        }
        s.push_str(&format!("{}}}\n", pad));
    }
    fn ty_name(&self, t: &PTy) -> String {
        match t {
            PTy::Scalar(sc) => sc.name().to_string(),
            PTy::Message(r) | PTy::Enum(r) => self.type_name(r),
        }
    }
    fn print_message(&self, m: &PMessage, proto3: bool, ind: usize, s: &mut String) {
        let pad = "  ".repeat(ind);
        s.push_str(&format!("{}message {} {{\n", pad, m.name));
        for e in &m.enums {
            self.print_enum(e, ind + 1, s);
        }
        for n in &m.nested {
            self.print_message(n, proto3, ind + 1, s);
        }
        for f in m.fields.iter().filter(|f| !matches!(f.label, Label::Oneof(_))) {
            let label = match &f.label {
                Label::Plain => "".to_string(),
                Label::Optional => "optional ".to_string(),
                Label::Required => "required ".to_string(),
                Label::Repeated => "repeated ".to_string(),
                Label::Map(k) => {
                    s.push_str(&format!("{}  map<{}, {}> {} = {};\n", pad, k.name(), self.ty_name(&f.ty), f.name, f.number));
                    continue;
                }
                Label::Oneof(_) => unreachable!(),
            };
            s.push_str(&format!("{}  {}{} {} = {};\n", pad, label, self.ty_name(&f.ty), f.name, f.number));
        }
        for (oi, on) in m.oneofs.iter().enumerate() {
            let members: Vec<&PField> = m.fields.iter().filter(|f| f.label == Label::Oneof(oi)).collect();
            if members.is_empty() {
                continue;
            }
            s.push_str(&format!("{}  oneof {} {{\n", pad, on));
            for f in members {
                s.push_str(&format!("{}    {} {} = {};\n", pad, self.ty_name(&f.ty), f.name, f.number));
            }
            s.push_str(&format!("{}  }}\n", pad));
        }
        s.push_str(&format!("{}}}\n", pad));
    }
}

// ---------------------------------------------------------------------------------------------
// values

#[derive(Clone, Debug, PartialEq, Eq, Hash, PartialOrd, Ord, Serialize, Deserialize)]
pub enum PV {
    Bool(bool),
    /// int32, sint32, sfixed32, enum
    I32(i32),
    I64(i64),
    U32(u32),
    U64(u64),
    F32(u32),
    F64(u64),
    Str(Vec<u8>),
    Bytes(Vec<u8>),
    Msg(PMsg),
}

#[derive(Clone, Debug, PartialEq, Eq, Hash, PartialOrd, Ord, Serialize, Deserialize)]
pub enum PFV {
    Single(PV),
    Repeated(Vec<PV>),
    /// entries in insertion order; keys unique
    Map(Vec<(PV, PV)>),
}

#[derive(Clone, Debug, Default, PartialEq, Eq, Hash, PartialOrd, Ord, Serialize, Deserialize)]
pub struct PMsg {
    pub fields: BTreeMap<u32, PFV>,
}

pub fn default_pv(doc: &PDoc, t: &PTy) -> PV {
    match t {
        PTy::Scalar(sc) => match sc {
            Sc::Double => PV::F64(0),
            Sc::Float => PV::F32(0),
            Sc::Int32 | Sc::Sint32 | Sc::Sfixed32 => PV::I32(0),
            Sc::Int64 | Sc::Sint64 | Sc::Sfixed64 => PV::I64(0),
            Sc::Uint32 | Sc::Fixed32 => PV::U32(0),
            Sc::Uint64 | Sc::Fixed64 => PV::U64(0),
            Sc::Bool => PV::Bool(false),
            Sc::String => PV::Str(vec![]),
            Sc::Bytes => PV::Bytes(vec![]),
        },
        PTy::Enum(r) => {
            // proto2: first declared value; proto3: zero (which must be the first value)
            PV::I32(doc.enum_(r).values.first().map(|v| v.1).unwrap_or(0))
        }
        PTy::Message(_) => PV::Msg(PMsg::default()),
    }
}

impl PDoc {
    /// Does absence of this field mean "holds the default" (no presence tracking)?
    pub fn implicit_presence(&self, in_file_proto3: bool, f: &PField) -> bool {
        match f.label {
            Label::Plain => !matches!(f.ty, PTy::Message(_)) || !in_file_proto3,
            Label::Required => true,
            _ => false,
        }
    }

    /// Canonical form for semantic comparison: fields without presence tracking that hold their
    /// default are dropped, empty repeated/map fields are dropped, map entries sorted by key.
    pub fn canon(&self, r: &Ref, m: &PMsg) -> PMsg {
        let decl = self.message(r);
        let p3 = self.proto3(r);
        let mut out = PMsg::default();
        for (num, fv) in &m.fields {
            let Some(f) = decl.fields.iter().find(|f| f.number == *num) else { continue };
            let cv = |v: &PV| -> PV {
                match (v, &f.ty) {
                    (PV::Msg(mm), PTy::Message(mr)) => PV::Msg(self.canon(mr, mm)),
                    (o, _) => o.clone(),
                }
            };
            // where presence is not tracked a zero is "the default" whatever its sign
            let unsign = |v: PV| -> PV {
                match v {
                    PV::F32(0x8000_0000) => PV::F32(0),
                    PV::F64(0x8000_0000_0000_0000) => PV::F64(0),
                    o => o,
                }
            };
            match fv {
                PFV::Single(v) => {
                    let v = if self.implicit_presence(p3, f) { unsign(cv(v)) } else { cv(v) };
                    if self.implicit_presence(p3, f) && v == default_pv(self, &f.ty) {
                        continue;
                    }
                    if f.label == Label::Required && matches!(f.ty, PTy::Message(_)) && v == PV::Msg(PMsg::default()) {
                        continue;
                    }
                    out.fields.insert(*num, PFV::Single(v));
                }
                PFV::Repeated(vs) => {
                    if !vs.is_empty() {
                        out.fields.insert(*num, PFV::Repeated(vs.iter().map(cv).collect()));
                    }
                }
                PFV::Map(es) => {
                    if !es.is_empty() {
                        let mut es: Vec<(PV, PV)> = es.iter().map(|(k, v)| (k.clone(), unsign(cv(v)))).collect();
                        es.sort();
                        out.fields.insert(*num, PFV::Map(es));
                    }
                }
            }
        }
        out
    }
}

fn arb_sc_value(sc: Sc) -> BoxedStrategy<PV> {
    use crate::tval::{arb_i32, arb_i64};
    match sc {
        Sc::Double => crate::tval::arb_double_bits().prop_map(PV::F64).boxed(),
        Sc::Float => prop_oneof![any::<u32>(), prop::sample::select(vec![0u32, 0x8000_0000, 1.5f32.to_bits(), f32::NAN.to_bits(), f32::INFINITY.to_bits(), 1])].prop_map(PV::F32).boxed(),
        Sc::Int32 | Sc::Sint32 | Sc::Sfixed32 => arb_i32().prop_map(PV::I32).boxed(),
        Sc::Int64 | Sc::Sint64 | Sc::Sfixed64 => arb_i64().prop_map(PV::I64).boxed(),
        Sc::Uint32 | Sc::Fixed32 => arb_i32().prop_map(|x| PV::U32(x as u32)).boxed(),
        Sc::Uint64 | Sc::Fixed64 => arb_i64().prop_map(|x| PV::U64(x as u64)).boxed(),
        Sc::Bool => any::<bool>().prop_map(PV::Bool).boxed(),
        Sc::String => crate::tval::arb_payload(true, 4097).prop_map(PV::Str).boxed(),
        Sc::Bytes => crate::tval::arb_payload(false, 4097).prop_map(PV::Bytes).boxed(),
    }
}

/// Map keys: half of them from a pool of three per type, so that two independently generated
/// values of a message share keys (merge: "later keys replace earlier equal keys").
fn arb_map_key(sc: Sc) -> BoxedStrategy<PV> {
    let pool: Vec<PV> = match sc {
        Sc::Int32 | Sc::Sint32 | Sc::Sfixed32 => vec![PV::I32(0), PV::I32(7), PV::I32(-1)],
        Sc::Int64 | Sc::Sint64 | Sc::Sfixed64 => vec![PV::I64(0), PV::I64(7), PV::I64(-1)],
        Sc::Uint32 | Sc::Fixed32 => vec![PV::U32(0), PV::U32(7), PV::U32(u32::MAX)],
        Sc::Uint64 | Sc::Fixed64 => vec![PV::U64(0), PV::U64(7), PV::U64(u64::MAX)],
        Sc::Bool => vec![PV::Bool(false), PV::Bool(true)],
        Sc::String => vec![PV::Str(vec![]), PV::Str(b"k".to_vec()), PV::Str(b"key".to_vec())],
        _ => return arb_sc_value(sc),
    };
    prop_oneof![1 => prop::sample::select(pool), 1 => arb_sc_value(sc)].boxed()
}

pub fn arb_pv(doc: &PDoc, t: &PTy, depth: u32) -> BoxedStrategy<PV> {
    match t {
        PTy::Scalar(sc) => arb_sc_value(*sc),
        PTy::Enum(r) => {
            let vals: Vec<i32> = doc.enum_(r).values.iter().map(|v| v.1).collect();
            if doc.proto3(r) {
                // open enum: any number travels
                prop_oneof![4 => prop::sample::select(vals).prop_map(PV::I32), 1 => crate::tval::arb_i32().prop_map(PV::I32)].boxed()
            } else {
                // closed (proto2) enum: undeclared numbers belong to the unknown-field set of a
                // conforming implementation, which the property does not fix
                prop::sample::select(vals).prop_map(PV::I32).boxed()
            }
        }
        PTy::Message(r) => arb_msg(doc, r, depth.saturating_sub(1)).prop_map(PV::Msg).boxed(),
    }
}

pub fn arb_msg(doc: &PDoc, r: &Ref, depth: u32) -> BoxedStrategy<PMsg> {
    let decl = doc.message(r);
    let mut parts: Vec<BoxedStrategy<Option<(u32, PFV)>>> = vec![];
    // oneofs: at most one member
    for oi in 0..decl.oneofs.len() {
        let members: Vec<&PField> = decl.fields.iter().filter(|f| f.label == Label::Oneof(oi)).collect();
        if members.is_empty() {
            continue;
        }
        let mut alts: Vec<BoxedStrategy<Option<(u32, PFV)>>> = vec![Just(None).boxed()];
        for f in members {
            if matches!(f.ty, PTy::Message(_)) && depth == 0 {
                continue;
            }
            let num = f.number;
            alts.push(arb_pv(doc, &f.ty, depth).prop_map(move |v| Some((num, PFV::Single(v)))).boxed());
        }
        parts.push(proptest::strategy::Union::new(alts).boxed());
    }
    for f in &decl.fields {
        let num = f.number;
        let is_msg = matches!(f.ty, PTy::Message(_));
        match &f.label {
            Label::Oneof(_) => {}
            Label::Plain | Label::Optional => {
                if is_msg && depth == 0 {
                    parts.push(Just(None).boxed());
                } else {
                    let present = arb_pv(doc, &f.ty, depth).prop_map(move |v| Some((num, PFV::Single(v)))).boxed();
                    parts.push(prop_oneof![3 => present, 1 => Just(None)].boxed());
                }
            }
            Label::Required => {
                parts.push(arb_pv(doc, &f.ty, depth).prop_map(move |v| Some((num, PFV::Single(v)))).boxed());
            }
            Label::Repeated => {
                if depth == 0 && is_msg {
                    // cut recursion at the depth limit
                    parts.push(Just(None).boxed());
                    continue;
                }
                let max = 4;
                parts.push(prop::collection::vec(arb_pv(doc, &f.ty, depth), 0..=max).prop_map(move |vs| Some((num, PFV::Repeated(vs)))).boxed());
            }
            Label::Map(k) => {
                if depth == 0 && is_msg {
                    parts.push(Just(None).boxed());
                    continue;
                }
                let max = 3;
                parts.push(
                    prop::collection::vec((arb_map_key(*k), arb_pv(doc, &f.ty, depth)), 0..=max)
                        .prop_map(move |es| {
                            let mut seen = std::collections::BTreeSet::new();
                            let es: Vec<(PV, PV)> = es.into_iter().filter(|(k, _)| seen.insert(k.clone())).collect();
                            Some((num, PFV::Map(es)))
                        })
                        .boxed(),
                );
            }
        }
    }
    parts.prop_map(|vs| PMsg { fields: vs.into_iter().flatten().collect() }).boxed()
}

// ---------------------------------------------------------------------------------------------
// reference wire codec

pub fn put_varint(out: &mut Vec<u8>, mut n: u64) {
    loop {
        if n < 0x80 {
            out.push(n as u8);
            return;
        }
        out.push((n as u8 & 0x7f) | 0x80);
        n >>= 7;
    }
}

fn zz32(n: i32) -> u32 {
    ((n << 1) ^ (n >> 31)) as u32
}
fn zz64(n: i64) -> u64 {
    ((n << 1) ^ (n >> 63)) as u64
}

pub fn put_key(out: &mut Vec<u8>, number: u32, wire: u8) {
    put_varint(out, ((number as u64) << 3) | wire as u64);
}

/// Scalar payload without key.
fn put_scalar(out: &mut Vec<u8>, sc: Sc, v: &PV) {
    match (sc, v) {
        (Sc::Double, PV::F64(b)) => out.extend_from_slice(&b.to_le_bytes()),
        (Sc::Float, PV::F32(b)) => out.extend_from_slice(&b.to_le_bytes()),
        (Sc::Int32, PV::I32(x)) => put_varint(out, *x as i64 as u64),
        (Sc::Int64, PV::I64(x)) => put_varint(out, *x as u64),
        (Sc::Uint32, PV::U32(x)) => put_varint(out, *x as u64),
        (Sc::Uint64, PV::U64(x)) => put_varint(out, *x),
        (Sc::Sint32, PV::I32(x)) => put_varint(out, zz32(*x) as u64),
        (Sc::Sint64, PV::I64(x)) => put_varint(out, zz64(*x)),
        (Sc::Fixed32, PV::U32(x)) => out.extend_from_slice(&x.to_le_bytes()),
        (Sc::Fixed64, PV::U64(x)) => out.extend_from_slice(&x.to_le_bytes()),
        (Sc::Sfixed32, PV::I32(x)) => out.extend_from_slice(&x.to_le_bytes()),
        (Sc::Sfixed64, PV::I64(x)) => out.extend_from_slice(&x.to_le_bytes()),
        (Sc::Bool, PV::Bool(b)) => out.push(*b as u8),
        (Sc::String, PV::Str(b)) | (Sc::Bytes, PV::Bytes(b)) => {
            put_varint(out, b.len() as u64);
            out.extend_from_slice(b);
        }
        (s, v) => panic!("ill-typed scalar {:?} for {:?}", v, s),
    }
}

/// Free choices of a conforming encoder.
#[derive(Clone, Debug, PartialEq, Eq, Hash, Serialize, Deserialize)]
pub struct EncChoice {
    /// permutation seed for field order
    pub order: u32,
    /// repeated packable scalars: 0 packed, 1 unpacked, 2 mixed
    pub packing: u8,
    /// emit default-valued fields that have no presence tracking
    pub emit_defaults: bool,
    /// map entries: 0 normal, 1 value before key, 2 omit default key/value
    pub map_style: u8,
}

impl Default for EncChoice {
    fn default() -> Self {
        EncChoice { order: 0, packing: 0, emit_defaults: false, map_style: 0 }
    }
}

pub fn arb_choice() -> BoxedStrategy<EncChoice> {
    (any::<u32>(), 0u8..3, any::<bool>(), 0u8..3).prop_map(|(order, packing, emit_defaults, map_style)| EncChoice { order, packing, emit_defaults, map_style }).boxed()
}

fn put_single(doc: &PDoc, out: &mut Vec<u8>, number: u32, t: &PTy, v: &PV, ch: &EncChoice) {
    match (t, v) {
        (PTy::Scalar(sc), v) => {
            put_key(out, number, sc.wire());
            put_scalar(out, *sc, v);
        }
        (PTy::Enum(_), PV::I32(x)) => {
            put_key(out, number, 0);
            put_varint(out, *x as i64 as u64);
        }
        (PTy::Message(r), PV::Msg(m)) => {
            let body = encode_msg(doc, r, m, ch);
            put_key(out, number, 2);
            put_varint(out, body.len() as u64);
            out.extend_from_slice(&body);
        }
        (t, v) => panic!("ill-typed value {:?} for {:?}", v, t),
    }
}

thread_local! {
    /// When set, unknown-field records are inserted at record boundaries of every message that is
    /// encoded (at every nesting level): (seed, probability in 1/256, count inserted so far)
    pub static UNKNOWN_INSERTER: std::cell::RefCell<Option<(u64, u8, u32)>> = const { std::cell::RefCell::new(None) };
}

fn maybe_unknown(decl: &PMessage, recs: &mut Vec<Vec<u8>>) {
    UNKNOWN_INSERTER.with(|cell| {
        let mut g = cell.borrow_mut();
        let Some((seed, prob, count)) = g.as_mut() else { return };
        *seed = seed.wrapping_mul(6364136223846793005).wrapping_add(1442695040888963407);
        let h = *seed >> 33;
        if (h & 0xff) as u8 >= *prob {
            return;
        }
        // a field number the message does not declare
        // half of the time next to a declared number (a gap between the members of a oneof, the
        // number after the last field), otherwise anywhere in 1..3000
        let mut num = 1 + ((h >> 8) % 3000) as u32;
        if (h >> 30) & 1 == 1 && !decl.fields.is_empty() {
            let near = decl.fields[((h >> 8) as usize) % decl.fields.len()].number;
            num = if (h >> 29) & 1 == 1 && near > 1 { near - 1 } else { near.saturating_add(1).min(536870911) };
        }
        let start = num;
        while decl.fields.iter().any(|f| f.number == num) || (19000..=19999).contains(&num) {
            num = if num >= 536870911 { 1 } else { num + 1 };
            if num == start {
                break;
            }
        }
        let payload: Vec<u8> = (0..((h >> 20) % 9)).map(|i| (h >> (i % 8)) as u8).collect();
        recs.push(unknown_record(num, ((h >> 28) % 5) as u8, &payload));
        *count += 1;
    });
}

/// Records of the message as separate byte strings (so that callers can interleave / insert).
pub fn encode_records(doc: &PDoc, r: &Ref, m: &PMsg, ch: &EncChoice) -> Vec<Vec<u8>> {
    let recs = encode_records_inner(doc, r, m, ch);
    let decl = doc.message(r);
    let mut out = vec![];
    maybe_unknown(decl, &mut out);
    for rec in recs {
        out.push(rec);
        maybe_unknown(decl, &mut out);
    }
    out
}

fn encode_records_inner(doc: &PDoc, r: &Ref, m: &PMsg, ch: &EncChoice) -> Vec<Vec<u8>> {
    let decl = doc.message(r);
    let p3 = doc.proto3(r);
    let mut recs: Vec<Vec<u8>> = vec![];
    // absent fields without presence tracking may be sent with their default
    if ch.emit_defaults {
        for f in &decl.fields {
            if doc.implicit_presence(p3, f) && !m.fields.contains_key(&f.number) && !matches!(f.ty, PTy::Message(_)) {
                let mut o = vec![];
                put_single(doc, &mut o, f.number, &f.ty, &default_pv(doc, &f.ty), ch);
                recs.push(o);
            }
        }
    }
    for (num, fv) in &m.fields {
        let Some(f) = decl.fields.iter().find(|f| f.number == *num) else { continue };
        match fv {
            PFV::Single(v) => {
                let mut o = vec![];
                put_single(doc, &mut o, *num, &f.ty, v, ch);
                recs.push(o);
            }
            PFV::Repeated(vs) => {
                let packable = match &f.ty {
                    PTy::Scalar(sc) => sc.packable(),
                    PTy::Enum(_) => true,
                    _ => false,
                };
                let pack_range = |vs: &[PV], recs: &mut Vec<Vec<u8>>| {
                    let mut body = vec![];
                    for v in vs {
                        match (&f.ty, v) {
                            (PTy::Scalar(sc), v) => put_scalar(&mut body, *sc, v),
                            (PTy::Enum(_), PV::I32(x)) => put_varint(&mut body, *x as i64 as u64),
                            _ => unreachable!(),
                        }
                    }
                    let mut o = vec![];
                    put_key(&mut o, *num, 2);
                    put_varint(&mut o, body.len() as u64);
                    o.extend_from_slice(&body);
                    recs.push(o);
                };
                if packable && ch.packing == 0 && !vs.is_empty() {
                    pack_range(vs, &mut recs);
                } else if packable && ch.packing == 2 && vs.len() >= 2 {
                    // mixed: first element unpacked, the rest packed (order preserved)
                    let mut o = vec![];
                    put_single(doc, &mut o, *num, &f.ty, &vs[0], ch);
                    recs.push(o);
                    pack_range(&vs[1..], &mut recs);
                } else {
                    for v in vs {
                        let mut o = vec![];
                        put_single(doc, &mut o, *num, &f.ty, v, ch);
                        recs.push(o);
                    }
                }
            }
            PFV::Map(es) => {
                let Label::Map(ksc) = &f.label else { panic!("map value for non-map field") };
                for (k, v) in es {
                    let mut kb = vec![];
                    let key_default = *k == default_pv(doc, &PTy::Scalar(*ksc));
                    let val_default = *v == default_pv(doc, &f.ty) && !matches!(f.ty, PTy::Message(_));
                    if !(ch.map_style == 2 && key_default) {
                        put_single(doc, &mut kb, 1, &PTy::Scalar(*ksc), k, ch);
                    }
                    let mut vb = vec![];
                    if !(ch.map_style == 2 && val_default) {
                        put_single(doc, &mut vb, 2, &f.ty, v, ch);
                    }
                    let body = if ch.map_style == 1 { [vb, kb].concat() } else { [kb, vb].concat() };
                    let mut o = vec![];
                    put_key(&mut o, *num, 2);
                    put_varint(&mut o, body.len() as u64);
                    o.extend_from_slice(&body);
                    recs.push(o);
                }
            }
        }
    }
    // field order is free, but records of one field keep their relative order
    if ch.order != 0 && recs.len() > 1 {
        let n = recs.len();
        let r = ch.order as usize % n;
        // rotate by whole fields only: find a rotation point that does not split a field's records
        let key_of = |b: &Vec<u8>| -> u64 {
            let mut v = 0u64;
            let mut sh = 0;
            for x in b {
                v |= ((x & 0x7f) as u64) << sh;
                if x & 0x80 == 0 {
                    break;
                }
                sh += 7;
            }
            v >> 3
        };
        let mut cut = r;
        while cut < n && cut > 0 && key_of(&recs[cut]) == key_of(&recs[cut - 1]) {
            cut += 1;
        }
        if cut < n {
            recs.rotate_left(cut);
        }
        if ch.order % 2 == 1 {
            // reverse the order of fields, keeping each field's records in order
            let mut groups: Vec<Vec<Vec<u8>>> = vec![];
            for rec in recs.drain(..) {
                match groups.last_mut() {
                    Some(g) if key_of(&g[0]) == key_of(&rec) => g.push(rec),
                    _ => groups.push(vec![rec]),
                }
            }
            groups.reverse();
            // groups of the same field must not become adjacent-but-reordered: merge is order sensitive
            // only within one field, and whole groups keep their internal order
            let mut seen: Vec<u64> = vec![];
            let mut ok = true;
            for g in &groups {
                let k = key_of(&g[0]);
                if seen.contains(&k) {
                    ok = false;
                }
                seen.push(k);
            }
            if !ok {
                groups.reverse();
            }
            recs = groups.into_iter().flatten().collect();
        }
    }
    recs
}

pub fn encode_msg(doc: &PDoc, r: &Ref, m: &PMsg, ch: &EncChoice) -> Vec<u8> {
    encode_records(doc, r, m, ch).concat()
}

pub struct PDec<'a> {
    pub buf: &'a [u8],
    pub pos: usize,
}

pub type PResultD<T> = Result<T, String>;

impl<'a> PDec<'a> {
    fn varint(&mut self) -> PResultD<u64> {
        let mut r = 0u64;
        for i in 0..10 {
            let b = *self.buf.get(self.pos).ok_or("eof in varint")?;
            self.pos += 1;
            r |= ((b & 0x7f) as u64) << (7 * i);
            if b & 0x80 == 0 {
                return Ok(r);
            }
        }
        Err("varint too long".into())
    }
    fn take(&mut self, n: usize) -> PResultD<&'a [u8]> {
        if self.buf.len() - self.pos < n {
            return Err("eof".into());
        }
        let s = &self.buf[self.pos..self.pos + n];
        self.pos += n;
        Ok(s)
    }
    fn skip(&mut self, wire: u8, number: u32, depth: usize) -> PResultD<()> {
        if depth > 200 {
            return Err("too deep".into());
        }
        match wire {
            0 => {
                self.varint()?;
            }
            1 => {
                self.take(8)?;
            }
            2 => {
                let n = self.varint()? as usize;
                self.take(n)?;
            }
            3 => loop {
                // group: until the matching end-group key
                let key = self.varint()?;
                let (num, w) = ((key >> 3) as u32, (key & 7) as u8);
                if w == 4 {
                    if num != number {
                        return Err("mismatched end group".into());
                    }
                    break;
                }
                self.skip(w, num, depth + 1)?;
            },
            5 => {
                self.take(4)?;
            }
            w => return Err(format!("bad wire type {}", w)),
        }
        Ok(())
    }
}

fn read_scalar(d: &mut PDec, sc: Sc) -> PResultD<PV> {
    Ok(match sc {
        Sc::Double => PV::F64(u64::from_le_bytes(d.take(8)?.try_into().unwrap())),
        Sc::Float => PV::F32(u32::from_le_bytes(d.take(4)?.try_into().unwrap())),
        Sc::Int32 => PV::I32(d.varint()? as i32),
        Sc::Int64 => PV::I64(d.varint()? as i64),
        Sc::Uint32 => PV::U32(d.varint()? as u32),
        Sc::Uint64 => PV::U64(d.varint()?),
        Sc::Sint32 => {
            let z = d.varint()? as u32;
            PV::I32(((z >> 1) as i32) ^ -((z & 1) as i32))
        }
        Sc::Sint64 => {
            let z = d.varint()?;
            PV::I64(((z >> 1) as i64) ^ -((z & 1) as i64))
        }
        Sc::Fixed32 => PV::U32(u32::from_le_bytes(d.take(4)?.try_into().unwrap())),
        Sc::Fixed64 => PV::U64(u64::from_le_bytes(d.take(8)?.try_into().unwrap())),
        Sc::Sfixed32 => PV::I32(i32::from_le_bytes(d.take(4)?.try_into().unwrap())),
        Sc::Sfixed64 => PV::I64(i64::from_le_bytes(d.take(8)?.try_into().unwrap())),
        Sc::Bool => PV::Bool(d.varint()? != 0),
        Sc::String => {
            let n = d.varint()? as usize;
            let b = d.take(n)?.to_vec();
            if std::str::from_utf8(&b).is_err() {
                return Err("invalid utf-8 in string".into());
            }
            PV::Str(b)
        }
        Sc::Bytes => {
            let n = d.varint()? as usize;
            PV::Bytes(d.take(n)?.to_vec())
        }
    })
}

/// Decodes `bytes` and merges into `into` (protobuf merge semantics).
pub fn merge_msg(doc: &PDoc, r: &Ref, bytes: &[u8], into: &mut PMsg, depth: usize) -> PResultD<()> {
    if depth > 100 {
        return Err("recursion limit".into());
    }
    let decl = doc.message(r);
    let mut d = PDec { buf: bytes, pos: 0 };
    while d.pos < bytes.len() {
        let key = d.varint()?;
        if key > u32::MAX as u64 {
            return Err("key too large".into());
        }
        let (num, wire) = ((key >> 3) as u32, (key & 7) as u8);
        if num == 0 {
            return Err("field number 0".into());
        }
        let Some(f) = decl.fields.iter().find(|f| f.number == num) else {
            d.skip(wire, num, 0)?;
            continue;
        };
        let elem_wire = match &f.ty {
            PTy::Scalar(sc) => sc.wire(),
            PTy::Enum(_) => 0,
            PTy::Message(_) => 2,
        };
        let read_one = |d: &mut PDec, into_existing: Option<&PV>| -> PResultD<PV> {
            match &f.ty {
                PTy::Scalar(sc) => read_scalar(d, *sc),
                PTy::Enum(_) => Ok(PV::I32(d.varint()? as i32)),
                PTy::Message(mr) => {
                    let n = d.varint()? as usize;
                    let body = d.take(n)?;
                    let mut m = match into_existing {
                        Some(PV::Msg(m)) => m.clone(),
                        _ => PMsg::default(),
                    };
                    merge_msg(doc, mr, body, &mut m, depth + 1)?;
                    Ok(PV::Msg(m))
                }
            }
        };
        match &f.label {
            Label::Plain | Label::Optional | Label::Required | Label::Oneof(_) => {
                if wire != elem_wire {
                    return Err(format!("field {} has wire type {}, expected {}", num, wire, elem_wire));
                }
                // a later oneof member replaces an earlier one
                if let Label::Oneof(oi) = &f.label {
                    let others: Vec<u32> = decl.fields.iter().filter(|g| g.label == Label::Oneof(*oi) && g.number != num).map(|g| g.number).collect();
                    for o in others {
                        into.fields.remove(&o);
                    }
                }
                let existing = match into.fields.get(&num) {
                    Some(PFV::Single(v)) => Some(v.clone()),
                    _ => None,
                };
                let v = read_one(&mut d, existing.as_ref())?;
                into.fields.insert(num, PFV::Single(v));
            }
            Label::Repeated => {
                let packable = elem_wire != 2;
                let mut got = vec![];
                if packable && wire == 2 {
                    let n = d.varint()? as usize;
                    let body = d.take(n)?;
                    let mut pd = PDec { buf: body, pos: 0 };
                    while pd.pos < body.len() {
                        got.push(read_one(&mut pd, None)?);
                    }
                } else if wire == elem_wire {
                    got.push(read_one(&mut d, None)?);
                } else {
                    return Err(format!("repeated field {} has wire type {}", num, wire));
                }
                match into.fields.entry(num).or_insert(PFV::Repeated(vec![])) {
                    PFV::Repeated(vs) => vs.extend(got),
                    _ => return Err("shape".into()),
                }
            }
            Label::Map(ksc) => {
                if wire != 2 {
                    return Err(format!("map field {} has wire type {}", num, wire));
                }
                let n = d.varint()? as usize;
                let body = d.take(n)?;
                let mut ed = PDec { buf: body, pos: 0 };
                let mut k = default_pv(doc, &PTy::Scalar(*ksc));
                let mut v = default_pv(doc, &f.ty);
                while ed.pos < body.len() {
                    let key = ed.varint()?;
                    let (en, ew) = ((key >> 3) as u32, (key & 7) as u8);
                    match en {
                        1 => {
                            if ew != ksc.wire() {
                                return Err("map key wire type".into());
                            }
                            k = read_scalar(&mut ed, *ksc)?;
                        }
                        2 => {
                            if ew != elem_wire {
                                return Err("map value wire type".into());
                            }
                            v = match &f.ty {
                                PTy::Scalar(sc) => read_scalar(&mut ed, *sc)?,
                                PTy::Enum(_) => PV::I32(ed.varint()? as i32),
                                PTy::Message(mr) => {
                                    let n = ed.varint()? as usize;
                                    let b = ed.take(n)?;
                                    let mut m = match &v {
                                        PV::Msg(m) => m.clone(),
                                        _ => PMsg::default(),
                                    };
                                    merge_msg(doc, mr, b, &mut m, depth + 1)?;
                                    PV::Msg(m)
                                }
                            };
                        }
                        _ => ed.skip(ew, en, 0)?,
                    }
                }
                match into.fields.entry(num).or_insert(PFV::Map(vec![])) {
                    PFV::Map(es) => {
                        // later keys replace earlier equal keys
                        if let Some(e) = es.iter_mut().find(|(kk, _)| *kk == k) {
                            e.1 = v;
                        } else {
                            es.push((k, v));
                        }
                    }
                    _ => return Err("shape".into()),
                }
            }
        }
    }
    Ok(())
}

pub fn decode_msg(doc: &PDoc, r: &Ref, bytes: &[u8]) -> PResultD<PMsg> {
    let mut m = PMsg::default();
    merge_msg(doc, r, bytes, &mut m, 0)?;
    Ok(m)
}

/// An unknown-field record of the given wire type (number must not be declared).
pub fn unknown_record(number: u32, kind: u8, payload: &[u8]) -> Vec<u8> {
    let mut o = vec![];
    match kind % 5 {
        0 => {
            put_key(&mut o, number, 0);
            // every varint width up to the ten bytes of a negative int32 / int64 / enum
            let x = payload.iter().fold(0u64, |a, b| a.wrapping_mul(131).wrapping_add(*b as u64));
            let v = match payload.len() % 4 {
                0 => x,
                1 => u64::MAX - x,
                2 => x << (7 * (payload.first().copied().unwrap_or(0) as u32 % 9)),
                _ => (x as i32 as i64 | i64::MIN >> 32) as u64,
            };
            put_varint(&mut o, v);
        }
        1 => {
            put_key(&mut o, number, 1);
            let mut b = [0u8; 8];
            for (i, x) in payload.iter().take(8).enumerate() {
                b[i] = *x;
            }
            o.extend_from_slice(&b);
        }
        2 => {
            put_key(&mut o, number, 2);
            put_varint(&mut o, payload.len() as u64);
            o.extend_from_slice(payload);
        }
        3 => {
            put_key(&mut o, number, 5);
            let mut b = [0u8; 4];
            for (i, x) in payload.iter().take(4).enumerate() {
                b[i] = *x;
            }
            o.extend_from_slice(&b);
        }
        _ => {
            // group with nested content: a varint field, a length-delimited field and a nested group
            put_key(&mut o, number, 3);
            put_key(&mut o, 1, 0);
            put_varint(&mut o, payload.len() as u64);
            put_key(&mut o, 2, 2);
            put_varint(&mut o, payload.len() as u64);
            o.extend_from_slice(payload);
            put_key(&mut o, 3, 3);
            put_key(&mut o, 7, 5);
            o.extend_from_slice(&[1, 2, 3, 4]);
            put_key(&mut o, 3, 4);
            put_key(&mut o, number, 4);
        }
    }
    o
}

// ---------------------------------------------------------------------------------------------
// generator

#[derive(Clone, Debug, PartialEq, Eq, Hash, Serialize, Deserialize)]
pub struct RawPField {
    pub num_seed: u32,
    pub label: u8,
    pub ty: u16,
    pub key: u8,
}

#[derive(Clone, Debug, PartialEq, Eq, Hash, Serialize, Deserialize)]
pub struct RawPMsg {
    pub fields: Vec<RawPField>,
    pub nested: Vec<RawPMsg>,
    pub n_enums: u8,
    pub n_oneofs: u8,
}

#[derive(Clone, Debug, PartialEq, Eq, Hash, Serialize, Deserialize)]
pub struct RawPDoc {
    pub two_files: bool,
    pub proto3: [bool; 2],
    pub package: [u8; 2],
    pub msgs: Vec<(bool, RawPMsg)>,
    pub top_enums: u8,
    pub services: u8,
}

fn arb_raw_msg(depth: u32) -> BoxedStrategy<RawPMsg> {
    let field = (any::<u32>(), 0u8..12, any::<u16>(), any::<u8>()).prop_map(|(num_seed, label, ty, key)| RawPField { num_seed, label, ty, key });
    let nested = if depth == 0 { Just(vec![]).boxed() } else { prop::collection::vec(arb_raw_msg(depth - 1), 0..3).boxed() };
    (prop::collection::vec(field, 0..9), nested, 0u8..3, 0u8..3).prop_map(|(fields, nested, n_enums, n_oneofs)| RawPMsg { fields, nested, n_enums, n_oneofs }).boxed()
}

pub fn arb_raw_pdoc() -> BoxedStrategy<RawPDoc> {
    (any::<bool>(), any::<[bool; 2]>(), any::<[u8; 2]>(), prop::collection::vec((any::<bool>(), arb_raw_msg(2)), 1..6), 0u8..3, 0u8..3)
        .prop_map(|(two_files, proto3, package, msgs, top_enums, services)| RawPDoc { two_files, proto3, package, msgs, top_enums, services })
        .boxed()
}

impl Shrink for RawPDoc {
    fn candidates(&self) -> Vec<RawPDoc> {
        let mut out = vec![];
        if self.two_files {
            out.push(RawPDoc { two_files: false, ..self.clone() });
        }
        for i in 0..self.msgs.len() {
            if self.msgs.len() > 1 {
                let mut m = self.msgs.clone();
                m.remove(i);
                out.push(RawPDoc { msgs: m, ..self.clone() });
            }
        }
        if self.services > 0 {
            out.push(RawPDoc { services: 0, ..self.clone() });
        }
        if self.top_enums > 0 {
            out.push(RawPDoc { top_enums: 0, ..self.clone() });
        }
        fn shrink_msg(m: &RawPMsg) -> Vec<RawPMsg> {
            let mut out = vec![];
            for i in 0..m.fields.len() {
                let mut f = m.fields.clone();
                f.remove(i);
                out.push(RawPMsg { fields: f, ..m.clone() });
            }
            for i in 0..m.nested.len() {
                let mut n = m.nested.clone();
                n.remove(i);
                out.push(RawPMsg { nested: n, ..m.clone() });
            }
            for i in 0..m.nested.len() {
                for c in shrink_msg(&m.nested[i]) {
                    let mut n = m.nested.clone();
                    n[i] = c;
                    out.push(RawPMsg { nested: n, ..m.clone() });
                }
            }
            if m.n_enums > 0 {
                out.push(RawPMsg { n_enums: 0, ..m.clone() });
            }
            if m.n_oneofs > 0 {
                out.push(RawPMsg { n_oneofs: 0, ..m.clone() });
            }
            out
        }
        for i in 0..self.msgs.len() {
            for c in shrink_msg(&self.msgs[i].1) {
                let mut m = self.msgs.clone();
                m[i].1 = c;
                out.push(RawPDoc { msgs: m, ..self.clone() });
            }
        }
        out
    }
}

const PSYL: [&str; 12] = ["Bak", "Cil", "Dop", "Fen", "Gur", "Haz", "Jex", "Kiv", "Lom", "Nud", "Paf", "Qor"];

pub fn resolve_pdoc(raw: &RawPDoc) -> PDoc {
    let nfiles = if raw.two_files { 2 } else { 1 };
    let mut files: Vec<PFile> = (0..nfiles)
        .map(|i| PFile {
            stem: format!("pfile{}", i),
            proto3: raw.proto3[i],
            // (a file that is imported needs a package: known finding proto-import-without-package)
            package: match if i == 1 { 1 + raw.package[i] % 2 } else { raw.package[i] % 3 } {
                0 => vec![],
                1 => vec![format!("pk{}", i)],
                _ => vec![format!("pk{}", i), "sub".to_string()],
            },
            imports: vec![],
            messages: vec![],
            enums: vec![],
            services: vec![],
        })
        .collect();
    // top-level enums (file 0 gets them; file 1 is the lower-level file and gets one too)
    let mut enum_refs: Vec<Ref> = vec![];
    let mk_enum = |name: String, proto3: bool, seed: usize| -> PEnum {
        let n = 1 + seed % 4;
        let mut values = vec![];
        for i in 0..n {
            let v = if i == 0 { if proto3 { 0 } else { (seed % 3) as i32 } } else { (i as i32) * (1 + (seed % 7) as i32) + if seed % 5 == 0 { 1000 } else { 0 } };
            values.push((format!("{}_V{}", name.to_uppercase(), i), v));
        }
        PEnum { name, values }
    };
    for fi in (0..nfiles).rev() {
        let n = if fi == 0 { raw.top_enums as usize } else { 1 };
        for k in 0..n {
            let name = format!("En{}x{}", fi, k);
            let e = mk_enum(name.clone(), files[fi].proto3, k + fi * 3 + raw.services as usize);
            files[fi].enums.push(e);
            enum_refs.push(Ref { file: fi, path: vec![name] });
        }
    }
    // message skeleton first (names), so that fields can reference any message
    fn skeleton(raw: &RawPMsg, name: String, proto3: bool, file: usize, prefix: &[String], msg_refs: &mut Vec<Ref>, enum_refs: &mut Vec<Ref>, counter: &mut usize) -> PMessage {
        let mut path = prefix.to_vec();
        path.push(name.clone());
        msg_refs.push(Ref { file, path: path.clone() });
        let mut enums = vec![];
        for k in 0..raw.n_enums {
            let en = format!("Ne{}", k);
            let n = 1 + (*counter + k as usize) % 3;
            let mut values = vec![];
            for i in 0..n {
                values.push((format!("{}_{}_{}", name.to_uppercase(), en.to_uppercase(), i), if i == 0 && proto3 { 0 } else { i as i32 + (*counter % 4) as i32 }));
            }
            enums.push(PEnum { name: en.clone(), values });
            let mut ep = path.clone();
            ep.push(en);
            enum_refs.push(Ref { file, path: ep });
        }
        let mut nested = vec![];
        for (i, n) in raw.nested.iter().enumerate() {
            *counter += 1;
            let nn = format!("{}{}", PSYL[(*counter + i) % PSYL.len()], *counter);
            nested.push(skeleton(n, nn, proto3, file, &path, msg_refs, enum_refs, counter));
        }
        PMessage { name, fields: vec![], oneofs: (0..raw.n_oneofs).map(|k| format!("choice{}", k)).collect(), nested, enums }
    }
    let mut msg_refs: Vec<Ref> = vec![];
    let mut counter = 0usize;
    let mut placed: Vec<(usize, usize)> = vec![]; // (file, index in file.messages) per raw msg
    for (i, (in_second, rm)) in raw.msgs.iter().enumerate() {
        let file = if *in_second && nfiles == 2 { 1 } else { 0 };
        counter += 1;
        let name = format!("{}{}", PSYL[(i * 5 + file) % PSYL.len()], counter);
        let m = skeleton(rm, name, files[file].proto3, file, &[], &mut msg_refs, &mut enum_refs, &mut counter);
        files[file].messages.push(m);
        placed.push((file, files[file].messages.len() - 1));
    }
    // fields
    fn fill(raw: &RawPMsg, m: &mut PMessage, file: usize, proto3: bool, msg_refs: &[Ref], enum_refs: &[Ref], files_proto3: &[bool], uses_other: &mut bool) {
        let mut used = std::collections::BTreeSet::new();
        for (i, rf) in raw.fields.iter().enumerate() {
            let mut number = match rf.num_seed % 6 {
                0..=2 => (i + 1) as u32,
                3 => 1 + rf.num_seed % 2047,
                4 => 1 + rf.num_seed % 18999,
                _ => 20000 + rf.num_seed % ((1 << 29) - 20001),
            };
            while !used.insert(number) || (19000..=19999).contains(&number) {
                number = if number >= (1 << 29) - 1 { 1 } else { number + 1 };
            }
            // type: scalar, message or enum; references only to files >= this one (file 1 is the lower level)
            let msgs: Vec<&Ref> = msg_refs.iter().filter(|r| r.file >= file).collect();
            // proto3 messages may only use proto3 enums (an open-enum rule of protoc)
            let enums: Vec<&Ref> = enum_refs.iter().filter(|r| r.file >= file && (!proto3 || files_proto3[r.file])).collect();
            let ty = match rf.ty % 10 {
                0..=5 => PTy::Scalar(ALL_SC[(rf.ty as usize / 10) % ALL_SC.len()]),
                6 | 7 if !msgs.is_empty() => PTy::Message((*msgs[(rf.ty as usize / 10) % msgs.len()]).clone()),
                8 | 9 if !enums.is_empty() => PTy::Enum((*enums[(rf.ty as usize / 10) % enums.len()]).clone()),
                _ => PTy::Scalar(ALL_SC[(rf.ty as usize / 7) % ALL_SC.len()]),
            };
            if let PTy::Message(r) | PTy::Enum(r) = &ty {
                if r.file != file {
                    *uses_other = true;
                }
            }
            let n_oneofs = m.oneofs.len();
            let label = match rf.label {
                0 | 1 => {
                    if proto3 {
                        Label::Plain
                    } else {
                        Label::Optional
                    }
                }
                2 | 3 => Label::Optional,
                4 => {
                    if proto3 {
                        Label::Plain
                    } else {
                        Label::Required
                    }
                }
                5 | 6 => Label::Repeated,
                7 | 8 => {
                    let k = ALL_SC[rf.key as usize % ALL_SC.len()];
                    Label::Map(if k.map_key_ok() { k } else { Sc::Int32 })
                }
                _ if n_oneofs > 0 => Label::Oneof(rf.key as usize % n_oneofs),
                _ => Label::Repeated,
            };
            // a required field that (transitively) contains itself has no finite value
            let label = if label == Label::Required && matches!(ty, PTy::Message(_)) { Label::Optional } else { label };
            // message-typed oneof members may close a type cycle, which pilota-build boxes without
            // adapting the merge code (known finding proto-recursive-oneof); generated documents
            // keep oneof members scalar / enum typed, the kitchen sink has acyclic message members
            let label = if matches!(label, Label::Oneof(_)) && matches!(ty, PTy::Message(_)) { Label::Optional } else { label };
            m.fields.push(PField { number, name: format!("f{}_{}", PSYL[(i * 3) % PSYL.len()].to_lowercase(), i), ty, label });
        }
        for (n, rn) in m.nested.iter_mut().zip(raw.nested.iter()) {
            fill(rn, n, file, proto3, msg_refs, enum_refs, files_proto3, uses_other);
        }
    }
    let files_proto3: Vec<bool> = files.iter().map(|f| f.proto3).collect();
    let mut uses_other = [false, false];
    for (i, (_, rm)) in raw.msgs.iter().enumerate() {
        let (file, idx) = placed[i];
        let proto3 = files[file].proto3;
        let mut m = files[file].messages[idx].clone();
        fill(rm, &mut m, file, proto3, &msg_refs, &enum_refs, &files_proto3, &mut uses_other[file]);
        files[file].messages[idx] = m;
    }
    if nfiles == 2 {
        // the main file imports the lower-level one (always, so that it is built)
        files[0].imports.push(1);
    }
    // services
    let tops: Vec<Ref> = msg_refs.iter().filter(|r| r.path.len() == 1).cloned().collect();
    for s in 0..raw.services as usize {
        if tops.is_empty() {
            break;
        }
        let mut methods = vec![];
        for k in 0..(1 + s % 3) {
            let i = &tops[(s * 3 + k) % tops.len()];
            let o = &tops[(s * 5 + k * 2 + 1) % tops.len()];
            methods.push((format!("Call{}", k), i.clone(), o.clone(), k % 3 == 1, k % 3 == 2));
        }
        files[0].services.push((format!("Svc{}", s), methods));
    }
    PDoc { files }
}

pub fn arb_pdoc() -> BoxedStrategy<(RawPDoc, PDoc)> {
    arb_raw_pdoc()
        .prop_map(|r| {
            let d = resolve_pdoc(&r);
            (r, d)
        })
        .boxed()
}

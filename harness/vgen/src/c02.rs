//! C02 generated Thrift types round trip under every protocol (plus the generated-type part of
//! C04: reported size equals bytes written).
use crate::util::*;
use crate::GCtx;
use proptest::prelude::*;
use serde_json::json;
use vcore::evidence::{run_prop, Recorder};
use vcore::tschema::{arb_shape_value, MsgType, ValCfg};
use vrt::codec::PKind;

fn fp<T: std::hash::Hash>(t: &T) -> u64 {
    use std::hash::Hasher;
    let mut h = std::collections::hash_map::DefaultHasher::new();
    t.hash(&mut h);
    h.finish()
}

pub fn arb_sched() -> BoxedStrategy<Sched> {
    prop_oneof![
        3 => Just(Sched::Sync),
        1 => Just(Sched::ByteWise),
        2 => prop::collection::vec((1u8..=40, prop::bool::weighted(0.3)), 1..6).prop_map(Sched::Script),
    ]
    .boxed()
}

pub fn arb_pk() -> BoxedStrategy<PKind> {
    prop::sample::select(vec![PKind::Binary, PKind::BinaryLe, PKind::Compact, PKind::Unsafe]).boxed()
}

/// All (unit, doc index, type) triples that have generated code.
pub fn targets(ctx: &GCtx) -> Vec<(String, usize, MsgType)> {
    let mut out = vec![];
    for u in &ctx.corpus.units {
        let key = u.key(&ctx.corpus.docs);
        let doc = &ctx.corpus.docs[u.doc].doc;
        for mt in doc.msg_types() {
            if ctx.entry(&key, doc, &mt).is_some() {
                out.push((key.clone(), u.doc, mt));
            }
        }
    }
    out
}

pub fn run(ctx: &GCtx) -> i32 {
    let rec = std::cell::RefCell::new(Recorder::new("C02", ctx.tier, ctx.seed));
    {
        let mut r = rec.borrow_mut();
        r.rule = "for every type with a generated Message impl in the corpus (kitchen-sink documents + documents generated from the seed; plain, keep_unknown_fields and split builds): schema-directed value v (absent/present optionals, empty and non-empty containers, distinct set members and map keys, recursion to depth 4, unknown enum numbers) x {binary, binary-LE, compact, unchecked} x {sync, async under a delivery script} x {BytesMut, LinkedBytes zero-copy}; reference-encode v, T::decode, T::size, T::encode, reference-decode and compare with v after filling IDL defaults; decode(encode(t)) == t under the generated PartialEq; non-trivial = v has >= 3 fields or contains a container/nested struct; distinct by (type, protocol, hash of the reference bytes)".into();
        r.assumptions = vec![
            "the Rust type of a declaration is found by name (plain identifier pool), the value itself is only observed through the wire".into(),
            "documents that pilota-build rejects or whose output does not compile are excluded here and reported by C14".into(),
        ];
    }
    if let Some(rp) = &ctx.replay {
        let case: RtCase = serde_json::from_value(rp["case"]["case"].clone()).expect("replay case");
        let Some((doc, mt, e, keep)) = resolve_case(ctx, &case.unit, &case.ty) else {
            eprintln!("replay: type {} of unit {} is not in the corpus of this seed/tier", case.ty, case.unit);
            return 2;
        };
        return match as_presult(check_rt(doc, &mt, e, &case, keep)) {
            Ok(()) => {
                println!("replay: property holds on this case");
                0
            }
            Err(f) => {
                println!("VIOLATION property=C02 replay=(given)");
                println!("  key={} {}", f.key, f.msg);
                1
            }
        };
    }
    let tg = targets(ctx);
    if tg.is_empty() {
        eprintln!("INFRA: no generated types available");
        return 2;
    }
    let per_type = ctx.tier.pick(60, 1200);
    let mut seen = std::collections::BTreeSet::new();
    for (unit, di, mt) in &tg {
        let doc = &ctx.corpus.docs[*di].doc;
        let entry = ctx.entry(unit, doc, mt).unwrap();
        let keep = unit.ends_with("_k");
        let side = ctx.corpus.docs[*di].side;
        let ty_path = GCtx::path_of(doc, mt);
        let strat = (arb_shape_value(doc, &mt.shape, ValCfg::default()), arb_pk(), arb_sched(), any::<bool>(), 0u8..6)
            .prop_map(|(value, pk, sched, linked_zc, sentinel)| (value, pk, sched, linked_zc, sentinel));
        let unit2 = unit.clone();
        let ty2 = ty_path.clone();
        let strat = strat.prop_map(move |(value, pk, sched, linked_zc, sentinel)| RtCase { unit: unit2.clone(), ty: ty2.clone(), value, pk, sched, linked_zc, sentinel });
        let res = run_prop(&rec, &format!("c02-{}-{}", unit, ty_path), per_type, strat, |c: &RtCase| {
            {
                let mut r = rec.borrow_mut();
                let s = vcore::tval::shape_of(&c.value);
                let nfields = if let vcore::tval::TVal::Struct(fs) = &c.value { fs.len() } else { 0 };
                let bytes = vcore::refthrift::encode(c.pk.ref_proto(), &c.value);
                r.case(fp(&(&c.ty, c.pk, &bytes)), nfields >= 3 || s.has_container && !matches!(c.value, vcore::tval::TVal::Struct(ref f) if f.is_empty()), || json!({"unit": c.unit, "type": c.ty, "pk": format!("{:?}", c.pk), "sched": format!("{:?}", c.sched), "value": format!("{:?}", c.value)}));
                r.class(&format!("shape {}", shape_kind(&mt.shape)));
                r.class(&format!("protocol {:?}", c.pk));
                r.class_if(c.sched != Sched::Sync, "async");
                r.class_if(mt.synthesized, "synthesised method type");
                r.class_if(keep, "keep_unknown_fields build");
                r.class_if(unit.ends_with("_s"), "split build");
                r.class_if(s.big_payload, "payload >= 4096");
                r.class_if(c.linked_zc, "LinkedBytes zero-copy encode");
                r.class_if(has_nan(&c.value), "NaN");
                r.class_if(s.struct_levels >= 3, ">= 3 struct levels");
            }
            // shrinking may leave the declared type; such wire values are C08's subject
            if !doc.conforms_shape(&mt.shape, &c.value) {
                return Ok(());
            }
            // known finding: main stream excludes the class by construction
            if keep && ctx.findings.is_open("C13", "arg-type-tail-swallow") && doc.triggers_tail_swallow(mt, &c.value) {
                rec.borrow_mut().exclude("arg-type-tail-swallow (C13 known finding; keep_unknown_fields build, all known fields of an argument type present)");
                return Ok(());
            }
            match check_rt(doc, mt, entry, c, keep) {
                // side-stream documents exercise exactly one known-finding class
                Err(f) if side.is_some() && f.key.starts_with("value-differs") => Err(vcore::evidence::Fail::new(side.unwrap(), f.msg)),
                Err(f) if seen.contains(&f.key) || ctx.findings.is_open("C02", &f.key) => Ok(()),
                o => as_presult(o),
            }
        });
        if let Some((case, f)) = res {
            seen.insert(f.key.clone());
            ctx.report(&rec, "roundtrip", &case, &f);
        }
    }
    let code = rec.borrow().finish(&ctx.findings);
    code
}

//! Round-trip style checks over generated types: C02, C04 (generated part), C08, C13.
use crate::util::*;
use crate::GCtx;
use proptest::prelude::*;
use serde_json::json;
use vcore::evidence::{run_prop, Fail, Recorder};
use vcore::tschema::{arb_edit, arb_shape_value, Edit, MsgType, ValCfg};
use vrt::codec::PKind;

pub fn fp<T: std::hash::Hash>(t: &T) -> u64 {
    use std::hash::Hasher;
    let mut h = std::collections::hash_map::DefaultHasher::new();
    t.hash(&mut h);
    h.finish()
}

pub fn arb_sched() -> BoxedStrategy<Sched> {
    prop_oneof![
        3 => Just(Sched::Sync),
        1 => Just(Sched::ByteWise),
        2 => prop::collection::vec((1u8..=40, prop::bool::weighted(0.3)), 1..6).prop_map(Sched::Script),
    ]
    .boxed()
}

/// All (unit key, doc index, type) triples that have generated code.
pub fn targets(ctx: &GCtx) -> Vec<(String, usize, MsgType)> {
    let mut out = vec![];
    for u in &ctx.corpus.units {
        let key = u.key(&ctx.corpus.docs);
        let doc = &ctx.corpus.docs[u.doc].doc;
        for mt in doc.msg_types() {
            if ctx.entry(&key, doc, &mt).is_some() {
                out.push((key.clone(), u.doc, mt));
            }
        }
    }
    out
}

#[derive(Clone, Copy, PartialEq)]
pub enum Values {
    /// values of the declared type
    Conforming,
    /// values written under an evolved (writer) schema
    Evolved,
    /// conforming values plus unknown fields only (retention)
    WithUnknown,
}

pub struct Spec {
    pub prop: &'static str,
    pub rule: &'static str,
    pub assumptions: Vec<&'static str>,
    pub keep_units: Option<bool>,
    pub pks: Vec<PKind>,
    pub scheds: bool,
    pub values: Values,
    pub per_type: (u32, u32),
    /// failure keys (prefixes) that belong to this property; others are another property's
    pub own_keys: Vec<&'static str>,
    pub required_classes: Vec<&'static str>,
}

pub fn run(ctx: &GCtx, spec: &Spec) -> i32 {
    let rec = std::cell::RefCell::new(Recorder::new(spec.prop, ctx.tier, ctx.seed));
    {
        let mut r = rec.borrow_mut();
        r.rule = spec.rule.into();
        r.assumptions = spec.assumptions.iter().map(|s| s.to_string()).collect();
    }
    if let Some(rp) = &ctx.replay {
        let case: RtCase = serde_json::from_value(rp["case"]["case"].clone()).expect("replay case");
        let Some((doc, mt, e, keep)) = resolve_case(ctx, &case.unit, &case.ty) else {
            eprintln!("replay: type {} of unit {} is not in the corpus of this seed/tier", case.ty, case.unit);
            return 2;
        };
        return match as_presult(check_rt(doc, &mt, e, &case, keep)) {
            Ok(()) => {
                println!("replay: property holds on this case");
                0
            }
            Err(f) => {
                println!("VIOLATION property={} replay=(given)", spec.prop);
                println!("  key={} {}", f.key, f.msg);
                1
            }
        };
    }
    let tg = targets(ctx);
    if tg.is_empty() {
        eprintln!("INFRA: no generated types available");
        return 2;
    }
    let per_type = ctx.tier.pick(spec.per_type.0, spec.per_type.1);
    let mut seen = std::collections::BTreeSet::new();
    let tail_open = ctx.findings.is_open("C13", "arg-type-tail-swallow");
    let utm_open = ctx.findings.is_open("C08", "union-variant-wire-type-mismatch");
    for (unit, di, mt) in &tg {
        let keep = unit.ends_with("_k");
        if let Some(k) = spec.keep_units {
            if k != keep {
                continue;
            }
        }
        let doc = &ctx.corpus.docs[*di].doc;
        let side = ctx.corpus.docs[*di].side;
        // side-stream documents belong to the checks that own their finding
        if side.is_some() && !ctx.findings.is_open(spec.prop, side.unwrap()) {
            continue;
        }
        let entry = ctx.entry(unit, doc, mt).unwrap();
        let ty_path = GCtx::path_of(doc, mt);
        let edits: BoxedStrategy<Vec<Edit>> = match spec.values {
            Values::Conforming => Just(vec![]).boxed(),
            Values::Evolved => prop::collection::vec(arb_edit(), 1..5).boxed(),
            Values::WithUnknown => prop::collection::vec(vcore::tschema::arb_unknown_edit(), 1..5).boxed(),
        };
        let pks = spec.pks.clone();
        let union_replace = spec.values == Values::WithUnknown;
        let scheds = if spec.scheds { arb_sched() } else { Just(Sched::Sync).boxed() };
        let unit2 = unit.clone();
        let ty2 = ty_path.clone();
        let strat = (arb_shape_value(doc, &mt.shape, ValCfg::default()), edits, prop::sample::select(pks), scheds, any::<bool>(), 0u8..6)
            .prop_map(move |(value, edits, pk, sched, linked_zc, sentinel)| RtCase { unit: unit2.clone(), ty: ty2.clone(), value, edits, pk, sched, linked_zc, sentinel, union_replace });
        let res = run_prop(&rec, &format!("{}-{}-{}", spec.prop, unit, ty_path), per_type, strat, |c: &RtCase| {
            let (wire, info) = doc.evolve(&mt.shape, &c.value, &c.edits, c.union_replace);
            // C02/C04 quantify over values of the declared type; shrinking must not leave it
            if spec.values == Values::Conforming && !doc.conforms_shape(&mt.shape, &wire) {
                return Ok(());
            }
            if spec.values != Values::Conforming && !doc.tolerant_conforms_shape_for(&mt.shape, &wire, keep && spec.values == Values::WithUnknown) {
                rec.borrow_mut().exclude("a known field keeps its outer wire type but changes inner types (outside the property)");
                return Ok(());
            }
            // known findings: the main stream excludes the class by construction (counted)
            if keep && tail_open && doc.triggers_tail_swallow(mt, &wire) {
                rec.borrow_mut().exclude("arg-type-tail-swallow (known finding of C13: keep_unknown_fields build, all known fields of an argument/return type present)");
                return Ok(());
            }
            if utm_open && doc.union_type_mismatch(&mt.shape, &wire) {
                rec.borrow_mut().exclude("union-variant-wire-type-mismatch (known finding of C08: a known union variant id carries another wire type)");
                return Ok(());
            }
            {
                let mut r = rec.borrow_mut();
                let s = vcore::tval::shape_of(&wire);
                let nfields = if let vcore::tval::TVal::Struct(fs) = &wire { fs.len() } else { 0 };
                let bytes = vcore::refthrift::encode(c.pk.ref_proto(), &wire);
                let nontrivial = match spec.values {
                    Values::Conforming => nfields >= 3 || (s.has_container && nfields > 0),
                    Values::Evolved => info.added + info.retyped + info.removed > 0 && nfields >= 2,
                    Values::WithUnknown => info.added_nested + info.added_in_container > 0,
                };
                r.case(fp(&(&c.ty, c.pk, &bytes)), nontrivial, || json!({"unit": c.unit, "type": c.ty, "pk": format!("{:?}", c.pk), "sched": format!("{:?}", c.sched), "wire": format!("{:?}", wire)}));
                r.class(&format!("shape {}", shape_kind(&mt.shape)));
                r.class(&format!("protocol {:?}", c.pk));
                r.class_if(c.sched != Sched::Sync, "async");
                r.class_if(mt.synthesized, "synthesised method type");
                r.class_if(mt.is_args, "method argument struct");
                r.class_if(keep, "keep_unknown_fields build");
                r.class_if(unit.ends_with("_s"), "split build");
                r.class_if(s.big_payload, "payload >= 4096");
                r.class_if(c.linked_zc, "LinkedBytes zero-copy encode");
                r.class_if(has_nan(&wire), "NaN");
                r.class_if(s.struct_levels >= 3, ">= 3 struct levels");
                r.class_if(s.bool_field, "bool field");
                r.class_if(info.added > 0, "edit: unknown field added");
                r.class_if(info.added_nested > 0, "edit: unknown field below the top level");
                r.class_if(info.added_in_container > 0, "edit: unknown field inside a container element");
                r.class_if(info.added_in_union > 0, "edit: unknown field in a union");
                r.class_if(info.removed > 0, "edit: field removed");
                r.class_if(info.retyped > 0, "edit: field retyped");
                r.class_if(info.reordered > 0, "edit: fields reordered");
                r.class_if(info.split_keys > 0, "edit: set element / map key with a twin that differs in an unknown field only");
            }
            // memory-unsafe code under test can take the process down without unwinding: the
            // orchestrator attributes such a death to the journaled case
            if ctx.skip_case() {
                return Ok(());
            }
            crate::journal(ctx, spec.prop, &rec, &json!({"sub": "roundtrip", "key": "process-died", "case": c}));
            match check_rt(doc, mt, entry, c, keep) {
                Ok(chk) => {
                    let mut r = rec.borrow_mut();
                    r.class_if(matches!(chk.expect, vcore::tschema::Expect::Error(_)), "reference semantics demand an error");
                    Ok(())
                }
                // side-stream documents exercise exactly one known-finding class
                Err(f) if side.is_some() && f.key.starts_with("value-differs") => Err(Fail::new(side.unwrap(), f.msg)),
                Err(f) if !spec.own_keys.is_empty() && !spec.own_keys.iter().any(|k| f.key.starts_with(k)) => {
                    rec.borrow_mut().exclude("failure that belongs to another property's check");
                    Ok(())
                }
                Err(f) if seen.contains(&f.key) || ctx.findings.is_open(spec.prop, &f.key) => Ok(()),
                Err(f) => Err(f),
            }
        });
        if let Some((case, f)) = res {
            seen.insert(f.key.clone());
            ctx.report(&rec, "roundtrip", &case, &f);
        }
    }
    // side streams for the known findings: a few cases of exactly the excluded class
    side_streams(ctx, spec, &rec, &tg);
    if rec.borrow().violations.is_empty() {
        let missing = rec.borrow().missing_classes(&spec.required_classes);
        if !missing.is_empty() {
            eprintln!("INCONCLUSIVE: generator never produced class(es) {:?}", missing);
            rec.borrow().finish(&ctx.findings);
            return 2;
        }
    }
    let code = rec.borrow().finish(&ctx.findings);
    code
}

/// Exercises the classes the main stream excludes, in a child process (a known finding may
/// be memory-unsafe and take the process down). A failure there is the known finding
/// (KNOWN-FINDING line); it is only looked for while the finding is listed as open.
fn side_streams(ctx: &GCtx, spec: &Spec, rec: &std::cell::RefCell<Recorder>, _tg: &[(String, usize, MsgType)]) {
    for (key, owner) in [("arg-type-tail-swallow", "C13"), ("union-variant-wire-type-mismatch", "C08")] {
        if spec.prop != owner || !ctx.findings.is_open(owner, key) {
            continue;
        }
        let exe = std::env::current_exe().expect("current exe");
        let out = std::process::Command::new(exe)
            .args([spec.prop, "--tier", ctx.tier.name(), "--side", key])
            .env("VERIF_SEED", (ctx.seed as i64).to_string())
            .output();
        match out {
            Ok(o) => {
                let so = String::from_utf8_lossy(&o.stdout).to_string();
                let mut tried = 0u64;
                let mut hits = 0u64;
                for l in so.lines() {
                    if let Some(r) = l.strip_prefix("SIDE tried=") {
                        let mut it = r.split(" hits=");
                        tried = it.next().and_then(|x| x.parse().ok()).unwrap_or(0);
                        hits = it.next().and_then(|x| x.parse().ok()).unwrap_or(0);
                    }
                }
                if !o.status.success() {
                    // the child died inside the known-finding class
                    hits += 1;
                    tried = tried.max(1);
                }
                let mut r = rec.borrow_mut();
                for _ in 0..tried {
                    r.class(&format!("side stream: {}", key));
                }
                for _ in 0..hits {
                    r.known_hit(key);
                }
            }
            Err(e) => eprintln!("note: cannot run the side stream for {}: {}", key, e),
        }
    }
}

/// Child mode: runs the side stream of one finding and prints `SIDE tried=<n> hits=<m>` after
/// every case (so that the parent still sees the counts if this process dies).
pub fn side_child(ctx: &GCtx, spec: &Spec, key: &str) -> i32 {
    let tg = targets(ctx);
    let budget = ctx.tier.pick(40, 400);
    let mut hits = 0u32;
    let mut tried = 0u32;
    'outer: for (unit, di, mt) in &tg {
        let keep = unit.ends_with("_k");
        if let Some(k) = spec.keep_units {
            if k != keep {
                continue;
            }
        }
        let doc = &ctx.corpus.docs[*di].doc;
        let entry = ctx.entry(unit, doc, mt).unwrap();
        let ty_path = GCtx::path_of(doc, mt);
        let strat = (arb_shape_value(doc, &mt.shape, ValCfg::default()), prop::collection::vec(arb_edit(), 0..3));
        for (value, edits) in vcore::corpus::sample(&strat, ctx.seed, &format!("side-{}-{}-{}", key, unit, ty_path), 12) {
            let (wire, _) = doc.evolve(&mt.shape, &value, &edits, spec.values == Values::WithUnknown);
            let in_class = match key {
                "arg-type-tail-swallow" => keep && doc.triggers_tail_swallow(mt, &wire),
                _ => doc.union_type_mismatch(&mt.shape, &wire),
            };
            if !in_class {
                continue;
            }
            tried += 1;
            println!("SIDE tried={} hits={}", tried, hits);
            let c = RtCase { unit: unit.clone(), ty: ty_path.clone(), value, edits, pk: spec.pks[0], sched: Sched::Sync, linked_zc: false, sentinel: 0, union_replace: spec.values == Values::WithUnknown };
            if check_rt(doc, mt, entry, &c, keep).is_err() {
                hits += 1;
            }
            println!("SIDE tried={} hits={}", tried, hits);
            if tried >= budget {
                break 'outer;
            }
        }
    }
    println!("SIDE tried={} hits={}", tried, hits);
    0
}

pub fn c02() -> Spec {
    Spec {
        prop: "C02",
        rule: "for every type with a generated Message impl in the corpus (kitchen-sink documents + documents generated from the seed; plain, keep_unknown_fields and split builds): schema-directed value v (absent/present optionals, empty and non-empty containers, distinct set members and map keys, recursion to depth 4, unknown enum numbers) x {binary, binary-LE, compact, unchecked} x {sync, async under a delivery script} x {BytesMut, LinkedBytes zero-copy}; reference-encode v, T::decode, T::size, T::encode, reference-decode and compare with v after filling IDL defaults; decode(encode(t)) == t under the generated PartialEq; non-trivial = v has >= 3 fields or contains a container/nested struct; distinct by (type, protocol, hash of the reference bytes)",
        assumptions: vec![
            "the Rust type of a declaration is found by name (plain identifier pool); the value itself is only observed through the wire",
            "documents that pilota-build rejects or whose output does not compile are excluded here and reported by C14",
        ],
        keep_units: None,
        pks: vec![PKind::Binary, PKind::BinaryLe, PKind::Compact, PKind::Unsafe],
        scheds: true,
        values: Values::Conforming,
        per_type: (250, 3000),
        own_keys: vec![],
        required_classes: vec!["shape struct", "shape union", "shape enum", "shape typedef", "async", "synthesised method type", "keep_unknown_fields build", "split build", "payload >= 4096", ">= 3 struct levels", "bool field"],
    }
}

pub fn c04() -> Spec {
    Spec {
        prop: "C04",
        rule: "generated part: as C02 (schema-directed values of every generated type, all protocols) but the oracle is only Message::size == bytes written, for a fresh length-protocol instance and for the writing instance itself; non-trivial = value has >= 3 fields or a container",
        assumptions: vec!["the unchecked codec's buffer is sized with the binary length protocol, as its callers do"],
        keep_units: None,
        pks: vec![PKind::Binary, PKind::BinaryLe, PKind::Compact, PKind::Unsafe],
        scheds: false,
        values: Values::Conforming,
        per_type: (120, 2000),
        own_keys: vec!["size-"],
        required_classes: vec!["shape struct", "shape union", "protocol Compact", "bool field"],
    }
}

pub fn c08() -> Spec {
    Spec {
        prop: "C08",
        rule: "reader type R from the corpus (builds without unknown-field retention), value of R, then 1..4 writer-side edits applied to the wire value at a generated struct/union node: unknown field added (fresh id, any type, any position), field removed, field retyped to another wire type, fields reordered (new enum numbers come from the value generator); reference-encoded under {binary, LE, compact, unchecked}, decoded sync and async; oracle project(w, R): unknown ids and wire-type mismatches ignored, IDL defaults filled, Err iff a required field without default is absent or a union has 0 (non-void) or >= 2 known variants; non-trivial = at least one edit took effect and the message has >= 2 fields",
        assumptions: vec![
            "retyping inside a container (same outer wire type) is outside the property and not generated",
            "a known union variant id that carries another wire type is the known finding union-variant-wire-type-mismatch: excluded from the main stream, exercised by a side stream",
        ],
        keep_units: Some(false),
        pks: vec![PKind::Binary, PKind::BinaryLe, PKind::Compact, PKind::Unsafe],
        scheds: true,
        values: Values::Evolved,
        per_type: (250, 3000),
        own_keys: vec![],
        required_classes: vec!["edit: unknown field added", "edit: field removed", "edit: field retyped", "edit: fields reordered", "edit: unknown field in a union", "reference semantics demand an error", "async", "shape union"],
    }
}

pub fn c13() -> Spec {
    Spec {
        prop: "C13",
        rule: "corpus built with keep_unknown_fields; value of the reader type plus 1..4 unknown fields of any wire type inserted at generated positions of generated struct/union nodes (top level, nested struct, container element, union, method argument struct), fields optionally reordered; reference-encoded (binary), decoded and re-encoded by the generated type with the checked and the unchecked binary codec; oracle: the reference decoder recovers every inserted field unchanged next to the known fields (multiset comparison), known fields decode as without retention; non-trivial = an unknown field below the top level or inside a container element",
        assumptions: vec![
            "types named as method argument / return type hit the known finding arg-type-tail-swallow once all their known fields are present: excluded from the main stream (counted), exercised by a side stream",
        ],
        keep_units: Some(true),
        pks: vec![PKind::Binary, PKind::Unsafe],
        scheds: false,
        values: Values::WithUnknown,
        per_type: (250, 3000),
        own_keys: vec![],
        required_classes: vec!["edit: unknown field added", "edit: unknown field below the top level", "edit: unknown field inside a container element", "edit: unknown field in a union", "method argument struct", "protocol Unsafe"],
    }
}

//! Value-level checks over generated protobuf messages: C05, C06, C10, C18 and the protobuf
//! part of C19.
use proptest::prelude::*;
use serde::{Deserialize, Serialize};
use serde_json::json;
use std::cell::RefCell;
use std::collections::BTreeMap;
use vcore::corpus::{proto_corpus, PCorpus};
use vcore::ensure;
use vcore::evidence::{catch, env_seed, run_prop, Fail, PResult, Recorder, Tier};
use vcore::findings::Findings;
use vcore::pschema::*;
use vcore::shrink::Shrink;
use vrt::pgen::PEntry;
use vrt::total::{limits_for, observe};

pub struct PCtx {
    pub tier: Tier,
    pub seed: u64,
    pub findings: Findings,
    pub corpus: PCorpus,
    pub table: BTreeMap<String, BTreeMap<String, PEntry>>,
    pub replay: Option<serde_json::Value>,
    pub feature_on: bool,
}

fn fp<T: std::hash::Hash>(t: &T) -> u64 {
    use std::hash::Hasher;
    let mut h = std::collections::hash_map::DefaultHasher::new();
    t.hash(&mut h);
    h.finish()
}

impl PCtx {
    pub fn targets(&self) -> Vec<(usize, Ref)> {
        let mut out = vec![];
        for (di, d) in self.corpus.docs.iter().enumerate() {
            for r in d.doc.all_messages() {
                if self.table.get(&d.key).map(|t| t.contains_key(&d.doc.rust_path(&r))).unwrap_or(false) {
                    out.push((di, r));
                }
            }
        }
        out
    }
    pub fn entry(&self, di: usize, r: &Ref) -> &PEntry {
        let d = &self.corpus.docs[di];
        &self.table[&d.key][&d.doc.rust_path(r)]
    }
    fn report<T: Serialize>(&self, rec: &RefCell<Recorder>, sub: &str, case: &T, f: &Fail) {
        let prop = rec.borrow().property.clone();
        if self.findings.is_open(&prop, &f.key) {
            rec.borrow_mut().known_hit(&f.key);
        } else {
            let replay = json!({ "sub": sub, "key": f.key, "case": serde_json::to_value(case).unwrap() });
            rec.borrow_mut().violation(sub, format!("key={} {}", f.key, f.msg), replay);
        }
    }
}

#[derive(Clone, Debug, Serialize, Deserialize, Hash)]
pub struct PCase {
    pub doc: String,
    pub msg: Ref,
    pub value: PMsg,
    pub other: Option<PMsg>,
    pub choice: EncChoice,
    /// unknown-field insertion: (seed, probability / 256)
    pub unknown: Option<(u64, u8)>,
}

impl Shrink for PCase {
    fn candidates(&self) -> Vec<PCase> {
        let mut out = vec![];
        if self.unknown.is_some() {
            out.push(PCase { unknown: None, ..self.clone() });
        }
        if self.choice != EncChoice::default() {
            out.push(PCase { choice: EncChoice::default(), ..self.clone() });
        }
        if self.other.is_some() {
            out.push(PCase { other: Some(PMsg::default()), ..self.clone() });
        }
        fn shrink_msg(m: &PMsg) -> Vec<PMsg> {
            let mut out = vec![];
            for k in m.fields.keys() {
                let mut c = m.clone();
                c.fields.remove(k);
                out.push(c);
            }
            for (k, v) in &m.fields {
                let alts: Vec<PFV> = match v {
                    PFV::Repeated(vs) if !vs.is_empty() => {
                        let mut a = vec![PFV::Repeated(vs[..vs.len() / 2].to_vec()), PFV::Repeated(vs[1..].to_vec())];
                        if let Some(PV::Msg(mm)) = vs.first() {
                            for s in shrink_msg(mm) {
                                let mut c = vs.clone();
                                c[0] = PV::Msg(s);
                                a.push(PFV::Repeated(c));
                            }
                        }
                        a
                    }
                    PFV::Map(es) if !es.is_empty() => vec![PFV::Map(es[1..].to_vec()), PFV::Map(es[..es.len() - 1].to_vec())],
                    PFV::Single(PV::Msg(mm)) => shrink_msg(mm).into_iter().map(|s| PFV::Single(PV::Msg(s))).collect(),
                    PFV::Single(PV::Str(b)) if !b.is_empty() => vec![PFV::Single(PV::Str(vec![]))],
                    PFV::Single(PV::Bytes(b)) if !b.is_empty() => vec![PFV::Single(PV::Bytes(vec![]))],
                    PFV::Single(PV::I32(x)) if *x != 0 && *x != -1 => vec![PFV::Single(PV::I32(-1)), PFV::Single(PV::I32(1))],
                    PFV::Single(PV::I64(x)) if *x != 0 && *x != -1 => vec![PFV::Single(PV::I64(-1)), PFV::Single(PV::I64(1))],
                    _ => vec![],
                };
                for a in alts {
                    let mut c = m.clone();
                    c.fields.insert(*k, a);
                    out.push(c);
                }
            }
            out
        }
        for v in shrink_msg(&self.value) {
            out.push(PCase { value: v, ..self.clone() });
        }
        if let Some(o) = &self.other {
            for v in shrink_msg(o) {
                out.push(PCase { other: Some(v), ..self.clone() });
            }
        }
        out
    }
}

fn has_nan(m: &PMsg) -> bool {
    fn pv(v: &PV) -> bool {
        match v {
            PV::F32(b) => f32::from_bits(*b).is_nan(),
            PV::F64(b) => f64::from_bits(*b).is_nan(),
            PV::Msg(m) => has_nan(m),
            _ => false,
        }
    }
    m.fields.values().any(|f| match f {
        PFV::Single(v) => pv(v),
        PFV::Repeated(vs) => vs.iter().any(pv),
        PFV::Map(es) => es.iter().any(|(k, v)| pv(k) || pv(v)),
    })
}

fn encode_case(doc: &PDoc, c: &PCase, m: &PMsg, with_unknown: bool) -> (Vec<u8>, u32) {
    if with_unknown {
        if let Some((seed, prob)) = c.unknown {
            UNKNOWN_INSERTER.with(|u| *u.borrow_mut() = Some((seed, prob, 0)));
        }
    }
    let b = encode_msg(doc, &c.msg, m, &c.choice);
    let n = UNKNOWN_INSERTER.with(|u| u.borrow_mut().take().map(|x| x.2).unwrap_or(0));
    (b, n)
}

/// Scalars of the kitchen-sink message are also observed in memory, through the Debug rendering
/// of the decoded value (field names of the kitchen sink are fixed): `s_sint32: -1`.
fn check_debug_scalars(doc: &PDoc, c: &PCase, dbg: &str) -> PResult {
    let decl = doc.message(&c.msg);
    if decl.name != "All" {
        return Ok(());
    }
    for f in &decl.fields {
        if !f.name.starts_with("s_") {
            continue;
        }
        let PTy::Scalar(sc) = &f.ty else { continue };
        let want: Option<String> = match (c.value.fields.get(&f.number), sc) {
            (_, Sc::Double | Sc::Float | Sc::String | Sc::Bytes) => None,
            (Some(PFV::Single(PV::I32(x))), _) => Some(x.to_string()),
            (Some(PFV::Single(PV::I64(x))), _) => Some(x.to_string()),
            (Some(PFV::Single(PV::U32(x))), _) => Some(x.to_string()),
            (Some(PFV::Single(PV::U64(x))), _) => Some(x.to_string()),
            (Some(PFV::Single(PV::Bool(x))), _) => Some(x.to_string()),
            (None, Sc::Bool) => Some("false".into()),
            (None, _) => Some("0".into()),
            _ => None,
        };
        if let Some(w) = want {
            let pat = format!("{}: ", f.name);
            if let Some(i) = dbg.find(&pat) {
                let rest = &dbg[i + pat.len()..];
                let got: String = rest.chars().take_while(|ch| ch.is_ascii_alphanumeric() || *ch == '-').collect();
                ensure!(got == w, &format!("in-memory-value:{}", sc.name()), "{}: the decoded message holds {} = {} in memory, the encoded value is {}", decl.name, f.name, got, w);
            }
        }
    }
    Ok(())
}

/// C05/C06 core: reference-encode, decode + re-encode by the generated type, reference-decode.
fn rt_case(ctx: &PCtx, di: usize, c: &PCase) -> PResult {
    let doc = &ctx.corpus.docs[di].doc;
    let e = ctx.entry(di, &c.msg);
    let (bytes, _) = encode_case(doc, c, &c.value, true);
    let name = doc.message(&c.msg).name.clone();
    let out = match catch(|| (e.ops.roundtrip)(&bytes)) {
        Err(p) => return Err(Fail::new(&format!("panic:{}", vrt::total::panic_signature(&p)), format!("{}: generated code panicked: {}\n value {:?}", name, p, c.value))),
        Ok(o) => o,
    };
    if let Some(err) = &out.decode_err {
        return Err(Fail::new("decode-error", format!("{}: decode failed on a conforming encoding ({:?}): {}\n value {:?}\n bytes {}", name, c.choice, err, c.value, vcore::tval::hex(&bytes[..bytes.len().min(96)]))));
    }
    ensure!(out.encoded_len == out.reencoded.len(), "encoded-len", "{}: encoded_len() = {}, encode wrote {} bytes\n decoded {}", name, out.encoded_len, out.reencoded.len(), out.debug);
    let back = match decode_msg(doc, &c.msg, &out.reencoded) {
        Ok(m) => m,
        Err(er) => return Err(Fail::new("invalid-wire", format!("{}: the reference decoder rejects pilota's encoding: {}\n bytes {}\n decoded {}", name, er, vcore::tval::hex(&out.reencoded[..out.reencoded.len().min(96)]), out.debug))),
    };
    let (want, got) = (doc.canon(&c.msg, &c.value), doc.canon(&c.msg, &back));
    ensure!(want == got, "value-differs", "{}: encode(decode(m)) differs from the encoded value ({:?})\n expected {:?}\n got      {:?}\n decoded  {}", name, c.choice, want, got, vcore::evidence::truncate(&out.debug, 600));
    if let Some(er) = &out.second_err {
        return Err(Fail::new("redecode-error", format!("{}: its own encoding does not decode: {}\n decoded {}", name, er, out.debug)));
    }
    if !has_nan(&c.value) {
        ensure!(out.second_equal == Some(true), "not-equal-after-roundtrip", "{}: decode(encode(m)) != m\n m = {}", name, vcore::evidence::truncate(&out.debug, 600));
    }
    for (k, re) in &out.chain_suspects {
        let other = decode_msg(doc, &c.msg, re).map(|m| doc.canon(&c.msg, &m));
        ensure!(other.as_ref().ok() == Some(&got), "segmented-buffer-decode-differs", "{}: decoding the same bytes from a segmented buffer (Buf::chain, split at {} of {}) gives a different message than decoding them contiguously\n contiguous {:?}\n segmented  {:?}", name, k, bytes.len(), got, other);
    }
    ensure!(out.chain_mismatch.is_none(), "segmented-buffer-decode-differs", "{}: decoding the same bytes from a segmented buffer (Buf::chain) differs from decoding them contiguously: {}\n m = {}", name, out.chain_mismatch.clone().unwrap_or_default(), vcore::evidence::truncate(&out.debug, 2000));
    for (n, alone, framed) in &out.frame_suspects {
        let a = decode_msg(doc, &c.msg, alone).map(|m| doc.canon(&c.msg, &m));
        let f = decode_msg(doc, &c.msg, framed).map(|m| doc.canon(&c.msg, &m));
        ensure!(a.is_ok() && a.as_ref().ok() == f.as_ref().ok(), "length-delimited-frame", "{}: a frame announcing {} of {} bytes, followed by more data, decodes to a different message than those {} bytes alone\n alone  {:?}\n framed {:?}", name, n, bytes.len(), n, a, f);
    }
    ensure!(out.frame_mismatch.is_none(), "length-delimited-frame", "{}: {}\n m = {}", name, out.frame_mismatch.clone().unwrap_or_default(), out.debug);
    ensure!(out.framed_ok, "length-delimited-framing", "{}: encode_length_delimited / decode_length_delimited does not round-trip\n m = {}", name, out.debug);
    check_debug_scalars(doc, c, &out.debug)?;
    Ok(())
}

/// C18 core
fn merge_case(ctx: &PCtx, di: usize, c: &PCase) -> PResult {
    let doc = &ctx.corpus.docs[di].doc;
    let e = ctx.entry(di, &c.msg);
    let name = doc.message(&c.msg).name.clone();
    let other = c.other.clone().unwrap_or_default();
    let (a, ua) = encode_case(doc, c, &c.value, true);
    let (b, ub) = encode_case(doc, c, &other, true);
    let (a0, _) = encode_case(doc, c, &c.value, false);
    let (b0, _) = encode_case(doc, c, &other, false);
    // reference merge semantics
    let mut want = PMsg::default();
    merge_msg(doc, &c.msg, &a0, &mut want, 0).map_err(|er| Fail::new("harness", format!("reference decoder rejects its own encoding: {}", er)))?;
    merge_msg(doc, &c.msg, &b0, &mut want, 0).map_err(|er| Fail::new("harness", format!("reference decoder rejects its own encoding: {}", er)))?;
    let want = doc.canon(&c.msg, &want);
    let out = match catch(|| (e.ops.merge2)(&a, &b)) {
        Err(p) => return Err(Fail::new(&format!("panic:{}", vrt::total::panic_signature(&p)), format!("{}: generated code panicked: {}", name, p))),
        Ok(o) => o,
    };
    let dec = |r: &Result<Vec<u8>, String>, what: &str| -> Result<PMsg, Fail> {
        match r {
            Err(er) => Err(Fail::new(&format!("{}-error", what), format!("{}: {} failed: {} (unknown records inserted: {})\n a = {:?}\n b = {:?}", name, what, er, ua + ub, c.value, other))),
            Ok(bytes) => decode_msg(doc, &c.msg, bytes).map(|m| doc.canon(&c.msg, &m)).map_err(|er| Fail::new("invalid-wire", format!("{}: reference decoder rejects the re-encoding: {}", name, er))),
        }
    };
    let concat = dec(&out.concat, "decode-of-concatenation")?;
    let merged = dec(&out.merged, "decode-then-merge")?;
    ensure!(concat == want, "concat-differs", "{}: decode(A ++ B) differs from the reference merge (unknown records: {})\n a = {:?}\n b = {:?}\n expected {:?}\n got      {:?}", name, ua + ub, c.value, other, want, concat);
    ensure!(merged == want, "merge-differs", "{}: decode(A).merge(B) differs from the reference merge\n a = {:?}\n b = {:?}\n expected {:?}\n got      {:?}", name, c.value, other, want, merged);
    Ok(())
}

fn arb_pcase(ctx: &PCtx, di: usize, r: &Ref, two: bool, choices: bool, unknowns: bool) -> BoxedStrategy<PCase> {
    let doc = &ctx.corpus.docs[di].doc;
    let key = ctx.corpus.docs[di].key.clone();
    let r2 = r.clone();
    let other = if two { arb_msg(doc, r, 3).prop_map(Some).boxed() } else { Just(None).boxed() };
    let ch = if choices { arb_choice() } else { Just(EncChoice::default()).boxed() };
    let un = if unknowns { prop::option::weighted(0.6, (any::<u64>(), 20u8..120)).boxed() } else { Just(None).boxed() };
    (arb_msg(doc, r, 3), other, ch, un).prop_map(move |(value, other, choice, unknown)| PCase { doc: key.clone(), msg: r2.clone(), value, other, choice, unknown }).boxed()
}

fn replay(ctx: &PCtx, prop: &str, f: impl Fn(&PCtx, usize, &PCase) -> PResult) -> Option<i32> {
    let rp = ctx.replay.as_ref()?;
    let case: PCase = serde_json::from_value(rp["case"]["case"].clone()).expect("replay case");
    let Some(di) = ctx.corpus.docs.iter().position(|d| d.key == case.doc) else {
        eprintln!("replay: document {} is not in the corpus of this seed/tier", case.doc);
        return Some(2);
    };
    Some(match f(ctx, di, &case) {
        Ok(()) => {
            println!("replay: property holds on this case");
            0
        }
        Err(fl) => {
            println!("VIOLATION property={} replay=(given)", prop);
            println!("  key={} {}", fl.key, fl.msg);
            1
        }
    })
}

fn run_rt(ctx: &PCtx, prop: &str, rule: &str, choices: bool, unknowns: bool, per_type: (u32, u32)) -> i32 {
    let rec = RefCell::new(Recorder::new(prop, ctx.tier, ctx.seed));
    rec.borrow_mut().rule = format!("{} [pilota feature pb-encode-default-value = {}]", rule, ctx.feature_on);
    if let Some(code) = replay(ctx, prop, rt_case) {
        return code;
    }
    let n = ctx.tier.pick(per_type.0, per_type.1);
    let mut seen = std::collections::BTreeSet::new();
    for (di, r) in ctx.targets() {
        let doc = &ctx.corpus.docs[di].doc;
        let strat = arb_pcase(ctx, di, &r, false, choices, unknowns);
        let res = run_prop(&rec, &format!("{}-{}-{}", prop, ctx.corpus.docs[di].key, r.path.join(".")), n, strat, |c: &PCase| {
            {
                let mut rr = rec.borrow_mut();
                let nontrivial = !doc.canon(&c.msg, &c.value).fields.is_empty();
                rr.case(fp(&(&c.doc, &c.msg, &c.value, &c.choice)), nontrivial, || json!({"doc": c.doc, "message": c.msg.path.join("."), "choice": format!("{:?}", c.choice), "value": vcore::evidence::truncate(&format!("{:?}", c.value), 500)}));
                rr.class(if doc.proto3(&c.msg) { "proto3 message" } else { "proto2 message" });
                rr.class_if(c.msg.path.len() > 1, "nested message type");
                rr.class_if(c.choice.packing != 0, "repeated scalars unpacked / mixed");
                rr.class_if(c.choice.emit_defaults, "defaults present on the wire");
                rr.class_if(c.choice.map_style != 0, "map entry reordered / defaults omitted");
                rr.class_if(c.choice.order != 0, "field order permuted");
                rr.class_if(c.unknown.is_some(), "unknown fields inserted");
                let decl = doc.message(&c.msg);
                for (num, _) in &c.value.fields {
                    if let Some(f) = decl.fields.iter().find(|f| f.number == *num) {
                        match &f.label {
                            Label::Map(_) => rr.class("map field present"),
                            Label::Oneof(_) => rr.class("oneof member present"),
                            Label::Repeated => rr.class("repeated field present"),
                            _ => {}
                        }
                        if let PTy::Scalar(Sc::Sint32 | Sc::Sint64) = f.ty {
                            rr.class("sint field present");
                        }
                        if let PTy::Scalar(Sc::Fixed32 | Sc::Fixed64 | Sc::Sfixed32 | Sc::Sfixed64) = f.ty {
                            rr.class("fixed-width field present");
                        }
                    }
                }
            }
            match rt_case(ctx, di, c) {
                Err(f) if seen.contains(&f.key) || ctx.findings.is_open(prop, &f.key) => Ok(()),
                o => o,
            }
        });
        if let Some((case, f)) = res {
            seen.insert(f.key.clone());
            ctx.report(&rec, "proto-roundtrip", &case, &f);
        }
    }
    let code = rec.borrow().finish(&ctx.findings);
    code
}

pub fn c05(ctx: &PCtx) -> i32 {
    run_rt(ctx, "C05", "generated part: every message type of the protobuf corpus (kitchen sinks with every scalar kind in singular, optional, repeated, map-key, map-value and oneof position for proto2 and proto3, plus generated documents) x schema-directed values; canonical reference encoding -> Message::decode -> encoded_len / encode -> reference decoder; value equal, encoded_len = bytes written, decode(encode(m)) == m, length-delimited framing round-trips and a frame followed by more data is decoded like the announced slice alone (announced length = len, len-1, len-2, len/2); non-trivial = value differs from the all-default message", false, false, (150, 3000))
}

pub fn c06(ctx: &PCtx) -> i32 {
    run_rt(ctx, "C06", "every message type of the protobuf corpus x schema-directed values x conforming re-encodings chosen by the reference encoder (field order permuted, repeated scalars packed / unpacked / mixed, default-valued fields present or omitted, map entries value-first or with defaults omitted); pilota decodes them to the encoded value and its own encoding is decoded by the strict reference decoder (wire type per declared type, ZigZag, little-endian fixed widths, key=1/value=2 map entries); scalars of the kitchen-sink message are additionally compared in memory through the Debug rendering; non-trivial = message has a non-default field", true, false, (150, 3000))
}

pub fn c18(ctx: &PCtx) -> i32 {
    let rec = RefCell::new(Recorder::new("C18", ctx.tier, ctx.seed));
    rec.borrow_mut().rule = "every message type of the corpus x pairs (a, b) of schema-directed values x unknown-field records of every wire type (varint, 64-bit, length-delimited, 32-bit, group with nested content) inserted at generated record boundaries at every nesting level; oracle: decode(enc(a) ++ enc(b)) and decode(enc(a)).merge(enc(b)) both equal the reference merge of the encodings without the unknown records (last scalar wins, repeated append, map keys replace, later oneof member replaces, embedded messages merge); non-trivial = both values non-default".into();
    if let Some(code) = replay(ctx, "C18", merge_case) {
        return code;
    }
    let n = ctx.tier.pick(150, 3000);
    let mut seen = std::collections::BTreeSet::new();
    for (di, r) in ctx.targets() {
        let doc = &ctx.corpus.docs[di].doc;
        let strat = arb_pcase(ctx, di, &r, true, true, true);
        let res = run_prop(&rec, &format!("C18-{}-{}", ctx.corpus.docs[di].key, r.path.join(".")), n, strat, |c: &PCase| {
            {
                let mut rr = rec.borrow_mut();
                let o = c.other.clone().unwrap_or_default();
                let nt = !doc.canon(&c.msg, &c.value).fields.is_empty() && !doc.canon(&c.msg, &o).fields.is_empty();
                rr.case(fp(c), nt, || json!({"doc": c.doc, "message": c.msg.path.join("."), "a": vcore::evidence::truncate(&format!("{:?}", c.value), 300), "b": vcore::evidence::truncate(&format!("{:?}", o), 300), "unknown": format!("{:?}", c.unknown)}));
                rr.class_if(c.unknown.is_some(), "unknown records inserted");
                let decl = doc.message(&c.msg);
                for (num, _) in &c.value.fields {
                    if !o.fields.contains_key(num) {
                        continue;
                    }
                    if let Some(f) = decl.fields.iter().find(|f| f.number == *num) {
                        rr.class(match (&f.label, &f.ty) {
                            (Label::Map(_), _) => "both have the map field",
                            (Label::Repeated, _) => "both have the repeated field",
                            (Label::Oneof(_), _) => "both have a member of the oneof",
                            (_, PTy::Message(_)) => "both have the embedded message",
                            _ => "both have the singular scalar",
                        });
                    }
                }
            }
            match merge_case(ctx, di, c) {
                Err(f) if seen.contains(&f.key) || ctx.findings.is_open("C18", &f.key) => Ok(()),
                o => o,
            }
        });
        if let Some((case, f)) = res {
            seen.insert(f.key.clone());
            ctx.report(&rec, "proto-merge", &case, &f);
        }
    }
    let code = rec.borrow().finish(&ctx.findings);
    code
}

// ------------------------------------------------------------------------------------------
// C10 / C19: faults

#[derive(Clone, Debug, Serialize, Deserialize, Hash)]
pub enum PFault {
    None,
    Truncate(u16),
    Flip(u16, u8),
    /// overwrite the k-th length prefix with a boundary value
    Length(u16, u8),
    Random(Vec<u8>),
    /// flip a bit inside the body of the k-th length-delimited record (nesting levels 0..2): (k, position inside the body, bit)
    InBody(u16, u16, u8),
}

#[derive(Clone, Debug, Serialize, Deserialize, Hash)]
pub struct PFaultCase {
    pub base: PCase,
    pub fault: PFault,
}

impl Shrink for PFaultCase {
    fn candidates(&self) -> Vec<Self> {
        self.base.candidates().into_iter().map(|b| PFaultCase { base: b, fault: self.fault.clone() }).collect()
    }
}

/// offsets and widths of length prefixes of top-level and second-level length-delimited records
fn length_marks(bytes: &[u8]) -> Vec<(usize, usize, usize)> {
    fn walk(bytes: &[u8], base: usize, depth: usize, out: &mut Vec<(usize, usize, usize)>) {
        let mut d = PDec { buf: bytes, pos: 0 };
        while d.pos < bytes.len() {
            let Ok(key) = varint(&mut d) else { return };
            match key & 7 {
                0 => {
                    if varint(&mut d).is_err() {
                        return;
                    }
                }
                1 => d.pos = d.pos.saturating_add(8),
                5 => d.pos = d.pos.saturating_add(4),
                2 => {
                    let off = d.pos;
                    let Ok(n) = varint(&mut d) else { return };
                    let w = d.pos - off;
                    let n = n as usize;
                    if n > bytes.len() - d.pos.min(bytes.len()) {
                        return;
                    }
                    out.push((base + off, w, bytes.len() - d.pos));
                    if depth < 2 {
                        walk(&bytes[d.pos..d.pos + n], base + d.pos, depth + 1, out);
                    }
                    d.pos += n;
                }
                _ => return,
            }
            if d.pos > bytes.len() {
                return;
            }
        }
    }
    fn varint(d: &mut PDec) -> Result<u64, ()> {
        let mut r = 0u64;
        for i in 0..10 {
            let b = *d.buf.get(d.pos).ok_or(())?;
            d.pos += 1;
            r |= ((b & 0x7f) as u64) << (7 * i);
            if b & 0x80 == 0 {
                return Ok(r);
            }
        }
        Err(())
    }
    let mut out = vec![];
    walk(bytes, 0, 0, &mut out);
    out
}

fn apply_pfault(bytes: &[u8], f: &PFault) -> (Vec<u8>, String) {
    match f {
        PFault::None => (bytes.to_vec(), "none".into()),
        PFault::Random(b) => (b.clone(), "random bytes".into()),
        PFault::Truncate(i) => {
            let n = vcore::mutate::scale(*i, bytes.len());
            (bytes[..n].to_vec(), format!("truncate to {} of {}", n, bytes.len()))
        }
        PFault::Flip(i, b) => {
            let mut v = bytes.to_vec();
            if !v.is_empty() {
                let n = vcore::mutate::scale(*i, v.len());
                v[n] ^= 1 << (b % 8);
                return (v, format!("flip bit {} of byte {}", b % 8, n));
            }
            (v, "flip (empty)".into())
        }
        PFault::InBody(k, pos, bit) => {
            let marks = length_marks(bytes);
            if marks.is_empty() {
                return (bytes.to_vec(), "no length prefix".into());
            }
            let (off, w, _) = marks[vcore::mutate::scale(*k, marks.len())];
            // the prefix is `w` bytes wide: decode it
            let n = bytes[off..off + w].iter().enumerate().fold(0u64, |a, (i, b)| a | (((*b & 0x7f) as u64) << (7 * i))) as usize;
            if n == 0 {
                return (bytes.to_vec(), "empty body".into());
            }
            let at = off + w + vcore::mutate::scale(*pos, n);
            let mut v = bytes.to_vec();
            v[at] ^= 1 << (bit % 8);
            (v, format!("flip bit {} of byte {} (inside the {}-byte record body at {})", bit % 8, at, n, off + w))
        }
        PFault::Length(k, which) => {
            let marks = length_marks(bytes);
            if marks.is_empty() {
                return (bytes.to_vec(), "no length prefix".into());
            }
            let (off, w, rem) = marks[vcore::mutate::scale(*k, marks.len())];
            let val: u64 = match which % 8 {
                0 => 0,
                1 => 1,
                2 => rem.saturating_sub(1) as u64,
                3 => rem as u64 + 1,
                4 => i32::MAX as u64,
                5 => u32::MAX as u64,
                6 => u64::MAX,
                _ => 16 << 20,
            };
            let mut repl = vec![];
            put_varint(&mut repl, val);
            let mut v = bytes.to_vec();
            v.splice(off..off + w, repl);
            (v, format!("length prefix at {} := {}", off, val))
        }
    }
}

fn arb_pfault() -> BoxedStrategy<PFault> {
    prop_oneof![
        3 => any::<u16>().prop_map(PFault::Truncate),
        3 => (any::<u16>(), 0u8..8).prop_map(|(i, b)| PFault::Flip(i, b)),
        3 => (any::<u16>(), 0u8..8).prop_map(|(k, w)| PFault::Length(k, w)),
        3 => (any::<u16>(), any::<u16>(), 0u8..8).prop_map(|(k, p, b)| PFault::InBody(k, p, b)),
        1 => prop::collection::vec(any::<u8>(), 0..64).prop_map(PFault::Random),
        1 => prop::collection::vec(prop_oneof![0u8..24, any::<u8>()], 0..48).prop_map(PFault::Random),
    ]
    .boxed()
}

fn total_case(ctx: &PCtx, di: usize, c: &PFaultCase) -> PResult {
    let doc = &ctx.corpus.docs[di].doc;
    let e = ctx.entry(di, &c.base.msg);
    let (bytes, _) = encode_case(doc, &c.base, &c.base.value, true);
    let (input, what) = apply_pfault(&bytes, &c.fault);
    let lim = limits_for(input.len());
    let name = doc.message(&c.base.msg).name.clone();
    observe(&format!("pb-decode-{}", name), lim, || (e.ops.decode_only)(&input)).map_err(|f| Fail::new(&normalize_key(&f.key), format!("{} [{}] input {}", f.msg, what, vcore::tval::hex(&input[..input.len().min(96)]))))?;
    observe(&format!("pb-decode-delimited-{}", name), lim, || (e.ops.decode_delimited_only)(&input)).map_err(|f| Fail::new(&normalize_key(&f.key), format!("{} [{}] input {}", f.msg, what, vcore::tval::hex(&input[..input.len().min(96)]))))?;
    // framing decodes exactly the announced slice, whatever follows the frame
    let (fd, _) = observe(&format!("pb-frame-{}", name), lim, || (e.ops.frame_diff)(&input)).map_err(|f| Fail::new(&normalize_key(&f.key), format!("{} [{}] input {}", f.msg, what, vcore::tval::hex(&input[..input.len().min(96)]))))?;
    if let Some(m) = fd.mismatch {
        return Err(Fail::new("length-delimited-frame", format!("{}: {} [{}] input {}", name, m, what, vcore::tval::hex(&input[..input.len().min(96)]))));
    }
    for (n, alone, framed) in &fd.suspects {
        let a = decode_msg(doc, &c.base.msg, alone).map(|m| doc.canon(&c.base.msg, &m));
        let f = decode_msg(doc, &c.base.msg, framed).map(|m| doc.canon(&c.base.msg, &m));
        // (re-encodings the reference decoder refuses - pilota does not validate UTF-8 - cannot be compared)
        if a.is_ok() && f.is_ok() && a.as_ref().ok() != f.as_ref().ok() {
            return Err(Fail::new("length-delimited-frame", format!("{}: a frame announcing {} of {} bytes, followed by more data, decodes to a different message than those bytes alone [{}] input {}\n alone  {:?}\n framed {:?}", name, n, input.len(), what, vcore::tval::hex(&input[..input.len().min(96)]), a, f)));
        }
    }
    Ok(())
}

fn normalize_key(k: &str) -> String {
    // drop the message name from the key (one root cause, one key)
    let mut parts: Vec<&str> = k.split(':').collect();
    if parts.len() >= 2 {
        parts[1] = if parts[1].starts_with("pb-decode-delimited") { "pb-decode-delimited" } else { "pb-decode" };
    }
    parts.join(":")
}

/// nesting chains through the recursive kitchen-sink message `Tree.left`
fn depth_probe(ctx: &PCtx, rec: &RefCell<Recorder>) {
    for (di, d) in ctx.corpus.docs.iter().enumerate() {
        let Some(r) = d.doc.all_messages().into_iter().find(|r| r.path == vec!["Tree".to_string()]) else { continue };
        if !ctx.table.get(&d.key).map(|t| t.contains_key(&d.doc.rust_path(&r))).unwrap_or(false) {
            continue;
        }
        let e = ctx.entry(di, &r);
        for depth in (1..=300usize).step_by(1) {
            if !(depth <= 12 || (90..=112).contains(&depth) || depth % 25 == 0) {
                continue;
            }
            // Tree{ left: Tree{ left: ... Tree{value: 1} } }: nested `depth` times through field 3
            // (left, optional), through field 2 (kids, repeated) and through both alternating
            for (hop_name, hops) in [("optional field", &[0x1au8][..]), ("repeated field", &[0x12u8][..]), ("repeated and optional fields alternating", &[0x12u8, 0x1a][..])] {
            let mut bytes = vec![0x08, 0x01];
            for level in 0..depth {
                let mut o = vec![hops[level % hops.len()]];
                put_varint(&mut o, bytes.len() as u64);
                o.extend_from_slice(&bytes);
                bytes = o;
            }
            {
                let mut rr = rec.borrow_mut();
                rr.case(fp(&("depth", &d.key, depth, hop_name)), true, || json!({"doc": d.key, "nesting depth": depth, "through": hop_name}));
                rr.class("nesting chain");
                rr.class(&format!("nesting chain through {}", hop_name));
                rr.class_if(depth >= 102, "nesting chain beyond the limit");
            }
            let r = catch(|| (e.ops.decode_only)(&bytes));
            let fail = match r {
                Err(p) => Some(Fail::new("depth-panic", format!("nesting {} panicked: {}", depth, p))),
                Ok(ok) => {
                    // the outermost message is level 0: `depth` nested messages below it; a value
                    // nested exactly to the documented limit is a value (C05), one level more is not
                    if depth <= 100 && !ok {
                        Some(Fail::new("depth-refused-early", format!("nesting depth {} (documented limit 100) is rejected", depth)))
                    } else if depth >= 101 && ok {
                        Some(Fail::new("depth-not-refused", format!("nesting depth {} is accepted although the documented recursion limit is 100", depth)))
                    } else {
                        None
                    }
                }
            };
            if let Some(f) = fail {
                let f = Fail::new(&f.key, format!("{} (chain through {})", f.msg, hop_name));
                ctx.report(rec, "proto-depth", &json!({"doc": d.key, "depth": depth, "through": hop_name}), &f);
                return;
            }
            }
            // map levels (field 4, map<string, Tree>): an entry is a nested message of its own,
            // so one map level is two wire levels; `maps` map levels innermost below
            // `depth - 2 * maps` plain levels, every parity around the limit
            for maps in 1..=3usize {
                if depth < 2 * maps || !(depth <= 12 || (88..=112).contains(&depth)) {
                    continue;
                }
                let mut bytes = vec![0x08, 0x01];
                for _ in 0..maps {
                    let mut entry = vec![0x0a, 0x01, b'k', 0x12];
                    put_varint(&mut entry, bytes.len() as u64);
                    entry.extend_from_slice(&bytes);
                    let mut o = vec![0x22];
                    put_varint(&mut o, entry.len() as u64);
                    o.extend_from_slice(&entry);
                    bytes = o;
                }
                for _ in 0..depth - 2 * maps {
                    let mut o = vec![0x1a];
                    put_varint(&mut o, bytes.len() as u64);
                    o.extend_from_slice(&bytes);
                    bytes = o;
                }
                {
                    let mut rr = rec.borrow_mut();
                    rr.case(fp(&("mdepth", &d.key, depth, maps)), true, || json!({"doc": d.key, "wire nesting": depth, "map levels": maps}));
                    rr.class("nesting chain through map entries");
                }
                let fail = match catch(|| (e.ops.decode_only)(&bytes)) {
                    Err(p) => Some(Fail::new("map-depth-panic", format!("{} message levels around {} map levels panicked: {}", depth - 2 * maps, maps, p))),
                    Ok(ok) if depth <= 100 && !ok => Some(Fail::new("map-depth-refused-early", format!("{} message levels around {} map levels ({} wire levels, documented limit 100) are rejected", depth - 2 * maps, maps, depth))),
                    Ok(ok) if depth >= 101 && ok => Some(Fail::new("map-depth-not-refused", format!("{} message levels around {} map levels ({} wire levels) are accepted although the documented recursion limit is 100", depth - 2 * maps, maps, depth))),
                    _ => None,
                };
                if let Some(f) = fail {
                    ctx.report(rec, "proto-depth", &json!({"doc": d.key, "depth": depth, "maps": maps}), &f);
                    return;
                }
            }
            // the same depth through *unknown groups* (field 1000, undeclared): `depth` nested
            // groups at the top level, and `depth/2` known messages around `depth - depth/2` groups
            for mixed in [false, true] {
                let (msgs, groups) = if mixed { (depth / 2, depth - depth / 2) } else { (0, depth) };
                let mut bytes = vec![];
                for _ in 0..groups {
                    put_key(&mut bytes, 1000, 3);
                }
                put_key(&mut bytes, 1, 0);
                bytes.push(1);
                for _ in 0..groups {
                    put_key(&mut bytes, 1000, 4);
                }
                for _ in 0..msgs {
                    let mut o = vec![0x1a];
                    put_varint(&mut o, bytes.len() as u64);
                    o.extend_from_slice(&bytes);
                    bytes = o;
                }
                {
                    let mut rr = rec.borrow_mut();
                    rr.case(fp(&("gdepth", &d.key, depth, mixed)), true, || json!({"doc": d.key, "nesting depth": depth, "unknown groups": groups, "known messages": msgs}));
                    rr.class("nesting chain through unknown groups");
                    rr.class_if(depth >= 102, "group nesting chain beyond the limit");
                }
                let r = catch(|| (e.ops.decode_only)(&bytes));
                let fail = match r {
                    Err(p) => Some(Fail::new("group-depth-panic", format!("{} messages around {} unknown groups panicked: {}", msgs, groups, p))),
                    // the scalar inside the innermost group is skipped through the same
                    // limit-checked entry point, so exactly 100 groups around a scalar may go
                    // either way: the property does not fix what a leaf costs
                    Ok(ok) if depth <= 99 && !ok => Some(Fail::new("group-depth-refused-early", format!("{} known messages around {} nested unknown groups (documented limit 100) are rejected", msgs, groups))),
                    Ok(ok) if depth >= 101 && ok => Some(Fail::new("group-depth-not-refused", format!("{} known messages around {} nested unknown groups are accepted although the documented recursion limit is 100", msgs, groups))),
                    _ => None,
                };
                if let Some(f) = fail {
                    ctx.report(rec, "proto-depth", &json!({"doc": d.key, "depth": depth, "groups": groups, "messages": msgs}), &f);
                    return;
                }
            }
        }
    }
}

/// Sibling ladder: N embedded messages side by side, each holding tiny packed fields; the memory
/// a decode keeps must grow with N, not with N times the input length (a per-field reservation
/// sized by what is left of the *whole* input is invisible for one field and quadratic for many).
fn sibling_ladder(ctx: &PCtx, rec: &RefCell<Recorder>) {
    for (di, d) in ctx.corpus.docs.iter().enumerate() {
        let Some(tree) = d.doc.all_messages().into_iter().find(|r| r.path == vec!["Tree".to_string()]) else { continue };
        let Some(all) = d.doc.all_messages().into_iter().find(|r| r.path == vec!["All".to_string()]) else { continue };
        if !ctx.table.get(&d.key).map(|t| t.contains_key(&d.doc.rust_path(&tree))).unwrap_or(false) {
            continue;
        }
        let adecl = d.doc.message(&all);
        let num = |name: &str| adecl.fields.iter().find(|f| f.name == name).map(|f| f.number);
        let (Some(f32n), Some(u64n), Some(dn)) = (num("r_fixed32"), num("r_uint64"), num("r_double")) else { continue };
        let mut inner = vec![];
        put_key(&mut inner, f32n, 2);
        inner.extend_from_slice(&[4, 1, 0, 0, 0]);
        put_key(&mut inner, u64n, 2);
        inner.extend_from_slice(&[1, 7]);
        put_key(&mut inner, dn, 2);
        inner.extend_from_slice(&[8, 0, 0, 0, 0, 0, 0, 0xf0, 0x3f]);
        let mut kid = vec![];
        put_key(&mut kid, 5, 2);
        put_varint(&mut kid, inner.len() as u64);
        kid.extend_from_slice(&inner);
        let e = ctx.entry(di, &tree);
        let mut base = 0isize;
        for n in [64usize, 256, 1024, 2048] {
            let mut bytes = vec![];
            for _ in 0..n {
                put_key(&mut bytes, 2, 2);
                put_varint(&mut bytes, kid.len() as u64);
                bytes.extend_from_slice(&kid);
            }
            {
                let mut rr = rec.borrow_mut();
                rr.case(fp(&("siblings", &d.key, n)), true, || json!({"doc": d.key, "sibling sub-messages with packed fields": n, "input bytes": bytes.len()}));
                rr.class("sibling ladder");
            }
            let start = vrt::alloc::begin();
            let r = catch(|| (e.ops.decode_only)(&bytes));
            let snap = vrt::alloc::end(start);
            let fail = match r {
                Err(p) => Some(Fail::new("sibling-ladder-panic", format!("{} sibling messages: decode panicked: {}", n, p))),
                Ok(false) => Some(Fail::new("sibling-ladder-rejected", format!("{} sibling messages with packed fields are rejected", n))),
                Ok(true) => {
                    if n == 64 {
                        base = snap.peak_over_start.max(4096);
                        None
                    } else if snap.peak_over_start > 3 * (n as isize / 64) * base {
                        Some(Fail::new("alloc-superlinear", format!("decoding {} sibling sub-messages ({} input bytes) held {} bytes at its peak, {} for 64 of them: memory grows faster than the input", n, bytes.len(), snap.peak_over_start, base)))
                    } else {
                        None
                    }
                }
            };
            if let Some(f) = fail {
                if !ctx.findings.is_open("C10", &f.key) {
                    ctx.report(rec, "proto-siblings", &json!({"doc": d.key, "siblings": n}), &f);
                }
                return;
            }
        }
    }
}

pub fn c10(ctx: &PCtx) -> i32 {
    let rec = RefCell::new(Recorder::new("C10", ctx.tier, ctx.seed));
    {
        let mut r = rec.borrow_mut();
        r.level = "fault_enumeration";
        r.rule = "every generated message type x (random bytes | reference encoding of a schema-directed value, optionally with unknown records, with one fault: truncation, bit flip, a length prefix at the first three nesting levels overwritten with 0, 1, rem-1, rem+1, i32::MAX, u32::MAX, u64::MAX, 16Mi); Message::decode and decode_length_delimited under panic capture and a counting allocator (bound 1 MiB + 4096 x input); a frame `varint(n) ++ input ++ more data` is accepted iff input[..n] is, with the same message and the reader right behind the frame; nesting chains of 1..300 wire levels through embedded messages, map entries (two levels each), unknown groups, and mixtures: <= 100 accepted (unknown groups: <= 99), >= 101 rejected; non-trivial = single-fault mutant of a valid encoding".into();
        r.assumptions = vec!["runtime field codecs are exercised through the generated messages (every scalar kind in every position in the kitchen-sink messages); group decoding is exercised through unknown group records only (pilota-build does not support group fields)".into()];
    }
    let total = |ctx: &PCtx, di: usize, c: &PFaultCase| total_case(ctx, di, c);
    if let Some(rp) = ctx.replay.as_ref() {
        let case: PFaultCase = serde_json::from_value(rp["case"]["case"].clone()).expect("replay case");
        let Some(di) = ctx.corpus.docs.iter().position(|d| d.key == case.base.doc) else { return 2 };
        return match total(ctx, di, &case) {
            Ok(()) => {
                println!("replay: property holds on this case");
                0
            }
            Err(f) => {
                println!("VIOLATION property=C10 replay=(given)\n  key={} {}", f.key, f.msg);
                1
            }
        };
    }
    depth_probe(ctx, &rec);
    sibling_ladder(ctx, &rec);
    let n = ctx.tier.pick(300, 6000);
    let mut seen = std::collections::BTreeSet::new();
    for (di, r) in ctx.targets() {
        let strat = (arb_pcase(ctx, di, &r, false, true, true), arb_pfault()).prop_map(|(base, fault)| PFaultCase { base, fault });
        let res = run_prop(&rec, &format!("C10-{}-{}", ctx.corpus.docs[di].key, r.path.join(".")), n, strat, |c: &PFaultCase| {
            {
                let mut rr = rec.borrow_mut();
                rr.case(fp(c), !matches!(c.fault, PFault::None | PFault::Random(_)), || json!({"doc": c.base.doc, "message": c.base.msg.path.join("."), "fault": format!("{:?}", c.fault)}));
                rr.class(match &c.fault {
                    PFault::None => "valid",
                    PFault::Truncate(_) => "truncation",
                    PFault::Flip(..) => "bit flip",
                    PFault::InBody(..) => "bit flip inside a record body",
                    PFault::Length(..) => "length prefix corrupted",
                    PFault::Random(_) => "random bytes",
                });
            }
            match total_case(ctx, di, c) {
                Err(f) if seen.contains(&f.key) || ctx.findings.is_open("C10", &f.key) => Ok(()),
                o => o,
            }
        });
        if let Some((case, f)) = res {
            seen.insert(f.key.clone());
            ctx.report(&rec, "proto-total", &case, &f);
        }
    }
    let code = rec.borrow().finish(&ctx.findings);
    code
}

thread_local! {
    static LEAK_ACC: RefCell<vcore::evidence::LeakAcc> = RefCell::new(vcore::evidence::LeakAcc::default());
}

fn leak_case(ctx: &PCtx, di: usize, c: &PFaultCase) -> PResult {
    let doc = &ctx.corpus.docs[di].doc;
    let e = ctx.entry(di, &c.base.msg);
    let (bytes, _) = encode_case(doc, &c.base, &c.base.value, true);
    let (input, what) = apply_pfault(&bytes, &c.fault);
    let name = doc.message(&c.base.msg).name.clone();
    let mut growth = [0isize; 3];
    let mut failed = false;
    let mut unique = true;
    for g in growth.iter_mut() {
        let before = vrt::alloc::live();
        let r = catch(|| (e.ops.leak_probe)(&input));
        let after = vrt::alloc::live();
        match r {
            Err(_) => return Ok(()),
            Ok((ok, u)) => {
                if !ok {
                    failed = true;
                    unique &= u;
                }
            }
        }
        *g = after - before;
    }
    if !failed {
        return Ok(());
    }
    LEAK_ACC.with(|a| a.borrow_mut().add(growth[0], &format!("{} [{}]", name, what)));
    ensure!(unique, "pb-input-still-referenced", "{}: after a failed decode the input buffer is still referenced [{}]", name, what);
    ensure!(!(growth[1] > 0 && growth[1] == growth[2]), "pb-leak", "{}: every failed decode of this input leaves {} bytes allocated [{}] input {}", name, growth[1], what, vcore::tval::hex(&input[..input.len().min(96)]));
    Ok(())
}

pub fn c19(ctx: &PCtx) -> i32 {
    let rec = RefCell::new(Recorder::new("C19", ctx.tier, ctx.seed));
    rec.borrow_mut().level = "fault_enumeration";
    rec.borrow_mut().rule = "protobuf part: every generated message type, truncations / bit flips / length-prefix corruptions of reference encodings on which Message::decode fails, plus bit flips at nine positions inside every length-delimited record body (to nesting level 2) of a few values per type; repeated three times under the counting allocator; no repeating growth of live bytes, input buffer handle unique again".into();
    let n = ctx.tier.pick(200, 4000);
    let mut seen = std::collections::BTreeSet::new();
    for (di, r) in ctx.targets() {
        let strat = (arb_pcase(ctx, di, &r, false, false, false), arb_pfault()).prop_map(|(base, fault)| PFaultCase { base, fault });
        let res = run_prop(&rec, &format!("C19p-{}-{}", ctx.corpus.docs[di].key, r.path.join(".")), n, strat, |c: &PFaultCase| {
            {
                let mut rr = rec.borrow_mut();
                rr.case(fp(c), !c.base.value.fields.is_empty(), || json!({"doc": c.base.doc, "message": c.base.msg.path.join("."), "fault": format!("{:?}", c.fault)}));
                rr.class("protobuf: faulted decode");
            }
            match leak_case(ctx, di, c) {
                Err(f) if seen.contains(&f.key) || ctx.findings.is_open("C19", &f.key) => Ok(()),
                o => o,
            }
        });
        if let Some((case, f)) = res {
            seen.insert(f.key.clone());
            ctx.report(&rec, "proto-leak", &case, &f);
        }
    }
    // every length-delimited record body (strings, packed fields, map entries, nested messages,
    // oneof members, to nesting level 2) of a few values per type gets bit flips at several
    // positions: failures *inside* a nested record, after it has already allocated
    if rec.borrow().violations.is_empty() {
        for (di, r) in ctx.targets() {
            let strat = arb_pcase(ctx, di, &r, false, false, false);
            for base in vcore::corpus::sample(&strat, ctx.seed, &format!("C19p-bodies-{}-{}", ctx.corpus.docs[di].key, r.path.join(".")), ctx.tier.pick(3, 40) as usize) {
                let doc = &ctx.corpus.docs[di].doc;
                let (bytes, _) = encode_case(doc, &base, &base.value, true);
                let n_marks = length_marks(&bytes).len();
                for k in 0..n_marks.min(400) {
                    for (pos, bit) in [(0u16, 0u8), (0, 2), (9000, 1), (22000, 7), (33000, 0), (44000, 3), (55000, 6), (65535, 2), (65535, 7)] {
                        let kk = (((k << 16) / n_marks.max(1)) + 1).min(65535) as u16;
                        let c = PFaultCase { base: base.clone(), fault: PFault::InBody(kk, pos, bit) };
                        {
                            let mut rr = rec.borrow_mut();
                            rr.case(fp(&c), true, || json!({"doc": c.base.doc, "message": c.base.msg.path.join("."), "fault": format!("{:?}", c.fault)}));
                            rr.class("protobuf: bit flip inside a nested record body");
                        }
                        if let Err(f) = leak_case(ctx, di, &c) {
                            if seen.insert(f.key.clone()) && !ctx.findings.is_open("C19", &f.key) {
                                ctx.report(&rec, "proto-leak", &c, &f);
                            }
                        }
                    }
                }
            }
        }
    }
    // memory that stays behind once per *distinct* rejected input (a cache keyed by something the
    // input chooses, a thread-local that is only balanced on success) does not repeat when one
    // input is decoded three times; it shows as live bytes that keep accumulating over the run
    if let Some(msg) = LEAK_ACC.with(|a| a.borrow().verdict()) {
        let f = Fail::new("pb-leak-accumulating", msg);
        if !ctx.findings.is_open("C19", &f.key) {
            ctx.report(&rec, "proto-leak", &json!({"accumulated": true}), &f);
        }
    }
    let code = rec.borrow().finish(&ctx.findings);
    code
}

pub fn pmain(table: Vec<PEntry>, feature_on: bool) -> i32 {
    let args: Vec<String> = std::env::args().collect();
    if args.len() < 2 {
        eprintln!("usage: gentp <Cxx> [--tier quick|thorough] [--replay file]");
        return 2;
    }
    let id = args[1].clone();
    let mut tier = Tier::Quick;
    let mut replay = None;
    let mut i = 2;
    while i < args.len() {
        match args[i].as_str() {
            "--tier" => {
                i += 1;
                if args.get(i).map(|s| s.as_str()) == Some("thorough") {
                    tier = Tier::Thorough;
                }
            }
            "--replay" => {
                i += 1;
                let text = std::fs::read_to_string(&args[i]).expect("read replay");
                replay = Some(serde_json::from_str(&text).expect("parse replay"));
            }
            _ => {}
        }
        i += 1;
    }
    let seed = env_seed();
    let mut map: BTreeMap<String, BTreeMap<String, PEntry>> = BTreeMap::new();
    for e in table {
        map.entry(e.unit.to_string()).or_default().insert(e.path.to_string(), e);
    }
    let ctx = PCtx { tier, seed, findings: Findings::load(), corpus: proto_corpus(seed, tier), table: map, replay, feature_on };
    vcore::evidence::quiet_panics();
    match id.as_str() {
        "C05" => c05(&ctx),
        "C06" => c06(&ctx),
        "C10" => c10(&ctx),
        "C18" => c18(&ctx),
        "C19" => c19(&ctx),
        o => {
            eprintln!("gentp: unknown check {}", o);
            2
        }
    }
}

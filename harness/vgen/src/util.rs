//! The universal oracle for one (type, wire value, protocol, mode) case.
use crate::GCtx;
use serde::{Deserialize, Serialize};
use vcore::ensure;
use vcore::evidence::{catch, Fail, PResult};
use vcore::refthrift::Dec;
use vcore::shrink::Shrink;
use vcore::tschema::{canon, Expect, MsgType, SDoc, Shape};
use vcore::tval::TVal;
use vrt::codec::PKind;
use vrt::gen::{Entry, Mode, RtOut, RtReq};
use vrt::io::Step;

#[derive(Clone, Debug, Serialize, Deserialize, Hash, PartialEq)]
pub enum Sched {
    Sync,
    ByteWise,
    Script(Vec<(u8, bool)>),
}

impl Sched {
    pub fn mode(&self) -> Mode {
        match self {
            Sched::Sync => Mode::Sync,
            Sched::ByteWise => Mode::Async(vec![Step::Chunk(1)], true),
            Sched::Script(s) => {
                let mut v = vec![];
                for (n, p) in s {
                    if *p {
                        v.push(Step::Pending);
                    }
                    v.push(Step::Chunk((*n as usize).max(1)));
                }
                Mode::Async(v, true)
            }
        }
    }
}

#[derive(Clone, Debug, Serialize, Deserialize, Hash)]
pub struct RtCase {
    pub unit: String,
    pub ty: String,
    /// a value of the declared (reader) type
    pub value: TVal,
    /// writer-side schema evolution applied to it before it goes on the wire
    #[serde(default)]
    pub edits: Vec<vcore::tschema::Edit>,
    pub pk: PKind,
    pub sched: Sched,
    pub linked_zc: bool,
    pub sentinel: u8,
    /// an unknown field added to a union replaces its variant (a union carries one field)
    #[serde(default)]
    pub union_replace: bool,
}

impl Shrink for RtCase {
    fn candidates(&self) -> Vec<RtCase> {
        let mut out = vec![];
        if self.sched != Sched::Sync {
            out.push(RtCase { sched: Sched::Sync, ..self.clone() });
        }
        if self.linked_zc {
            out.push(RtCase { linked_zc: false, ..self.clone() });
        }
        if self.sentinel != 0 {
            out.push(RtCase { sentinel: 0, ..self.clone() });
        }
        for i in 0..self.edits.len() {
            let mut e = self.edits.clone();
            e.remove(i);
            out.push(RtCase { edits: e, ..self.clone() });
        }
        for (i, e) in self.edits.iter().enumerate() {
            use vcore::tschema::Edit;
            let alts: Vec<Edit> = match e {
                Edit::AddUnknown(a, b, c, v) => vcore::shrink::Shrink::candidates(v).into_iter().map(|x| Edit::AddUnknown(*a, *b, *c, x)).chain(if *a != 0 { Some(Edit::AddUnknown(0, *b, *c, v.clone())) } else { None }).collect(),
                Edit::Retype(a, b, v) => vcore::shrink::same_type_candidates(v).into_iter().map(|x| Edit::Retype(*a, *b, x)).collect(),
                _ => vec![],
            };
            for a in alts {
                let mut es = self.edits.clone();
                es[i] = a;
                out.push(RtCase { edits: es, ..self.clone() });
            }
        }
        for v in vcore::shrink::same_type_candidates(&self.value) {
            out.push(RtCase { value: v, ..self.clone() });
        }
        out
    }
}

pub fn has_nan(v: &TVal) -> bool {
    let mut r = false;
    v.walk(&mut |x| {
        if let TVal::Double(b) = x {
            if f64::from_bits(*b).is_nan() {
                r = true
            }
        }
    });
    r
}

pub fn shape_kind(s: &Shape) -> &'static str {
    match s {
        Shape::Struct(_) => "struct",
        Shape::Union { .. } => "union",
        Shape::Enum(_) => "enum",
        Shape::Alias(_) => "typedef",
    }
}

pub struct RtChecked {
    pub out: RtOut,
    pub expect: Expect,
    pub wire_len: usize,
    pub wire: TVal,
}

/// Encodes `wire` with the reference encoder, pushes it through the generated type
/// (decode, size, encode, decode again) and compares with the reference semantics.
pub fn check_rt(doc: &SDoc, mt: &MsgType, entry: &Entry, case: &RtCase, keep_unknown: bool) -> Result<RtChecked, Fail> {
    let pk = case.pk;
    let kind = shape_kind(&mt.shape);
    let proto = pk.ref_proto();
    let (wire, _) = doc.evolve(&mt.shape, &case.value, &case.edits, case.union_replace);
    let bytes = vcore::refthrift::encode(proto, &wire);
    let expect = doc.project_shape(&mt.shape, &wire, keep_unknown, keep_unknown && !mt.synthesized);
    let req = RtReq { pk, mode: case.sched.mode(), bytes: &bytes, sentinel: case.sentinel as usize, linked_zc: case.linked_zc, poll_budget: 16 * (bytes.len() + case.sentinel as usize) + 256 };
    let tag = format!("{:?}/{}{}", pk, if case.sched == Sched::Sync { "sync" } else { "async" }, if case.linked_zc { "/zc" } else { "" });
    let out = match catch(|| (entry.ops.roundtrip)(&req)) {
        Err(p) => {
            return Err(Fail::new(
                &format!("panic:{}:{}:{}", kind, tag, vrt::total::panic_signature(&p)),
                format!("{} {}: generated code panicked: {}\n value {:?}", mt.rust_name, tag, p, wire),
            ))
        }
        Ok(o) => o,
    };
    ensure!(!out.hang, &format!("hang:{}:{}", kind, tag), "{} {}: decode_async did not finish within the poll budget\n value {:?}", mt.rust_name, tag, wire);
    match &expect {
        Expect::Error(why) => {
            ensure!(
                out.decode_err.is_some(),
                &format!("accepted-invalid:{}:{}", kind, tag),
                "{} {}: decode succeeded although the reference semantics demand an error ({})\n wire value {:?}\n decoded {}",
                mt.rust_name, tag, why, wire, out.debug
            );
        }
        Expect::Value(e) => {
            if let Some(err) = &out.decode_err {
                return Err(Fail::new(&format!("decode-error:{}:{}", kind, tag), format!("{} {}: decode failed on a well-formed message: {}\n wire value {:?}", mt.rust_name, tag, err, wire)));
            }
            ensure!(
                out.consumed == bytes.len(),
                &format!("consumed:{}:{}", kind, tag),
                "{} {}: decoder consumed {} bytes, the message has {} (sentinel {})\n wire value {:?}",
                mt.rust_name, tag, out.consumed, bytes.len(), case.sentinel, wire
            );
            if let Some(err) = &out.encode_err {
                return Err(Fail::new(&format!("encode-error:{}:{}", kind, tag), format!("{} {}: encode failed: {}\n decoded {}", mt.rust_name, tag, err, out.debug)));
            }
            ensure!(out.guards_ok, &format!("guards:{}:{}", kind, tag), "{} {}: unchecked writer modified bytes outside its exact-size region", mt.rust_name, tag);
            let re = out.reencoded.as_ref().expect("reencoded");
            let mut d = Dec::new(proto, re);
            let got = match d.value(doc.shape_tt(&mt.shape)) {
                Ok(v) => v,
                Err(e2) => {
                    return Err(Fail::new(
                        &format!("invalid-wire:{}:{}", kind, tag),
                        format!("{} {}: the reference decoder rejects the re-encoded bytes: {}\n bytes {}\n decoded {}", mt.rust_name, tag, e2, vcore::tval::hex(&re[..re.len().min(96)]), out.debug),
                    ))
                }
            };
            ensure!(d.pos == re.len(), &format!("trailing:{}:{}", kind, tag), "{} {}: re-encoding has {} trailing bytes", mt.rust_name, tag, re.len() - d.pos);
            ensure!(
                canon(&got) == canon(e),
                &format!("value-differs:{}:{}", kind, tag),
                "{} {}: encode(decode(m)) differs from the expected value\n wire in  {:?}\n expected {:?}\n got      {:?}\n decoded  {}",
                mt.rust_name, tag, wire, canon(e), canon(&got), out.debug
            );
            ensure!(
                out.size_fresh == re.len(),
                &format!("size-fresh:{}:{}", kind, tag),
                "{} {}: size() on a fresh protocol = {}, encode wrote {} bytes\n decoded {}",
                mt.rust_name, tag, out.size_fresh, re.len(), out.debug
            );
            ensure!(
                out.size_same == re.len(),
                &format!("size-same:{}:{}", kind, tag),
                "{} {}: size() on the writing instance = {}, encode wrote {} bytes\n decoded {}",
                mt.rust_name, tag, out.size_same, re.len(), out.debug
            );
            if let Some(e2) = &out.second_err {
                return Err(Fail::new(&format!("redecode-error:{}:{}", kind, tag), format!("{} {}: its own encoding does not decode: {}\n decoded {}", mt.rust_name, tag, e2, out.debug)));
            }
            if !has_nan(e) {
                ensure!(
                    out.second_equal == Some(true),
                    &format!("not-equal-after-roundtrip:{}:{}", kind, tag),
                    "{} {}: decode(encode(t)) != t under the generated PartialEq\n t = {}",
                    mt.rust_name, tag, out.debug
                );
            }
        }
    }
    Ok(RtChecked { out, expect, wire_len: bytes.len(), wire })
}

pub fn as_presult<T>(r: Result<T, Fail>) -> PResult {
    r.map(|_| ())
}

/// Looks up the model and the entry for a case.
pub fn resolve_case<'a>(ctx: &'a GCtx, unit: &str, ty: &str) -> Option<(&'a SDoc, MsgType, &'a Entry, bool)> {
    let u = ctx.corpus.units.iter().find(|u| u.key(&ctx.corpus.docs) == unit)?;
    let doc = &ctx.corpus.docs[u.doc].doc;
    let mt = doc.msg_types().into_iter().find(|m| GCtx::path_of(doc, m) == ty)?;
    let e = ctx.table.get(unit)?.get(ty)?;
    Some((doc, mt, e, u.cfg.keep_unknown))
}

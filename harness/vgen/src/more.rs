//! Generated-type parts of C09 (totality), C11 (unchecked vs checked), C12 (async vs sync),
//! and the checks C19 (failed decode releases everything) and C20 (Default = IDL defaults).
use crate::rt::{arb_sched, fp, targets};
use crate::util::*;
use crate::GCtx;
use proptest::prelude::*;
use serde::{Deserialize, Serialize};
use serde_json::json;
use vcore::ensure;
use vcore::evidence::{catch, run_prop, Fail, PResult, Recorder};
use vcore::mutate::{apply, arb_fault, Boundary, Fault};
use vcore::refthrift::{Enc, MarkKind, Variant};
use vcore::shrink::Shrink;
use vcore::tschema::{arb_edit, arb_shape_value, canon, Edit, MsgType, SDoc, STy, Shape, ValCfg};
use vcore::tval::TVal;
use vrt::codec::PKind;
use vrt::gen::{Entry, Mode, RtReq};
use vrt::total::{limits_for, observe};

#[derive(Clone, Debug, Serialize, Deserialize, Hash)]
pub struct FaultCase {
    pub unit: String,
    pub ty: String,
    pub value: TVal,
    pub edits: Vec<Edit>,
    pub fault: Fault,
    pub pk: PKind,
    pub sched: Sched,
}

impl Shrink for FaultCase {
    fn candidates(&self) -> Vec<FaultCase> {
        let mut out = vec![];
        if self.sched != Sched::Sync {
            out.push(FaultCase { sched: Sched::Sync, ..self.clone() });
        }
        for i in 0..self.edits.len() {
            let mut e = self.edits.clone();
            e.remove(i);
            out.push(FaultCase { edits: e, ..self.clone() });
        }
        for v in vcore::shrink::same_type_candidates(&self.value) {
            out.push(FaultCase { value: v, ..self.clone() });
        }
        out
    }
}

pub struct Faulted {
    pub bytes: Vec<u8>,
    pub valid_len: usize,
    pub kind: Option<MarkKind>,
    pub enlarged: bool,
    pub described: String,
    pub wire: TVal,
}

pub fn faulted(doc: &SDoc, mt: &MsgType, c: &FaultCase) -> Faulted {
    let (wire, _) = doc.evolve(&mt.shape, &c.value, &c.edits, false);
    let mut e = Enc::new(c.pk.ref_proto(), Variant::default());
    e.value(&wire);
    let a = apply(c.pk.ref_proto(), &e.out, &e.marks, &c.fault);
    Faulted { bytes: a.bytes, valid_len: e.out.len(), kind: a.kind, enlarged: a.enlarged_length, described: a.described, wire }
}

fn big_count(f: &Fault) -> bool {
    matches!(f, Fault::Overwrite(_, Boundary::MinusOne | Boundary::I32Max | Boundary::U32Max | Boundary::Big16M | Boundary::RemPlus1 | Boundary::Rem | Boundary::RemMinus1))
}

fn arb_fault_case(ctx: &GCtx, unit: &str, di: usize, mt: &MsgType, pks: Vec<PKind>, faults: BoxedStrategy<Fault>, scheds: BoxedStrategy<Sched>) -> BoxedStrategy<FaultCase> {
    let doc = &ctx.corpus.docs[di].doc;
    let unit = unit.to_string();
    let ty = GCtx::path_of(doc, mt);
    (arb_shape_value(doc, &mt.shape, ValCfg { big_payloads: false, ..ValCfg::default() }), prop::collection::vec(arb_edit(), 0..3), faults, prop::sample::select(pks), scheds)
        .prop_map(move |(value, edits, fault, pk, sched)| FaultCase { unit: unit.clone(), ty: ty.clone(), value, edits, fault, pk, sched })
        .boxed()
}

fn replay_fault<F: Fn(&SDoc, &MsgType, &Entry, &FaultCase) -> PResult>(ctx: &GCtx, prop: &str, f: F) -> Option<i32> {
    let rp = ctx.replay.as_ref()?;
    let case: FaultCase = serde_json::from_value(rp["case"]["case"].clone()).expect("replay case");
    let Some((doc, mt, e, _)) = resolve_case(ctx, &case.unit, &case.ty) else {
        eprintln!("replay: type {} of unit {} is not in the corpus of this seed/tier", case.ty, case.unit);
        return Some(2);
    };
    Some(match f(doc, &mt, e, &case) {
        Ok(()) => {
            println!("replay: property holds on this case");
            0
        }
        Err(fl) => {
            println!("VIOLATION property={} replay=(given)", prop);
            println!("  key={} {}", fl.key, fl.msg);
            1
        }
    })
}

// ------------------------------------------------------------------------------------------
// C09 generated part

fn c09_case(doc: &SDoc, mt: &MsgType, e: &Entry, c: &FaultCase) -> PResult {
    let f = faulted(doc, mt, c);
    let lim = limits_for(f.bytes.len());
    let kind = shape_kind(&mt.shape);
    let tag = format!("{:?}/{}", c.pk, if c.sched == Sched::Sync { "sync" } else { "async" });
    let req = RtReq { pk: c.pk, mode: c.sched.mode(), bytes: &f.bytes, sentinel: 0, linked_zc: false, poll_budget: 16 * f.bytes.len() + 256 };
    let what = format!("gen-{}-{}", kind, tag);
    let ((ok, _consumed), _obs) = observe(&what, lim, || (e.ops.decode_only)(&req)).map_err(|fl| Fail::new(&fl.key, format!("{} {} [{}]\n wire {:?}\n input {}", mt.rust_name, fl.msg, f.described, f.wire, vcore::tval::hex(&f.bytes[..f.bytes.len().min(96)]))))?;
    ensure!(ok.is_some(), &format!("hang:{}", what), "{} {}: decode_async did not finish within its poll budget [{}]", mt.rust_name, tag, f.described);
    // every strict prefix of a valid struct encoding is rejected
    if matches!(c.fault, Fault::Truncate(_)) && f.bytes.len() < f.valid_len && matches!(mt.shape, Shape::Struct(_) | Shape::Union { .. }) && c.edits.is_empty() && doc.conforms_shape(&mt.shape, &c.value) {
        ensure!(ok == Some(false), &format!("prefix-accepted:{}", what), "{} {}: a strict prefix ({} of {} bytes) of a valid encoding decoded successfully\n wire {:?}", mt.rust_name, tag, f.bytes.len(), f.valid_len, f.wire);
    }
    Ok(())
}

pub fn c09(ctx: &GCtx) -> i32 {
    let rec = std::cell::RefCell::new(Recorder::new("C09", ctx.tier, ctx.seed));
    {
        let mut r = rec.borrow_mut();
        r.level = "fault_enumeration";
        r.rule = "generated part: for every generated type, a reference encoding of a schema-directed value (optionally with unknown fields) with exactly one fault (truncation, bit flip, length/count/field-id mark overwritten with a boundary value, type byte replaced), decoded by T::decode and T::decode_async under binary / LE / compact; oracle as in the runtime part (no panic, bounded allocation, bounded polls, strict prefixes rejected); non-trivial = single-fault mutant".into();
        r.assumptions = vec!["async decoders pre-allocate containers from the wire count (known finding async-count-prealloc): count/length overwrites that enlarge a field are excluded for async generated decoders and exercised in a child process".into()];
    }
    if let Some(code) = replay_fault(ctx, "C09", c09_case) {
        return code;
    }
    let tg = targets(ctx);
    let per_type = ctx.tier.pick(300, 2000);
    let prealloc_open = ctx.findings.is_open("C09", "async-count-prealloc");
    let prealloc_hits = std::cell::Cell::new(0u64);
    let swallow_hits = std::cell::Cell::new(0u64);
    let mut seen = std::collections::BTreeSet::new();
    for (unit, di, mt) in &tg {
        if unit.ends_with("_s") || ctx.corpus.docs[*di].side.is_some() {
            continue;
        }
        let doc = &ctx.corpus.docs[*di].doc;
        let entry = ctx.entry(unit, doc, mt).unwrap();
        let strat = arb_fault_case(ctx, unit, *di, mt, vec![PKind::Binary, PKind::BinaryLe, PKind::Compact], arb_fault(), arb_sched());
        let res = run_prop(&rec, &format!("c09g-{}-{}", unit, mt.rust_name), per_type, strat, |c: &FaultCase| {
            let f = faulted(doc, mt, c);
            if prealloc_open && c.sched != Sched::Sync && (f.enlarged || big_count(&c.fault) || (matches!(c.fault, Fault::Flip(..)) && matches!(f.kind, Some(MarkKind::Count) | Some(MarkKind::Length)))) {
                rec.borrow_mut().exclude("async-count-prealloc (known finding: async generated decoders allocate the wire count up front)");
                return Ok(());
            }
            {
                let mut r = rec.borrow_mut();
                r.case(fp(&(&c.ty, c.pk, &f.bytes, &c.sched)), true, || json!({"type": c.ty, "pk": format!("{:?}", c.pk), "sched": format!("{:?}", c.sched), "fault": f.described, "input": vcore::tval::hex(&f.bytes[..f.bytes.len().min(64)])}));
                r.class(match &c.fault {
                    Fault::None => "generated: valid",
                    Fault::Truncate(_) => "generated: truncation",
                    Fault::Flip(..) => "generated: bit flip",
                    Fault::Overwrite(..) => "generated: mark overwrite",
                    Fault::TypeByte(..) => "generated: type byte",
                });
                r.class_if(c.sched != Sched::Sync, "generated: async");
                r.class(&format!("generated: shape {}", shape_kind(&mt.shape)));
            }
            if ctx.skip_case() {
                return Ok(());
            }
            crate::journal(ctx, "C09", &rec, &json!({"sub": "generated-total", "key": "process-died", "case": c}));
            match c09_case(doc, mt, entry, c) {
                // an async generated decoder that over-allocates on corrupted input is the known
                // finding async-count-prealloc (counted, the search goes on)
                Err(fl) if prealloc_open && c.sched != Sched::Sync && fl.key.starts_with("alloc:") => {
                    prealloc_hits.set(prealloc_hits.get() + 1);
                    Ok(())
                }
                // keep_unknown_fields builds: 'remaining - 2' of the known finding arg-type-tail-swallow
                // ... and a truncated message whose argument-type member swallows the tail decodes "successfully"
                Err(fl) if unit.ends_with("_k") && c.sched == Sched::Sync && fl.key.starts_with("prefix-accepted") && ctx.findings.is_open("C09", "arg-type-tail-swallow") && doc.triggers_tail_swallow(mt, &c.value) => {
                    swallow_hits.set(swallow_hits.get() + 1);
                    Ok(())
                }
                Err(fl) if unit.ends_with("_k") && c.sched == Sched::Sync && fl.key.contains("attempt-to-subtract-with-overflow") && ctx.findings.is_open("C09", "arg-type-tail-swallow") => {
                    swallow_hits.set(swallow_hits.get() + 1);
                    Ok(())
                }
                Err(fl) if seen.contains(&fl.key) || ctx.findings.is_open("C09", &fl.key) => Ok(()),
                o => o,
            }
        });
        if let Some((case, fl)) = res {
            seen.insert(fl.key.clone());
            ctx.report(&rec, "generated-total", &case, &fl);
        }
    }
    for _ in 0..prealloc_hits.get() {
        rec.borrow_mut().known_hit("async-count-prealloc");
    }
    for _ in 0..swallow_hits.get() {
        rec.borrow_mut().known_hit("arg-type-tail-swallow");
    }
    // side stream of the known finding, in a child process (it ends in an allocation failure)
    if prealloc_open {
        let exe = std::env::current_exe().expect("current exe");
        let out = std::process::Command::new(exe).args(["C09", "--tier", ctx.tier.name(), "--side", "async-count-prealloc"]).env("VERIF_SEED", (ctx.seed as i64).to_string()).output();
        if let Ok(o) = out {
            let so = String::from_utf8_lossy(&o.stdout).to_string();
            let tried = so.lines().filter(|l| l.starts_with("SIDE case")).count().max(1);
            let mut r = rec.borrow_mut();
            for _ in 0..tried {
                r.class("side stream: async-count-prealloc");
            }
            if !o.status.success() || so.contains("SIDE hit") {
                r.known_hit("async-count-prealloc");
            }
        }
    }
    // nesting chains through self-referential struct fields, one child process per (protocol,
    // sync/async): a stack overflow kills the child; depth grows until the tier's bound
    for combo in ["binary,sync", "binary,async", "compact,sync", "compact,async"] {
        let exe = std::env::current_exe().expect("current exe");
        let out = std::process::Command::new(exe).args(["C09", "--tier", ctx.tier.name(), "--side", "deep-chain"]).env("VERIF_DEEP", combo).env("VERIF_SEED", (ctx.seed as i64).to_string()).output();
        if let Ok(o) = out {
            let so = String::from_utf8_lossy(&o.stdout).to_string();
            let cases: Vec<&str> = so.lines().filter(|l| l.starts_with("SIDE case")).collect();
            {
                let mut r = rec.borrow_mut();
                for l in &cases {
                    r.case(fp(l), true, || json!({"nesting chain": l}));
                    r.class("generated: nesting chain through a recursive struct");
                }
            }
            // a panic (as opposed to running out of stack) at some nesting depth
            if let Some(pl) = so.lines().find(|l| l.starts_with("SIDE panic")) {
                let before = so.lines().take_while(|l| !l.starts_with("SIDE panic")).filter(|l| l.starts_with("SIDE case")).last().unwrap_or("(none)").to_string();
                let fl = Fail::new(&format!("panic:deep-chain:{}", vrt::total::panic_signature(pl)), format!("decoding a nesting chain panicked: {} [{}]", pl, before));
                if seen.insert(fl.key.clone()) && !ctx.findings.is_open("C09", &fl.key) {
                    ctx.report(&rec, "generated-deep-chain", &json!({"chain": before}), &fl);
                }
            }
            if !o.status.success() {
                let last = cases.last().cloned().unwrap_or("(none)").to_string();
                let key = "recursive-decode-stack-overflow";
                if ctx.findings.is_open("C09", key) {
                    rec.borrow_mut().known_hit(key);
                } else if seen.insert(key.to_string()) {
                    let fl = Fail::new(key, format!("the decoding process died ({}) while decoding a nesting chain on an 8 MiB stack: {}", o.status, last));
                    ctx.report(&rec, "generated-deep-chain", &json!({"chain": last}), &fl);
                }
            }
        }
    }
    let code = rec.borrow().finish(&ctx.findings);
    code
}

/// `depth` nested structs through field `id`, innermost empty: valid up to required members
fn chain_bytes(pk: PKind, id: i16, depth: usize) -> Vec<u8> {
    let mut out = Vec::with_capacity(depth * 4 + 1);
    for _ in 0..depth {
        match pk {
            PKind::Binary | PKind::Unsafe => out.extend_from_slice(&[12, (id >> 8) as u8, id as u8]),
            PKind::BinaryLe => out.extend_from_slice(&[12, id as u8, (id >> 8) as u8]),
            PKind::Compact => {
                // first field of its struct: delta from 0
                if (1..=15).contains(&id) {
                    out.push(((id as u8) << 4) | 12);
                } else {
                    out.push(12);
                    let z = ((id as i32) << 1) ^ ((id as i32) >> 31);
                    let mut z = z as u32;
                    while z >= 0x80 {
                        out.push((z as u8) | 0x80);
                        z >>= 7;
                    }
                    out.push(z as u8);
                }
            }
        }
    }
    out.extend(std::iter::repeat(0u8).take(depth + 1));
    out
}

/// Child mode: every struct of the corpus with a field of its own type is fed nesting chains of
/// growing depth (sync and async, binary and compact) on a thread with an 8 MiB stack.
pub fn c09_deep_child(ctx: &GCtx) -> i32 {
    use std::io::Write;
    let tg = targets(ctx);
    let depths: Vec<usize> = if ctx.tier == vcore::evidence::Tier::Quick { vec![100, 1_000, 10_000, 100_000] } else { vec![100, 1_000, 10_000, 100_000, 1_000_000] };
    let mut done = 0;
    for (unit, di, mt) in &tg {
        if !unit.ends_with("_p") || ctx.corpus.docs[*di].side.is_some() {
            continue;
        }
        let Shape::Struct(fields) = &mt.shape else { continue };
        let doc = &ctx.corpus.docs[*di].doc;
        let Some(fld) = fields.iter().find(|f| matches!(&f.ty, STy::Named(..)) && matches!(doc.resolve(&f.ty), vcore::tschema::Resolved::Struct(fs) if fs == fields)) else { continue };
        let entry = ctx.entry(unit, doc, mt).unwrap().clone();
        let combo = std::env::var("VERIF_DEEP").unwrap_or_default();
        for pk in [PKind::Binary, PKind::Compact] {
            for asynchronous in [false, true] {
                if !combo.is_empty() && combo != format!("{},{}", if pk == PKind::Binary { "binary" } else { "compact" }, if asynchronous { "async" } else { "sync" }) {
                    continue;
                }
                for &d in &depths {
                    println!("SIDE case {} field {} {:?} {} depth {}", mt.rust_name, fld.id, pk, if asynchronous { "async" } else { "sync" }, d);
                    let _ = std::io::stdout().flush();
                    let bytes = chain_bytes(pk, fld.id, d);
                    let e = entry.clone();
                    let h = std::thread::Builder::new().stack_size(8 << 20).spawn(move || {
                        let mode = if asynchronous { Mode::Async(vec![], false) } else { Mode::Sync };
                        let req = RtReq { pk, mode, bytes: &bytes, sentinel: 0, linked_zc: false, poll_budget: 64 * bytes.len() + 1024 };
                        if let Err(p) = catch(|| (e.ops.decode_only)(&req)) {
                            println!("SIDE panic {}", vcore::evidence::truncate(&p, 300));
                        }
                    });
                    let _ = h.map(|h| h.join());
                }
            }
        }
        done += 1;
        if done >= 3 {
            break;
        }
    }
    0
}

/// Child mode: async decode of messages whose container count was overwritten with i32::MAX.
pub fn c09_side_child(ctx: &GCtx) -> i32 {
    let tg = targets(ctx);
    let mut tried = 0;
    for (unit, di, mt) in &tg {
        if !unit.ends_with("_p") || ctx.corpus.docs[*di].side.is_some() {
            continue;
        }
        let doc = &ctx.corpus.docs[*di].doc;
        let entry = ctx.entry(unit, doc, mt).unwrap();
        let strat = arb_fault_case(ctx, unit, *di, mt, vec![PKind::Binary], (any::<u16>()).prop_map(|k| Fault::Overwrite(k, Boundary::I32Max)).boxed(), Just(Sched::ByteWise).boxed());
        for c in vcore::corpus::sample(&strat, ctx.seed, &format!("c09-side-{}-{}", unit, mt.rust_name), 6) {
            let f = faulted(doc, mt, &c);
            if f.kind != Some(MarkKind::Count) {
                continue;
            }
            tried += 1;
            println!("SIDE case {} {}", mt.rust_name, f.described);
            if c09_case(doc, mt, entry, &c).is_err() {
                println!("SIDE hit");
                return 0;
            }
            if tried >= 40 {
                return 0;
            }
        }
    }
    0
}

// ------------------------------------------------------------------------------------------
// C12 generated part

fn c12_case(doc: &SDoc, mt: &MsgType, e: &Entry, c: &FaultCase) -> PResult {
    let f = faulted(doc, mt, c);
    let kind = shape_kind(&mt.shape);
    let sentinel = 5;
    let mk = |mode: Mode| RtReq { pk: c.pk, mode, bytes: &f.bytes, sentinel, linked_zc: false, poll_budget: 16 * (f.bytes.len() + sentinel) + 256 };
    let sreq = mk(Mode::Sync);
    let s = match catch(|| (e.ops.roundtrip)(&sreq)) {
        Ok(o) => o,
        Err(_) => return Ok(()), // the in-memory decoder panics: C09's subject
    };
    let areq = mk(c.sched.mode());
    let tag = format!("{:?}", c.pk);
    let a = match catch(|| (e.ops.roundtrip)(&areq)) {
        Ok(o) => o,
        Err(p) => return Err(Fail::new(&format!("async-panic:{}:{}", kind, tag), format!("{} {}: decode_async panicked: {} [{}]\n wire {:?}", mt.rust_name, tag, p, f.described, f.wire))),
    };
    ensure!(!a.hang, &format!("async-hang:{}:{}", kind, tag), "{} {}: decode_async did not finish [{}] sched {:?}", mt.rust_name, tag, f.described, c.sched);
    match (&s.decode_err, &a.decode_err) {
        (None, None) => {
            let (sr, ar) = (s.reencoded.as_ref(), a.reencoded.as_ref());
            if let (Some(sr), Some(ar)) = (sr, ar) {
                let tt = doc.shape_tt(&mt.shape);
                let sv = vcore::refthrift::decode(c.pk.ref_proto(), tt, sr).map(|x| canon(&x.0));
                let av = vcore::refthrift::decode(c.pk.ref_proto(), tt, ar).map(|x| canon(&x.0));
                ensure!(sv == av, &format!("async-value-differs:{}:{}", kind, tag), "{} {}: decode_async produced a different value than decode [{}] sched {:?}\n sync  {:?}\n async {:?}", mt.rust_name, tag, f.described, c.sched, sv, av);
            }
            ensure!(a.consumed == s.consumed, &format!("async-overread:{}:{}", kind, tag), "{} {}: decode_async took {} bytes from the stream, decode consumed {} [{}] sched {:?}", mt.rust_name, tag, a.consumed, s.consumed, f.described, c.sched);
        }
        (Some(_), Some(_)) => {}
        (None, Some(er)) => return Err(Fail::new(&format!("async-rejects:{}:{}", kind, tag), format!("{} {}: decode_async fails ({}) where decode succeeds [{}] sched {:?}\n wire {:?}", mt.rust_name, tag, er, f.described, c.sched, f.wire))),
        (Some(er), None) => return Err(Fail::new(&format!("async-accepts:{}:{}", kind, tag), format!("{} {}: decode_async succeeds where decode fails ({}) [{}] sched {:?}\n wire {:?}\n input {}", mt.rust_name, tag, er, f.described, c.sched, f.wire, vcore::tval::hex(&f.bytes[..f.bytes.len().min(96)])))),
    }
    Ok(())
}

pub fn c12(ctx: &GCtx) -> i32 {
    let rec = std::cell::RefCell::new(Recorder::new("C12", ctx.tier, ctx.seed));
    {
        let mut r = rec.borrow_mut();
        r.rule = "generated part: for every generated type (builds without retention), a reference encoding of a schema-directed value with unknown fields of every wire type, valid or with one fault (truncation, bit flip outside length/count fields, type byte), decoded by T::decode and by T::decode_async under a generated delivery schedule; oracle: both fail or both succeed with equal values (compared through their re-encodings) and the same number of bytes taken; non-trivial = schedule with >= 2 chunks or a Pending".into();
    }
    if let Some(code) = replay_fault(ctx, "C12", c12_case) {
        return code;
    }
    let tg = targets(ctx);
    let per_type = ctx.tier.pick(250, 4000);
    let utm_open = ctx.findings.is_open("C08", "union-variant-wire-type-mismatch");
    let faults = prop_oneof![
        5 => Just(Fault::None),
        2 => any::<u16>().prop_map(Fault::Truncate),
        2 => (any::<u16>(), 0u8..8).prop_map(|(i, b)| Fault::Flip(i, b)),
        1 => (any::<u16>(), any::<u8>()).prop_map(|(k, b)| Fault::TypeByte(k, b)),
    ]
    .boxed();
    let scheds = prop_oneof![1 => Just(Sched::ByteWise), 3 => prop::collection::vec((1u8..=40, prop::bool::weighted(0.3)), 1..6).prop_map(Sched::Script)].boxed();
    let mut seen = std::collections::BTreeSet::new();
    for (unit, di, mt) in &tg {
        if unit.ends_with("_k") || ctx.corpus.docs[*di].side.is_some() {
            continue;
        }
        let doc = &ctx.corpus.docs[*di].doc;
        let entry = ctx.entry(unit, doc, mt).unwrap();
        let strat = arb_fault_case(ctx, unit, *di, mt, vec![PKind::Binary, PKind::BinaryLe, PKind::Compact], faults.clone(), scheds.clone());
        let res = run_prop(&rec, &format!("c12g-{}-{}", unit, mt.rust_name), per_type, strat, |c: &FaultCase| {
            let f = faulted(doc, mt, c);
            if matches!(c.fault, Fault::Flip(..)) && matches!(f.kind, Some(MarkKind::Length) | Some(MarkKind::Count)) {
                rec.borrow_mut().exclude("bit flip inside a length/count field (C09's subject)");
                return Ok(());
            }
            if utm_open && doc.union_type_mismatch(&mt.shape, &f.wire) {
                rec.borrow_mut().exclude("union-variant-wire-type-mismatch (known finding of C08)");
                return Ok(());
            }
            {
                let mut r = rec.borrow_mut();
                r.case(fp(&(&c.ty, c.pk, &f.bytes, &c.sched)), true, || json!({"type": c.ty, "pk": format!("{:?}", c.pk), "sched": format!("{:?}", c.sched), "fault": f.described, "wire": format!("{:?}", f.wire)}));
                r.class(match &c.fault {
                    Fault::None => "generated: valid input",
                    Fault::Truncate(_) => "generated: truncated input",
                    Fault::Flip(..) => "generated: bit-flipped input",
                    _ => "generated: type-byte-corrupted input",
                });
                r.class_if(!c.edits.is_empty(), "generated: unknown fields / evolved writer");
            }
            if ctx.skip_case() {
                return Ok(());
            }
            crate::journal(ctx, "C12", &rec, &json!({"sub": "generated-async", "key": "process-died", "case": c}));
            match c12_case(doc, mt, entry, c) {
                Err(fl) if seen.contains(&fl.key) || ctx.findings.is_open("C12", &fl.key) => Ok(()),
                o => o,
            }
        });
        if let Some((case, fl)) = res {
            seen.insert(fl.key.clone());
            ctx.report(&rec, "generated-async", &case, &fl);
        }
    }
    let code = rec.borrow().finish(&ctx.findings);
    code
}

// ------------------------------------------------------------------------------------------
// C11 generated part

fn c11_case(doc: &SDoc, mt: &MsgType, e: &Entry, c: &FaultCase) -> PResult {
    let (wire, _) = doc.evolve(&mt.shape, &c.value, &c.edits, false);
    let bytes = vcore::refthrift::encode(vcore::refthrift::Proto::Binary, &wire);
    let kind = shape_kind(&mt.shape);
    let out = match catch(|| (e.ops.cross)(&bytes)) {
        Ok(o) => o,
        Err(p) => return Err(Fail::new(&format!("unchecked-panic:{}", kind), format!("{}: checked/unchecked codec panicked: {}\n wire {:?}", mt.rust_name, p, wire))),
    };
    match (&out.checked_err, &out.unchecked_err) {
        (None, None) => {}
        (Some(_), Some(_)) => return Ok(()),
        (a, b) => return Err(Fail::new(&format!("unchecked-outcome-differs:{}", kind), format!("{}: checked decode {:?}, unchecked decode {:?}\n wire {:?}", mt.rust_name, a, b, wire))),
    }
    {
        // PartialEq is false for NaN and the iteration order of hash containers differs between two
        // values, so equality is decided on the canonical form of the re-encodings
        let tt = doc.shape_tt(&mt.shape);
        let a = vcore::refthrift::decode(vcore::refthrift::Proto::Binary, tt, &out.enc_checked).map(|x| canon(&x.0));
        let b = vcore::refthrift::decode(vcore::refthrift::Proto::Binary, tt, &out.enc_of_unchecked_value).map(|x| canon(&x.0));
        ensure!(out.values_equal || (a.is_ok() && a == b), &format!("unchecked-value-differs:{}", kind), "{}: the unchecked decoder yields a different value\n wire {:?}\n checked   {:?}\n unchecked {:?}", mt.rust_name, wire, a, b);
    }
    ensure!(out.consumed_checked == out.consumed_unchecked && out.consumed_checked == bytes.len(), &format!("unchecked-consumed:{}", kind), "{}: checked consumed {}, unchecked accounts for {}, message has {} bytes\n wire {:?}", mt.rust_name, out.consumed_checked, out.consumed_unchecked, bytes.len(), wire);
    ensure!(out.guards_ok, &format!("unchecked-write-outside-buffer:{}", kind), "{}: the unchecked writer modified bytes outside its exact-size region", mt.rust_name);
    for (name, r) in [("BytesMut", &out.enc_unchecked_bm), ("LinkedBytes zero-copy", &out.enc_unchecked_lb)] {
        match r {
            Err(er) => return Err(Fail::new(&format!("unchecked-encode:{}", kind), format!("{}: unchecked writer ({}) failed: {}\n value {}", mt.rust_name, name, er, out.debug))),
            Ok(b) => ensure!(*b == out.enc_checked, &format!("unchecked-bytes-differ:{}", kind), "{}: unchecked writer ({}) wrote different bytes than the checked writer for the same value ({} vs {} bytes, first difference at {:?})\n value {}", mt.rust_name, name, b.len(), out.enc_checked.len(), b.iter().zip(out.enc_checked.iter()).position(|(x, y)| x != y), out.debug),
        }
    }
    Ok(())
}

pub fn c11(ctx: &GCtx) -> i32 {
    let rec = std::cell::RefCell::new(Recorder::new("C11", ctx.tier, ctx.seed));
    {
        let mut r = rec.borrow_mut();
        r.rule = "generated part: for every generated type (with and without unknown-field retention), a complete well-formed binary encoding of a schema-directed value, optionally written under an evolved schema (unknown fields that are skipped or retained); decoded by the checked and the unchecked binary reader, the decoded value encoded by the checked writer and by the unchecked writer into an exact-size canary-guarded region (BytesMut and LinkedBytes with zero-copy); oracle: equal values, equal byte accounting, identical bytes, canaries intact; non-trivial = an unknown field or payload >= 4096 or >= 2 struct levels".into();
    }
    if let Some(code) = replay_fault(ctx, "C11", c11_case) {
        return code;
    }
    let tg = targets(ctx);
    let per_type = ctx.tier.pick(250, 3000);
    let tail_open = ctx.findings.is_open("C13", "arg-type-tail-swallow");
    let utm_open = ctx.findings.is_open("C08", "union-variant-wire-type-mismatch");
    let mut seen = std::collections::BTreeSet::new();
    for (unit, di, mt) in &tg {
        if ctx.corpus.docs[*di].side.is_some() {
            continue;
        }
        let keep = unit.ends_with("_k");
        let doc = &ctx.corpus.docs[*di].doc;
        let entry = ctx.entry(unit, doc, mt).unwrap();
        let unit2 = unit.to_string();
        let ty = GCtx::path_of(doc, mt);
        let strat = (arb_shape_value(doc, &mt.shape, ValCfg::default()), prop::collection::vec(arb_edit().prop_filter("unknown fields / reorder", |e| matches!(e, Edit::AddUnknown(..) | Edit::Reorder(..))), 0..3))
            .prop_map(move |(value, edits)| FaultCase { unit: unit2.clone(), ty: ty.clone(), value, edits, fault: Fault::None, pk: PKind::Unsafe, sched: Sched::Sync });
        let res = run_prop(&rec, &format!("c11g-{}-{}", unit, mt.rust_name), per_type, strat, |c: &FaultCase| {
            let (wire, info) = doc.evolve(&mt.shape, &c.value, &c.edits, false);
            if keep && tail_open && doc.triggers_tail_swallow(mt, &wire) {
                rec.borrow_mut().exclude("arg-type-tail-swallow (known finding of C13)");
                return Ok(());
            }
            if utm_open && doc.union_type_mismatch(&mt.shape, &wire) {
                rec.borrow_mut().exclude("union-variant-wire-type-mismatch (known finding of C08)");
                return Ok(());
            }
            if !doc.tolerant_conforms_shape(&mt.shape, &wire) {
                return Ok(());
            }
            // a union carries one field; a second (unknown) one is not a well-formed union
            {
                let mut r = rec.borrow_mut();
                let s = vcore::tval::shape_of(&wire);
                r.case(fp(&(&c.ty, &wire)), info.added > 0 || s.big_payload || s.struct_levels >= 2, || json!({"unit": c.unit, "type": c.ty, "wire": format!("{:?}", wire)}));
                r.class_if(info.added > 0 && !keep, "generated: unknown field skipped");
                r.class_if(info.added > 0 && keep, "generated: unknown field retained");
                r.class_if(s.big_payload, "generated: payload >= 4096");
                r.class(&format!("generated: shape {}", shape_kind(&mt.shape)));
            }
            // unchecked code can take the process down without unwinding: the orchestrator
            // attributes such a death to the journaled case
            if ctx.skip_case() {
                return Ok(());
            }
            crate::journal(ctx, "C11", &rec, &json!({"sub": "generated-unchecked", "key": "process-died", "case": c}));
            match c11_case(doc, mt, entry, c) {
                Err(fl) if seen.contains(&fl.key) || ctx.findings.is_open("C11", &fl.key) => Ok(()),
                o => o,
            }
        });
        if let Some((case, fl)) = res {
            seen.insert(fl.key.clone());
            ctx.report(&rec, "generated-unchecked", &case, &fl);
        }
    }
    let code = rec.borrow().finish(&ctx.findings);
    code
}

// ------------------------------------------------------------------------------------------
// C19

/// Does the wire value contain, along the schema, a list with >= 2 elements that own heap memory?
fn has_heap_list(v: &TVal) -> bool {
    let mut r = false;
    v.walk(&mut |x| {
        if let TVal::List(t, es) = x {
            if !es.is_empty() && matches!(t, vcore::tval::TT::Binary | vcore::tval::TT::Struct | vcore::tval::TT::List | vcore::tval::TT::Set | vcore::tval::TT::Map) {
                r = true;
            }
        }
    });
    r
}

thread_local! {
    static LEAK_ACC: std::cell::RefCell<vcore::evidence::LeakAcc> = std::cell::RefCell::new(vcore::evidence::LeakAcc::default());
}

fn c19_case(doc: &SDoc, mt: &MsgType, e: &Entry, c: &FaultCase) -> PResult {
    let f = faulted(doc, mt, c);
    let kind = shape_kind(&mt.shape);
    let tag = format!("{:?}/{}", c.pk, if c.sched == Sched::Sync { "sync" } else { "async" });
    let req = RtReq { pk: c.pk, mode: c.sched.mode(), bytes: &f.bytes, sentinel: 0, linked_zc: false, poll_budget: 16 * f.bytes.len() + 256 };
    // executed three times: a leak is a growth of live bytes that repeats on the 2nd and 3rd
    // execution (one-time initialisation such as LazyLock constants cannot repeat)
    let mut growth = [0isize; 3];
    let mut failed = false;
    let mut unique = true;
    for g in growth.iter_mut() {
        let before = vrt::alloc::live();
        let r = catch(|| (e.ops.leak_probe)(&req));
        let after = vrt::alloc::live();
        match r {
            Err(_) => return Ok(()), // panics are C09's subject
            Ok(lo) => {
                if lo.decode_ok == Some(false) {
                    failed = true;
                    unique &= lo.input_unique;
                }
            }
        }
        *g = after - before;
    }
    if !failed {
        return Ok(());
    }
    // memory kept once per distinct input (not per repetition) is judged over the whole run;
    // inputs of the known list-elem-leak class really do leak and stay out of the sum
    // (a truncation cannot conjure list elements that the value does not have; other faults can
    // re-interpret bytes, so there the schema decides)
    let list_leak_class = c.sched == Sched::Sync && (has_heap_list(&f.wire) || (!matches!(c.fault, Fault::Truncate(_)) && doc.shape_has_heap_list(&mt.shape)));
    if !list_leak_class {
        LEAK_ACC.with(|a| a.borrow_mut().add(growth[0], &format!("{} {} [{}]", mt.rust_name, tag, f.described)));
    }
    let leaked = growth[1] > 0 && growth[1] == growth[2];
    // (an empty input is a static buffer, which never reports itself as unique)
    let referenced = !unique && !f.bytes.is_empty();
    if leaked || referenced {
        // elements of a list that were decoded before the failure are neither dropped (heap) nor
        // released (their zero-copy handles keep the input alive): one root cause, one key
        let key = if c.sched == Sched::Sync && (has_heap_list(&f.wire) || doc.shape_has_heap_list(&mt.shape)) { "list-elem-leak".to_string() } else if leaked { format!("leak:{}:{}", kind, tag) } else { format!("input-still-referenced:{}:{}", kind, tag) };
        return Err(Fail::new(
            &key,
            format!(
                "{} {}: a failed decode of this input leaves {} bytes allocated{} [{}]\n wire {:?}\n input {}",
                mt.rust_name,
                tag,
                growth[1].max(0),
                if referenced { " and keeps the input buffer referenced" } else { "" },
                f.described,
                f.wire,
                vcore::tval::hex(&f.bytes[..f.bytes.len().min(96)])
            ),
        ));
    }
    Ok(())
}

pub fn c19(ctx: &GCtx) -> i32 {
    let rec = std::cell::RefCell::new(Recorder::new("C19", ctx.tier, ctx.seed));
    {
        let mut r = rec.borrow_mut();
        r.level = "fault_enumeration";
        r.rule = "for every generated Thrift type: reference encoding of a schema-directed value, truncated at a generated offset or with one mark/byte corrupted, decoded (binary, compact; sync and async); when decoding fails the call is repeated three times under a counting allocator: live heap bytes must not grow by the same positive amount on the 2nd and 3rd execution, and the harness's handle to the input buffer must be unique again; non-trivial = decoding failed after at least one heap-owning field was present in the value".into();
        r.assumptions = vec!["live bytes are counted per thread by the harness's global allocator; growth that does not repeat is attributed to one-time initialisation".into()];
    }
    if let Some(code) = replay_fault(ctx, "C19", c19_case) {
        return code;
    }
    let tg = targets(ctx);
    let per_type = ctx.tier.pick(250, 5000);
    let prealloc_open = ctx.findings.is_open("C09", "async-count-prealloc");
    let leak_open = ctx.findings.is_open("C19", "list-elem-leak");
    let mut seen = std::collections::BTreeSet::new();
    let mut leak_hits = 0u64;
    for (unit, di, mt) in &tg {
        if unit.ends_with("_s") || unit.ends_with("_k") || ctx.corpus.docs[*di].side.is_some() {
            continue;
        }
        let doc = &ctx.corpus.docs[*di].doc;
        let entry = ctx.entry(unit, doc, mt).unwrap();
        let faults = prop_oneof![5 => any::<u16>().prop_map(Fault::Truncate), 2 => arb_fault()].boxed();
        let strat = arb_fault_case(ctx, unit, *di, mt, vec![PKind::Binary, PKind::Compact], faults, arb_sched());
        let res = run_prop(&rec, &format!("c19-{}-{}", unit, mt.rust_name), per_type, strat, |c: &FaultCase| {
            let f = faulted(doc, mt, c);
            if prealloc_open && c.sched != Sched::Sync && (f.enlarged || big_count(&c.fault) || (matches!(c.fault, Fault::Flip(..)) && matches!(f.kind, Some(MarkKind::Count) | Some(MarkKind::Length)))) {
                rec.borrow_mut().exclude("async-count-prealloc (known finding of C09)");
                return Ok(());
            }
            // corrupted type bytes / ids make an async decoder read arbitrary bytes as a count
            // (the same finding, unpredictably): async decoding gets truncations and flips of
            // payload / scalar bytes, the sync decoder gets every fault
            if prealloc_open && c.sched != Sched::Sync && !(matches!(c.fault, Fault::Truncate(_)) || (matches!(c.fault, Fault::Flip(..)) && matches!(f.kind, Some(MarkKind::Payload) | Some(MarkKind::Scalar) | Some(MarkKind::Bool)))) {
                rec.borrow_mut().exclude("async decode of a type / id corruption (may end in async-count-prealloc, known finding of C09)");
                return Ok(());
            }
            {
                let mut r = rec.borrow_mut();
                let heap = {
                    let mut h = false;
                    f.wire.walk(&mut |x| {
                        if matches!(x, TVal::Binary(b) if !b.is_empty()) || matches!(x, TVal::List(_, es) | TVal::Set(_, es) if !es.is_empty()) || matches!(x, TVal::Map(_, _, es) if !es.is_empty()) {
                            h = true
                        }
                    });
                    h
                };
                r.case(fp(&(&c.ty, c.pk, &f.bytes, &c.sched)), heap, || json!({"type": c.ty, "pk": format!("{:?}", c.pk), "sched": format!("{:?}", c.sched), "fault": f.described, "wire": format!("{:?}", f.wire)}));
                r.class(if matches!(c.fault, Fault::Truncate(_)) { "truncation" } else { "corruption" });
                r.class_if(c.sched != Sched::Sync, "async");
                r.class_if(has_heap_list(&f.wire), "list of heap-owning elements");
            }
            if ctx.skip_case() {
                return Ok(());
            }
            crate::journal(ctx, "C19", &rec, &json!({"sub": "leak", "key": "process-died", "case": c}));
            match c19_case(doc, mt, entry, c) {
                // known finding: the search continues behind it (hits are counted by the side stream)
                Err(fl) if fl.key == "list-elem-leak" && leak_open => Ok(()),
                Err(fl) if seen.contains(&fl.key) || ctx.findings.is_open("C19", &fl.key) => Ok(()),
                o => o,
            }
        });
        if let Some((case, fl)) = res {
            seen.insert(fl.key.clone());
            ctx.report(&rec, "leak", &case, &fl);
        }
    }
    // memory kept once per distinct rejected input (see LeakAcc); judged before the side stream
    // of the known finding runs, which leaks on purpose
    if std::env::var("VERIF_LEAK_DEBUG").is_ok() {
        LEAK_ACC.with(|a| eprintln!("LEAKACC {:?}", a.borrow()));
    }
    if let Some(msg) = LEAK_ACC.with(|a| a.borrow().verdict()) {
        let fl = Fail::new("leak-accumulating", msg);
        if !ctx.findings.is_open("C19", &fl.key) {
            ctx.report(&rec, "leak", &json!({"accumulated": true}), &fl);
        }
    }
    // side stream for the known finding: count how often the class leaks
    if leak_open {
        for (unit, di, mt) in &tg {
            if !unit.ends_with("_p") || ctx.corpus.docs[*di].side.is_some() {
                continue;
            }
            let doc = &ctx.corpus.docs[*di].doc;
            let entry = ctx.entry(unit, doc, mt).unwrap();
            let strat = arb_fault_case(ctx, unit, *di, mt, vec![PKind::Binary], any::<u16>().prop_map(Fault::Truncate).boxed(), Just(Sched::Sync).boxed());
            for c in vcore::corpus::sample(&strat, ctx.seed, &format!("c19-side-{}-{}", unit, mt.rust_name), 30) {
                if let Err(fl) = c19_case(doc, mt, entry, &c) {
                    if fl.key == "list-elem-leak" {
                        leak_hits += 1;
                    }
                }
            }
        }
        let mut r = rec.borrow_mut();
        for _ in 0..leak_hits {
            r.known_hit("list-elem-leak");
        }
    }
    let code = rec.borrow().finish(&ctx.findings);
    code
}

// ------------------------------------------------------------------------------------------
// C20

pub fn c20(ctx: &GCtx) -> i32 {
    let rec = std::cell::RefCell::new(Recorder::new("C20", ctx.tier, ctx.seed));
    {
        let mut r = rec.borrow_mut();
        r.rule = "for every generated struct / exception of the corpus (kitchen sink with defaults of every kind: ints, bools from ints, doubles from ints, strings, binary, enum members by name and by number, constants by reference incl. list constants, lists, sets, maps, nested literals, typedef'd targets; plus generated documents) x {binary, binary-LE, compact, unchecked}: encode(T::default()) reference-decodes to the defaults computed from the IDL (present for optional fields, the member's empty value for required members without default, absence otherwise); decode(empty struct), when it succeeds, equals T::default(); non-trivial = struct has a non-scalar default or a default reached through typedef / const / enum; enumeration of all such types is exhaustive for the corpus".into();
        r.exhaustive_parts = vec!["every struct/exception type of the corpus x 4 protocols".into()];
    }
    let tg = targets(ctx);
    let mut reported = std::collections::BTreeSet::new();
    for (unit, di, mt) in &tg {
        let doc = &ctx.corpus.docs[*di].doc;
        let side = ctx.corpus.docs[*di].side;
        let Shape::Struct(fs) = &mt.shape else { continue };
        let entry = ctx.entry(unit, doc, mt).unwrap();
        let (Some(default_bytes), Some(dec_default)) = (entry.ops.default_bytes, entry.ops.decodes_to_default) else { continue };
        let want = canon(&doc.struct_default(fs));
        let rich = fs.iter().any(|f| match &f.default {
            Some(vcore::tschema::Lit::List(_)) | Some(vcore::tschema::Lit::Map(_)) | Some(vcore::tschema::Lit::Const(..)) | Some(vcore::tschema::Lit::EnumMember(..)) => true,
            Some(_) => matches!(f.ty, vcore::tschema::STy::Named(..)),
            None => false,
        });
        for pk in [PKind::Binary, PKind::BinaryLe, PKind::Compact, PKind::Unsafe] {
            {
                let mut r = rec.borrow_mut();
                r.case(fp(&(unit, &mt.rust_name, pk)), rich, || json!({"unit": unit, "type": mt.rust_name, "pk": format!("{:?}", pk), "expected_default": format!("{:?}", want)}));
                r.class_if(fs.iter().any(|f| f.default.is_some()), "struct with IDL defaults");
                r.class_if(rich, "non-scalar / indirect default");
                r.class_if(fs.iter().any(|f| f.default.is_some() && f.req == vcore::tschema::Req::Optional), "optional field with default");
                r.class_if(fs.iter().any(|f| f.default.is_none() && f.req == vcore::tschema::Req::Required), "required member without default");
            }
            let check = || -> PResult {
                let bytes = match catch(|| default_bytes(pk)) {
                    Err(p) => return Err(Fail::new(&format!("default-panic:{:?}", pk), format!("{} {:?}: T::default() / encode panicked: {}", mt.rust_name, pk, p))),
                    Ok(Err(e)) => return Err(Fail::new(&format!("default-encode:{:?}", pk), format!("{} {:?}: encode(T::default()) failed: {}", mt.rust_name, pk, e))),
                    Ok(Ok(b)) => b,
                };
                let got = match vcore::refthrift::decode(pk.ref_proto(), vcore::tval::TT::Struct, &bytes) {
                    Ok((v, n)) if n == bytes.len() => canon(&v),
                    o => return Err(Fail::new(&format!("default-invalid-wire:{:?}", pk), format!("{} {:?}: encode(T::default()) is not a valid message: {:?}", mt.rust_name, pk, o.map(|x| x.1)))),
                };
                ensure!(got == want, &format!("default-differs:{:?}", pk), "{} {:?}: T::default() differs from the IDL defaults\n expected {:?}\n got      {:?}", mt.rust_name, pk, want, got);
                // decode(empty struct) == T::default() whenever it succeeds
                let empty = vcore::refthrift::encode(pk.ref_proto(), &TVal::Struct(vec![]));
                if unit.ends_with("_k") && ctx.findings.is_open("C13", "arg-type-tail-swallow") && doc.triggers_tail_swallow(mt, &TVal::Struct(vec![])) {
                    // keep_unknown_fields build of an argument type whose known fields are all
                    // covered: its decoder takes 'remaining - 2' bytes (C13 / C09 finding)
                    rec.borrow_mut().exclude("arg-type-tail-swallow (known finding of C13): decode of the empty struct not compared");
                    return Ok(());
                }
                match catch(|| dec_default(pk, &empty)) {
                    Err(p) => return Err(Fail::new(&format!("default-panic:{:?}", pk), format!("{} {:?}: decoding an empty struct panicked: {}", mt.rust_name, pk, p))),
                    Ok(Some(false)) => return Err(Fail::new(&format!("empty-decode-differs:{:?}", pk), format!("{} {:?}: decode(empty struct) succeeds but differs from T::default() (expected {:?})", mt.rust_name, pk, want))),
                    Ok(_) => {}
                }
                Ok(())
            };
            if let Err(mut fl) = check() {
                if let Some(k) = side {
                    if fl.key.starts_with("default-differs") || fl.key.starts_with("empty-decode-differs") {
                        fl = Fail::new(k, fl.msg);
                    }
                }
                if reported.insert((fl.key.clone(), mt.rust_name.clone())) {
                    ctx.report(&rec, "default", &json!({"unit": unit, "type": mt.rust_name, "pk": format!("{:?}", pk)}), &fl);
                }
            }
        }
    }
    if rec.borrow().violations.is_empty() {
        let missing = rec.borrow().missing_classes(&["struct with IDL defaults", "non-scalar / indirect default", "optional field with default", "required member without default"]);
        if !missing.is_empty() {
            eprintln!("INCONCLUSIVE: corpus lacks class(es) {:?}", missing);
            rec.borrow().finish(&ctx.findings);
            return 2;
        }
    }
    let code = rec.borrow().finish(&ctx.findings);
    code
}

//! Value-level checks over the Rust code pilota-build generated for the corpus. Linked into
//! `gent` together with that code; the corpus models are regenerated from (seed, tier).
use std::cell::RefCell;
use std::collections::BTreeMap;
use vcore::corpus::{thrift_corpus, Corpus};
use vcore::evidence::{env_seed, Fail, Recorder, Tier};
use vcore::findings::Findings;
use vcore::tschema::{MsgType, SDoc};
use vrt::gen::Entry;

pub mod c02;
pub mod util;

pub struct GCtx {
    pub tier: Tier,
    pub seed: u64,
    pub findings: Findings,
    pub corpus: Corpus,
    /// unit key -> (rust path -> entry)
    pub table: BTreeMap<String, BTreeMap<String, Entry>>,
    pub replay: Option<serde_json::Value>,
}

impl GCtx {
    /// Rust path (below the unit's wrapper module) of a message type.
    pub fn path_of(doc: &SDoc, t: &MsgType) -> String {
        let mut p = doc.module_path(t.file);
        p.push(t.rust_name.clone());
        p.join("::")
    }
    pub fn entry(&self, unit: &str, doc: &SDoc, t: &MsgType) -> Option<&Entry> {
        self.table.get(unit)?.get(&Self::path_of(doc, t))
    }
    pub fn report<T: serde::Serialize>(&self, rec: &RefCell<Recorder>, sub: &str, case: &T, f: &Fail) {
        let prop = rec.borrow().property.clone();
        if self.findings.is_open(&prop, &f.key) {
            rec.borrow_mut().known_hit(&f.key);
        } else {
            let replay = serde_json::json!({ "sub": sub, "key": f.key, "case": serde_json::to_value(case).unwrap() });
            rec.borrow_mut().violation(sub, format!("key={} {}", f.key, f.msg), replay);
        }
    }
}

pub fn main(table: Vec<Entry>) -> i32 {
    let args: Vec<String> = std::env::args().collect();
    if args.len() < 2 {
        eprintln!("usage: gent <Cxx> [--tier quick|thorough] [--replay file]");
        return 2;
    }
    let id = args[1].clone();
    let mut tier = Tier::Quick;
    let mut replay = None;
    let mut i = 2;
    while i < args.len() {
        match args[i].as_str() {
            "--tier" => {
                i += 1;
                if args.get(i).map(|s| s.as_str()) == Some("thorough") {
                    tier = Tier::Thorough;
                }
            }
            "--replay" => {
                i += 1;
                let text = std::fs::read_to_string(&args[i]).expect("read replay");
                replay = Some(serde_json::from_str(&text).expect("parse replay"));
            }
            _ => {}
        }
        i += 1;
    }
    let seed = env_seed();
    let mut map: BTreeMap<String, BTreeMap<String, Entry>> = BTreeMap::new();
    for e in table {
        map.entry(e.unit.to_string()).or_default().insert(e.path.to_string(), e);
    }
    let ctx = GCtx { tier, seed, findings: Findings::load(), corpus: thrift_corpus(seed, tier), table: map, replay };
    vcore::evidence::quiet_panics();
    match id.as_str() {
        "C02" => c02::run(&ctx),
        o => {
            eprintln!("gent: unknown check {}", o);
            2
        }
    }
}

//! Value-level checks over the Rust code pilota-build generated for the corpus. Linked into
//! `gent` together with that code; the corpus models are regenerated from (seed, tier).
use std::cell::RefCell;
use std::collections::BTreeMap;
use vcore::corpus::{thrift_corpus, Corpus};
use vcore::evidence::{env_seed, Fail, Recorder, Tier};
use vcore::findings::Findings;
use vcore::tschema::{MsgType, SDoc};
use vrt::gen::Entry;

pub mod more;
pub mod pcheck;
pub mod rt;
pub mod util;

pub struct GCtx {
    pub tier: Tier,
    pub seed: u64,
    pub findings: Findings,
    pub corpus: Corpus,
    /// unit key -> (rust path -> entry)
    pub table: BTreeMap<String, BTreeMap<String, Entry>>,
    pub replay: Option<serde_json::Value>,
    /// journaled-worker support: cases with an index below `skip` are not executed again
    pub skip: u64,
    pub counter: std::cell::Cell<u64>,
}

/// Written before every case that may take the process down (allocation failure, memory
/// unsafety): the orchestrator attributes a death to the journaled case.
pub fn journal(ctx: &GCtx, prop: &str, rec: &RefCell<Recorder>, case: &serde_json::Value) {
    use std::io::Write;
    let path = vcore::evidence::verif_root().join("work").join(format!("journal-{}.json", prop));
    let (ev, nt) = {
        let r = rec.borrow();
        (r.evaluations, r.distinct_nontrivial())
    };
    let body = serde_json::json!({"index": ctx.counter.get(), "evaluations": ev, "distinct_nontrivial": nt, "case": case});
    // the journaled case is also the one the runaway guard attributes a spinning decoder to
    vrt::total::guard_case(String::new);
    // one open handle per journal: rewriting in place is several times cheaper than re-creating
    thread_local! {
        static OPEN: RefCell<Option<(std::path::PathBuf, std::fs::File)>> = RefCell::new(None);
    }
    OPEN.with(|o| {
        use std::io::Seek;
        let mut o = o.borrow_mut();
        if o.as_ref().map(|(p, _)| p != &path).unwrap_or(true) {
            *o = std::fs::File::create(&path).ok().map(|f| (path.clone(), f));
        }
        if let Some((_, f)) = o.as_mut() {
            let text = serde_json::to_string(&body).unwrap();
            let _ = f.seek(std::io::SeekFrom::Start(0));
            let _ = f.write_all(text.as_bytes());
            let _ = f.set_len(text.len() as u64);
        }
    });
}

impl GCtx {
    /// Journaled-worker protocol: every dangerous case gets an index; after a restart the cases
    /// up to the one that killed the previous process are skipped.
    pub fn skip_case(&self) -> bool {
        let n = self.counter.get() + 1;
        self.counter.set(n);
        n <= self.skip
    }
    /// Rust path (below the unit's wrapper module) of a message type.
    pub fn path_of(doc: &SDoc, t: &MsgType) -> String {
        let mut p = doc.module_path(t.file);
        p.push(t.rust_name.clone());
        p.join("::")
    }
    pub fn entry(&self, unit: &str, doc: &SDoc, t: &MsgType) -> Option<&Entry> {
        self.table.get(unit)?.get(&Self::path_of(doc, t))
    }
    pub fn report<T: serde::Serialize>(&self, rec: &RefCell<Recorder>, sub: &str, case: &T, f: &Fail) {
        let prop = rec.borrow().property.clone();
        if self.findings.is_open(&prop, &f.key) {
            rec.borrow_mut().known_hit(&f.key);
        } else {
            let replay = serde_json::json!({ "sub": sub, "key": f.key, "case": serde_json::to_value(case).unwrap() });
            rec.borrow_mut().violation(sub, format!("key={} {}", f.key, f.msg), replay);
        }
    }
}

pub fn main(table: Vec<Entry>) -> i32 {
    let args: Vec<String> = std::env::args().collect();
    if args.len() < 2 {
        eprintln!("usage: gent <Cxx> [--tier quick|thorough] [--replay file]");
        return 2;
    }
    let id = args[1].clone();
    let mut tier = Tier::Quick;
    let mut replay = None;
    let mut side: Option<String> = None;
    let mut i = 2;
    while i < args.len() {
        match args[i].as_str() {
            "--tier" => {
                i += 1;
                if args.get(i).map(|s| s.as_str()) == Some("thorough") {
                    tier = Tier::Thorough;
                }
            }
            "--side" => {
                i += 1;
                side = Some(args[i].clone());
            }
            "--replay" => {
                i += 1;
                let text = std::fs::read_to_string(&args[i]).expect("read replay");
                replay = Some(serde_json::from_str(&text).expect("parse replay"));
            }
            _ => {}
        }
        i += 1;
    }
    let seed = env_seed();
    let mut map: BTreeMap<String, BTreeMap<String, Entry>> = BTreeMap::new();
    for e in table {
        map.entry(e.unit.to_string()).or_default().insert(e.path.to_string(), e);
    }
    let ctx = GCtx { tier, seed, findings: Findings::load(), corpus: thrift_corpus(seed, tier), table: map, replay, skip: std::env::var("VERIF_SKIP").ok().and_then(|s| s.parse().ok()).unwrap_or(0), counter: std::cell::Cell::new(0) };
    vcore::evidence::quiet_panics();
    // a generated decoder that iterates over an unchecked count never returns; the volume of its
    // allocations ends the process, and the orchestrator attributes the death to the journaled case
    fn runaway(_case: &str, used: usize) {
        eprintln!("runaway: {} allocations during one case without the call returning", used);
        std::process::abort();
    }
    if ctx.replay.is_none() {
        vrt::total::arm_runaway_guard(20_000_000, runaway);
    }
    if let Some(k) = side {
        if id == "C09" && k == "deep-chain" {
            return more::c09_deep_child(&ctx);
        }
        if id == "C09" {
            return more::c09_side_child(&ctx);
        }
        let spec = match id.as_str() {
            "C08" => rt::c08(),
            "C13" => rt::c13(),
            _ => return 2,
        };
        return rt::side_child(&ctx, &spec, &k);
    }
    match id.as_str() {
        "C02" => rt::run(&ctx, &rt::c02()),
        "C04" => rt::run(&ctx, &rt::c04()),
        "C08" => rt::run(&ctx, &rt::c08()),
        "C13" => rt::run(&ctx, &rt::c13()),
        "C09" => more::c09(&ctx),
        "C11" => more::c11(&ctx),
        "C12" => more::c12(&ctx),
        "C19" => more::c19(&ctx),
        "C20" => more::c20(&ctx),
        o => {
            eprintln!("gent: unknown check {}", o);
            2
        }
    }
}

pub use pcheck::pmain;

//! vcheck <Cxx> [--tier quick|thorough] [--replay <file>]  (see lib.rs)
#[global_allocator]
static ALLOC: vrt::alloc::Counting = vrt::alloc::Counting;

fn main() {
    vcheck::main_entry()
}

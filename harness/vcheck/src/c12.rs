//! C12 (runtime part) asynchronous decoding equals in-memory decoding for every delivery schedule.
use crate::c01::arb_item;
use crate::c09::{input_for, Case as FaultCase, Src};
use crate::common::*;
use crate::Ctx;
use bytes::{Buf, Bytes};
use pilota::thrift::{TAsyncInputProtocol, TInputProtocol};
use proptest::prelude::*;
use serde::{Deserialize, Serialize};
use serde_json::json;
use vcore::ensure;
use vcore::evidence::{catch, run_prop, Fail, PResult};
use vcore::mutate::Fault;
use vcore::refthrift::MarkKind;
use vcore::shrink::Shrink;
use vcore::tval::{GenCfg, TVal};
use vrt::codec::*;
use vrt::interp::{read_val, read_val_async, ReadOpts};
use vrt::io::{block_on, ScriptedReader, Step};
use vrt::{with_async_reader, with_reader};

#[derive(Clone, Debug, Serialize, Deserialize, Hash, PartialEq)]
pub enum Sched {
    /// everything in one chunk
    Whole,
    /// one byte per poll
    ByteWise,
    /// single split point (scaled into the message)
    Split(u16),
    /// explicit script: (chunk size, pending before it?)
    Script(Vec<(u8, bool)>),
}

impl Sched {
    /// (script, cycled?)
    pub fn steps(&self, len: usize) -> (Vec<Step>, bool) {
        let cycle = !matches!(self, Sched::Split(_));
        (self.steps_inner(len), cycle)
    }
    fn steps_inner(&self, len: usize) -> Vec<Step> {
        match self {
            Sched::Whole => vec![],
            Sched::ByteWise => vec![Step::Chunk(1)],
            Sched::Split(i) => {
                let at = vcore::mutate::scale(*i, len + 1);
                if at == 0 {
                    vec![Step::Pending]
                } else {
                    // `at` bytes arrive, the stream stalls once, then the rest arrives
                    vec![Step::Chunk(at), Step::Pending]
                }
            }
            Sched::Script(s) => {
                let mut v = vec![];
                for (n, pend) in s {
                    if *pend {
                        v.push(Step::Pending);
                    }
                    v.push(Step::Chunk((*n as usize).max(1)));
                }
                v
            }
        }
    }
    pub fn nontrivial(&self) -> bool {
        !matches!(self, Sched::Whole)
    }
}

fn arb_sched() -> BoxedStrategy<Sched> {
    prop_oneof![
        1 => Just(Sched::Whole),
        2 => Just(Sched::ByteWise),
        3 => any::<u16>().prop_map(Sched::Split),
        5 => prop::collection::vec((1u8..=40, prop::bool::weighted(0.3)), 1..8).prop_map(Sched::Script),
    ]
    .boxed()
}

#[derive(Clone, Debug, Serialize, Deserialize, Hash)]
pub struct Case {
    pub base: FaultCase,
    pub sched: Sched,
    pub sentinel: u8,
}

impl Shrink for Case {
    fn candidates(&self) -> Vec<Case> {
        let mut out = vec![];
        if self.sched != Sched::ByteWise && self.sched != Sched::Whole {
            out.push(Case { sched: Sched::ByteWise, ..self.clone() });
        }
        if self.sched != Sched::Whole {
            out.push(Case { sched: Sched::Whole, ..self.clone() });
        }
        for b in self.base.candidates() {
            out.push(Case { base: b, ..self.clone() });
        }
        out
    }
}

fn arb_fault12() -> BoxedStrategy<Fault> {
    // faults admitted by C12: none, truncation, bit flips, type bytes (oversized lengths are C09's subject)
    prop_oneof![
        5 => Just(Fault::None),
        2 => any::<u16>().prop_map(Fault::Truncate),
        2 => (any::<u16>(), 0u8..8).prop_map(|(i, b)| Fault::Flip(i, b)),
        1 => (any::<u16>(), any::<u8>()).prop_map(|(k, b)| Fault::TypeByte(k, b)),
    ]
    .boxed()
}

pub fn arb_case() -> BoxedStrategy<Case> {
    let cfg = GenCfg { utf8: true, max_big: 4097, max_children: 5 };
    ((0u32..=3).prop_flat_map(move |d| (arb_item(d, cfg), arb_fault12())), arb_sched(), 0u8..24)
        .prop_map(|((item, fault), sched, sentinel)| Case { base: FaultCase { src: Src::Valid { item, fault } }, sched, sentinel })
        .boxed()
}

fn ro() -> ReadOpts {
    ReadOpts { flavor: 0, utf8: false, max_depth: 200 }
}

#[derive(Debug, PartialEq)]
enum Excl {
    No,
    LengthFlip,
    SyncPanic,
}

fn check_pk(c: &Case, pk: PKind) -> Result<Excl, Fail> {
    let inp = input_for(&c.base, pk);
    // bit flips that land in a length / count field are excluded (C09's subject)
    if let Src::Valid { fault: Fault::Flip(..), .. } = &c.base.src {
        if matches!(inp.kind, Some(MarkKind::Length) | Some(MarkKind::Count)) {
            return Ok(Excl::LengthFlip);
        }
    }
    let msg_len = inp.bytes.len();
    let mut data = inp.bytes.clone();
    data.extend(std::iter::repeat(0xEE).take(c.sentinel as usize));
    let tt = inp.tt;
    let envelope = inp.envelope;
    // in-memory decode
    let sync = catch(|| {
        let mut b = Bytes::from(data.clone());
        let total = b.len();
        let r = with_reader!(pk, &mut b, |p| {
            (|| {
                let env = if envelope {
                    let id = p.read_message_begin()?;
                    Some((id.name.to_string(), id.message_type as u8, id.sequence_number))
                } else {
                    None
                };
                let v = read_val(&mut p, tt, ro())?;
                Ok::<_, pilota::thrift::ThriftException>((env, v))
            })()
        });
        (r, total - b.remaining())
    });
    let (sync_res, sync_consumed) = match sync {
        Err(_) => return Ok(Excl::SyncPanic),
        Ok(x) => x,
    };
    // async decode under the schedule
    let (steps, cycle) = c.sched.steps(msg_len);
    let budget = 16 * data.len() + 64 + 4 * steps.len();
    let (reader, stats) = if cycle { ScriptedReader::new(data.clone(), steps) } else { ScriptedReader::once(data.clone(), steps) };
    let ar = catch(|| {
        with_async_reader!(pk, reader, |p| {
            block_on(
                async {
                    let env = if envelope {
                        let id = p.read_message_begin().await?;
                        Some((id.name.to_string(), id.message_type as u8, id.sequence_number))
                    } else {
                        None
                    };
                    let v = read_val_async(&mut p, tt, ro()).await?;
                    Ok::<_, pilota::thrift::ThriftException>((env, v))
                },
                budget,
            )
        })
    });
    let ar = match ar {
        Err(p) => return Err(Fail::new(&format!("async-panic-{:?}", pk), format!("async {:?}: panicked: {} [{}] sched {:?}", pk, p, inp.described, c.sched))),
        Ok(Err(_)) => return Err(Fail::new(&format!("async-hang-{:?}", pk), format!("async {:?}: poll budget {} exceeded [{}] sched {:?}", pk, budget, inp.described, c.sched))),
        Ok(Ok(r)) => r,
    };
    let handed = stats.handed.load(std::sync::atomic::Ordering::Relaxed);
    match (&sync_res, &ar) {
        (Ok((se, sv)), Ok((ae, av))) => {
            ensure!(se == ae, &format!("async-envelope-differs-{:?}", pk), "async {:?}: envelope {:?} vs in-memory {:?}", pk, ae, se);
            ensure!(
                sv.normalized() == av.normalized(),
                &format!("async-value-differs-{:?}", pk),
                "async {:?}: value differs from the in-memory decode [{}] sched {:?}\n sync  {:?}\n async {:?}",
                pk, inp.described, c.sched, sv, av
            );
            ensure!(
                handed == sync_consumed,
                &format!("async-overread-{:?}", pk),
                "async {:?}: took {} bytes from the stream, the message occupies {} [{}] sched {:?}",
                pk, handed, sync_consumed, inp.described, c.sched
            );
        }
        (Ok((_, sv)), Err(e)) => {
            return Err(Fail::new(
                &format!("async-rejects-{:?}", pk),
                format!("async {:?}: error {:?} where the in-memory decoder returns {:?} [{}] sched {:?}", pk, e, sv, inp.described, c.sched),
            ))
        }
        (Err(e), Ok((_, av))) => {
            return Err(Fail::new(
                &format!("async-accepts-{:?}", pk),
                format!("async {:?}: value {:?} where the in-memory decoder reports {:?} [{}] sched {:?} input {}", pk, av, e, inp.described, c.sched, vcore::tval::hex(&data[..data.len().min(64)])),
            ))
        }
        (Err(_), Err(_)) => {}
    }
    Ok(Excl::No)
}

pub fn check_case(c: &Case) -> Result<Vec<&'static str>, Fail> {
    let mut ex = vec![];
    for pk in [PKind::Binary, PKind::BinaryLe, PKind::Compact] {
        match check_pk(c, pk)? {
            Excl::No => {}
            Excl::LengthFlip => ex.push("bit flip inside a length/count field (C09's subject)"),
            Excl::SyncPanic => ex.push("in-memory decoder panics on this input (C09's subject)"),
        }
    }
    Ok(ex)
}

fn as_presult(c: &Case) -> PResult {
    check_case(c).map(|_| ())
}

pub fn run(ctx: &Ctx) -> i32 {
    vcore::evidence::quiet_panics();
    let rec = new_rec(ctx, "C12");
    {
        let mut r = rec.borrow_mut();
        r.rule = "case = (reference encoding of a generated value / envelope, optionally with one fault: truncation, bit flip outside length fields, type byte; delivery schedule: whole, one byte at a time, single split point, or a script of chunk sizes with Pending injections; trailing sentinel bytes); oracle: async Ok(v) iff in-memory Ok(v) with equal values, async Err whenever in-memory Err, bytes taken from the stream = bytes the in-memory decoder consumed; short messages (<= 64 bytes) additionally get every split point exhaustively; payloads of 65535..200001 bytes as value, field and list element under four schedules; the TApplicationException decoder (empty / present / absent message, three layouts) and every byte value in bool position decoded in memory and asynchronously; non-trivial = schedule has >= 2 chunks or a Pending; plus nesting chains of depth 1..=91 through struct / list / map-value / set hops skipped in memory and asynchronously (same answer, same bytes taken)".into();
        r.assumptions = vec![
            "the scripted reader wakes itself on Pending; the executor re-polls immediately".into(),
            "inputs on which the in-memory decoder panics or that enlarge a length field are excluded and counted (C09 decides them)".into(),
        ];
    }
    if let Some(rp) = &ctx.replay {
        if rp["sub"].as_str() == Some("depth") {
            let c: crate::c07::DepthCase = serde_json::from_value(rp["case"]["case"].clone()).expect("replay case");
            return match crate::c07::depth_differential(&c) {
                Ok(()) => {
                    println!("replay: property holds on this case");
                    0
                }
                Err(f) => {
                    println!("VIOLATION property=C12 replay={}", ctx.replay_path.clone().unwrap_or_default());
                    println!("  key={} {}", f.key, f.msg);
                    1
                }
            };
        }
        let case: Case = serde_json::from_value(rp["case"]["case"].clone()).expect("replay case");
        return match as_presult(&case) {
            Ok(()) => {
                println!("replay: property holds on this case");
                0
            }
            Err(f) => {
                println!("VIOLATION property=C12 replay={}", ctx.args.first().cloned().unwrap_or_default());
                println!("  key={} {}", f.key, f.msg);
                1
            }
        };
    }
    let cases = ctx.tier.pick(150_000, 3_000_000);
    let res = run_prop(&rec, "c12", cases, arb_case(), |c: &Case| {
        let r = check_case(c);
        {
            let mut rr = rec.borrow_mut();
            rr.case(fp(c), c.sched.nontrivial(), || json!(format!("{:?}", c)));
            rr.class(match &c.sched {
                Sched::Whole => "schedule: whole",
                Sched::ByteWise => "schedule: one byte at a time",
                Sched::Split(_) => "schedule: single split",
                Sched::Script(_) => "schedule: script",
            });
            if let Sched::Script(s) = &c.sched {
                rr.class_if(s.iter().any(|(_, p)| *p), "Pending injected");
            }
            if let Src::Valid { fault, item } = &c.base.src {
                rr.class(match fault {
                    Fault::None => "valid input",
                    Fault::Truncate(_) => "truncated input",
                    Fault::Flip(..) => "bit-flipped input",
                    _ => "type-byte-corrupted input",
                });
                rr.class_if(matches!(item, Item::Msg { .. }), "envelope");
            }
            if let Ok(ex) = &r {
                for e in ex {
                    rr.exclude(e);
                }
            }
        }
        r.map(|_| ())
    });
    if let Some((case, f)) = res {
        report(ctx, &rec, "async", &case, &f);
    }
    // exhaustive single split point for short messages
    if rec.borrow().violations.is_empty() {
        let cfg = GenCfg { utf8: true, max_big: 0, max_children: 4 };
        let n_short = ctx.tier.pick(1500, 30000);
        let res = run_prop(&rec, "c12-short", n_short, (0u32..=2).prop_flat_map(move |d| arb_item(d, cfg)), |item: &Item| {
            let len = vcore::refthrift::encode(vcore::refthrift::Proto::Binary, item.val()).len();
            if len > 64 {
                rec.borrow_mut().exclude("short-message enumeration: message longer than 64 bytes");
                return Ok(());
            }
            for at in 0..=len {
                let i = ((at << 16) / (len + 1) + 1).min(65535) as u16;
                let c = Case { base: FaultCase { src: Src::Valid { item: item.clone(), fault: Fault::None } }, sched: Sched::Split(i), sentinel: 3 };
                {
                    let mut rr = rec.borrow_mut();
                    rr.case(fp(&c), true, || json!(format!("exhaustive split {} of {:?}", at, item)));
                    rr.class("exhaustive split point");
                }
                as_presult(&c)?;
            }
            Ok(())
        });
        if let Some((item, f)) = res {
            report(ctx, &rec, "async-split", &Case { base: FaultCase { src: Src::Valid { item, fault: Fault::None } }, sched: Sched::ByteWise, sentinel: 3 }, &f);
        }
    }
    // payloads around and beyond 64 KiB (where a reader that grows its buffer starts to grow it),
    // as a bare value, as a field followed by a sibling and as a list element followed by another,
    // delivered whole (everything behind the payload has already arrived), in two halves and in
    // small chunks with and without stalls
    if rec.borrow().violations.is_empty() {
        let mut reported = std::collections::BTreeSet::new();
        for len in [65535usize, 65536, 65537, 70000, 131072, 131073, 200001] {
            let pay = |seed: usize| TVal::Binary((0..len).map(|i| b'a' + ((i * 7 + seed) % 26) as u8).collect());
            let items = [
                Item::Val(pay(1)),
                Item::Val(TVal::Struct(vec![(1, pay(2)), (2, TVal::I32(7)), (3, TVal::Binary(b"tail".to_vec()))])),
                Item::Val(TVal::List(vcore::tval::TT::Binary, vec![pay(3), TVal::Binary(b"next".to_vec())])),
            ];
            for item in items {
                for sched in [Sched::Whole, Sched::Split(32768), Sched::Script(vec![(255, false)]), Sched::Script(vec![(200, true), (255, false), (1, false)])] {
                    let c = Case { base: FaultCase { src: Src::Valid { item: item.clone(), fault: Fault::None } }, sched, sentinel: 9 };
                    {
                        let mut rr = rec.borrow_mut();
                        rr.case(fp(&("large", len, &c.sched, matches!(item, Item::Val(TVal::Binary(_))))), true, || json!(format!("payload of {} bytes, {:?}", len, c.sched)));
                        rr.class("payload > 64 KiB");
                    }
                    if let Err(f) = as_presult(&c) {
                        if reported.insert(f.key.clone()) && !ctx.findings.is_open("C12", &f.key) {
                            report(ctx, &rec, "async", &c, &f);
                        }
                    }
                }
            }
        }
    }
    // the hand-written TApplicationException decoder and every bool byte: async = in-memory
    if rec.borrow().violations.is_empty() {
        use pilota::thrift::Message as _;
        let mut reported = std::collections::BTreeSet::new();
        let mut flag = |rec: &std::cell::RefCell<vcore::evidence::Recorder>, f: Fail, case: serde_json::Value| {
            if reported.insert(f.key.clone()) && !ctx.findings.is_open("C12", &f.key) {
                report(ctx, rec, "async-fixed", &case, &f);
            }
        };
        for msg in ["", "x", "boom: something failed", "\u{e9}"] {
            for kind in [0i32, 6, -1] {
                for layout in 0..3u8 {
                    let mut fields = vec![(1i16, TVal::Binary(msg.as_bytes().to_vec())), (2i16, TVal::I32(kind))];
                    match layout {
                        1 => fields.swap(0, 1),
                        2 => {
                            fields.remove(0);
                        }
                        _ => {}
                    };
                    let sv = TVal::Struct(fields);
                    for pk in [PKind::Binary, PKind::BinaryLe, PKind::Compact] {
                        let data = vcore::refthrift::encode(pk.ref_proto(), &sv);
                        {
                            let mut rr = rec.borrow_mut();
                            rr.case(fp(&("appex", msg, kind, layout, format!("{:?}", pk))), true, || json!(format!("TApplicationException {:?} {:?}", sv, pk)));
                            rr.class("application exception: async vs in-memory");
                        }
                        let d2 = data.clone();
                        let sync = catch(move || {
                            let mut b = Bytes::from(d2);
                            with_reader!(pk, &mut b, |p| pilota::thrift::ApplicationException::decode(&mut p).map(|e| (e.kind().as_i32(), e.message().to_string())).map_err(|e| format!("{:?}", e)))
                        });
                        for script in [vec![], vec![Step::Chunk(1)], vec![Step::Chunk(3), Step::Pending, Step::Chunk(2)]] {
                            let d3 = data.clone();
                            let budget = 16 * data.len() + 64;
                            let asy = catch(move || {
                                let (reader, _s) = ScriptedReader::new(d3, script);
                                with_async_reader!(pk, reader, |p| block_on(async { pilota::thrift::ApplicationException::decode_async(&mut p).await.map(|e| (e.kind().as_i32(), e.message().to_string())).map_err(|e| format!("{:?}", e)) }, budget))
                            });
                            let verdict = match (&sync, &asy) {
                                (Ok(Ok(a)), Ok(Ok(Ok(b)))) if a == b => None,
                                (Ok(Err(_)), Ok(Ok(Err(_)))) => None,
                                (a, b) => Some(format!("in memory {:?}, asynchronously {:?}", a, b)),
                            };
                            if let Some(m) = verdict {
                                flag(&rec, Fail::new(&format!("appex-async-differs-{:?}", pk), format!("{:?}: TApplicationException {:?} decodes differently: {}", pk, sv, m)), json!({"what": "appex", "pk": format!("{:?}", pk), "hex": vcore::tval::hex(&data)}));
                            }
                        }
                    }
                }
            }
        }
        // every byte value in bool position (field, list element, map key and value), binary protocols
        for byte in 0..=255u8 {
            for pk in [PKind::Binary, PKind::BinaryLe] {
                let le = matches!(pk, PKind::BinaryLe);
                let i32b = |v: i32| if le { v.to_le_bytes() } else { v.to_be_bytes() };
                let i16b = |v: i16| if le { v.to_le_bytes() } else { v.to_be_bytes() };
                let mut st = vec![2u8];
                st.extend_from_slice(&i16b(1));
                st.push(byte);
                st.push(0);
                let mut li = vec![2u8];
                li.extend_from_slice(&i32b(2));
                li.extend_from_slice(&[byte, 1]);
                let mut mp = vec![2u8, 2u8];
                mp.extend_from_slice(&i32b(1));
                mp.extend_from_slice(&[byte, byte]);
                for (tt, data) in [(vcore::tval::TT::Struct, st), (vcore::tval::TT::List, li), (vcore::tval::TT::Map, mp)] {
                    {
                        let mut rr = rec.borrow_mut();
                        rr.case(fp(&("boolbyte", byte, format!("{:?}", pk), format!("{:?}", tt))), true, || json!(format!("bool byte {:#04x} in a {:?}, {:?}", byte, tt, pk)));
                        rr.class("every bool byte: async vs in-memory");
                    }
                    let d2 = data.clone();
                    let sync = catch(move || {
                        let mut b = Bytes::from(d2);
                        with_reader!(pk, &mut b, |p| read_val(&mut p, tt, ReadOpts::default()).map_err(|e| format!("{:?}", e)))
                    });
                    let d3 = data.clone();
                    let budget = 16 * data.len() + 64;
                    let asy = catch(move || {
                        let (reader, _s) = ScriptedReader::new(d3, vec![Step::Chunk(2), Step::Pending]);
                        with_async_reader!(pk, reader, |p| block_on(async { read_val_async(&mut p, tt, ReadOpts::default()).await.map_err(|e| format!("{:?}", e)) }, budget))
                    });
                    let verdict = match (&sync, &asy) {
                        (Ok(Ok(a)), Ok(Ok(Ok(b)))) if a.normalized() == b.normalized() => None,
                        (Ok(Err(_)), Ok(Ok(Err(_)))) => None,
                        (a, b) => Some(format!("in memory {:?}, asynchronously {:?}", a, b)),
                    };
                    if let Some(m) = verdict {
                        flag(&rec, Fail::new(&format!("bool-byte-async-differs-{:?}", pk), format!("{:?}: bool byte {:#04x} inside a {:?} decodes differently: {}", pk, byte, tt, m)), json!({"what": "bool", "pk": format!("{:?}", pk), "tt": format!("{:?}", tt), "hex": vcore::tval::hex(&data)}));
                    }
                }
            }
        }
    }
    // nesting chains of depth 1..=90 through struct / list / map-value / set hops: the
    // asynchronous skipper refuses exactly where the in-memory skipper refuses
    {
        let mut reported = std::collections::BTreeSet::new();
        for depth in 0..=90usize {
            for hops in [vec![0u8], vec![1], vec![2], vec![3], vec![0, 1, 2, 3], vec![2, 1]] {
                let c = crate::c07::DepthCase { depth, hops };
                {
                    let mut rr = rec.borrow_mut();
                    rr.case(fp(&("depth", &c)), true, || json!(format!("{:?}", c)));
                    rr.class("nesting chain: sync vs async skip");
                }
                if let Err(f) = crate::c07::depth_differential(&c) {
                    if reported.insert(f.key.clone()) && !ctx.findings.is_open("C12", &f.key) {
                        report(ctx, &rec, "depth", &c, &f);
                    }
                }
            }
        }
    }
    let _ = TVal::Bool(true);
    if rec.borrow().violations.is_empty() {
        if let Some(c) = require_classes(&rec, &["schedule: one byte at a time", "schedule: single split", "schedule: script", "Pending injected", "valid input", "truncated input", "bit-flipped input", "envelope", "exhaustive split point", "payload > 64 KiB", "application exception: async vs in-memory", "every bool byte: async vs in-memory"]) {
            rec.borrow().finish(&ctx.findings);
            return c;
        }
    }
    let gen = crate::genpipe::merge_gen_part(ctx, &rec, "C12");
    let own = rec.borrow().finish(&ctx.findings);
    crate::genpipe::combine(own, gen)
}

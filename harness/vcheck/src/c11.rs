//! C11 (runtime part) unchecked binary codec equals the checked one within its contract.
use crate::c01::{arb_case, Case};
use crate::common::*;
use crate::Ctx;
use bytes::{Buf, Bytes};
use pilota::thrift::{TInputProtocol, TType};
use serde_json::json;
use vcore::ensure;
use vcore::evidence::{catch, run_prop, Fail, PResult};
use vcore::tval::{shape_of, TVal};
use vrt::codec::*;
use vrt::interp::{from_ttype, read_val, ReadOpts};
use vrt::with_reader;

/// Reads a struct keeping only the fields selected by `mask` (bit i = i-th field on the wire)
/// and skipping the others, as a generated decoder with a narrower schema would.
fn selective<P: TInputProtocol>(p: &mut P, mask: u32, o: ReadOpts) -> Result<(Vec<(i16, TVal)>, Vec<usize>), String> {
    let mut kept = vec![];
    let mut skipped = vec![];
    p.read_struct_begin().map_err(|e| format!("{:?}", e))?;
    let mut i = 0;
    loop {
        let f = p.read_field_begin().map_err(|e| format!("{:?}", e))?;
        if f.field_type == TType::Stop {
            break;
        }
        if mask >> (i % 32) & 1 == 1 {
            let tt = from_ttype(f.field_type).ok_or("void field")?;
            kept.push((f.id.unwrap_or(0), read_val(p, tt, o).map_err(|e| format!("{:?}", e))?));
        } else {
            skipped.push(p.skip(f.field_type).map_err(|e| format!("skip: {:?}", e))?);
        }
        p.read_field_end().map_err(|e| format!("{:?}", e))?;
        i += 1;
    }
    p.read_struct_end().map_err(|e| format!("{:?}", e))?;
    Ok((kept, skipped))
}

pub fn check_case(c: &Case) -> PResult {
    // ---- writer: same bytes as the checked codec, inside the region, position == size
    let checked = match catch(|| write_items(PKind::Binary, BKind::BytesMut, &c.items, c.flavor_w)) {
        Ok(Ok(o)) => o,
        o => return Err(Fail::new("checked-writer-failed", format!("checked binary writer failed: {:?}", o.map(|r| r.map(|_| ())))),),
    };
    for bk in ALL_BK {
        let out = match catch(|| write_items(PKind::Unsafe, bk, &c.items, c.flavor_w)) {
            Err(p) => return Err(Fail::new("unchecked-write-panic", format!("unchecked writer ({:?}) panicked: {}", bk, p))),
            Ok(Err(e)) => return Err(Fail::new("unchecked-write-error", format!("unchecked writer ({:?}): {}", bk, e))),
            Ok(Ok(o)) => o,
        };
        ensure!(out.guards_ok, "unchecked-write-outside-buffer", "unchecked writer ({:?}) modified bytes outside the exact-size region", bk);
        ensure!(
            out.bytes == checked.bytes,
            "unchecked-bytes-differ",
            "unchecked writer ({:?}) produced different bytes than the checked writer ({} vs {} bytes; first difference at {:?})",
            bk, out.bytes.len(), checked.bytes.len(),
            out.bytes.iter().zip(checked.bytes.iter()).position(|(a, b)| a != b)
        );
        ensure!(out.ends == checked.ends, "unchecked-position", "unchecked writer ({:?}) positions {:?} differ from the checked writer's {:?}", bk, out.ends, checked.ends);
        let total: usize = out.lens.iter().sum();
        ensure!(*out.ends.last().unwrap() == total, "unchecked-size", "unchecked writer ({:?}) advanced {} bytes, reported size {}", bk, out.ends.last().unwrap(), total);
    }
    // ---- reader: same values and same accounting as the checked decoder, on reference bytes
    let wants: Vec<Want> = c.items.iter().map(|it| Want { tt: it.val().tt(), envelope: matches!(it, Item::Msg { .. }) }).collect();
    let ro = ReadOpts { flavor: c.flavor_r, utf8: c.utf8, max_depth: 200 };
    let mut data = vec![];
    for it in &c.items {
        let mut e = vcore::refthrift::Enc::new(vcore::refthrift::Proto::Binary, Default::default());
        if let Item::Msg { name, mtype, seq, .. } = it {
            e.message_begin(name.as_bytes(), *mtype, *seq);
        }
        e.value(it.val());
        data.extend_from_slice(&e.out);
    }
    let a = catch(|| read_items(PKind::Binary, &data, &wants, ro)).map_err(|p| Fail::new("checked-reader-failed", p))?;
    let b = match catch(|| read_items(PKind::Unsafe, &data, &wants, ro)) {
        Err(p) => return Err(Fail::new("unchecked-read-panic", format!("unchecked reader panicked: {}", p))),
        Ok(b) => b,
    };
    ensure!(a.items == b.items, "unchecked-values-differ", "unchecked reader decodes differently:\n checked   {:?}\n unchecked {:?}", a.items, b.items);
    ensure!(a.consumed == b.consumed, "unchecked-consumed-differ", "unchecked reader accounts for {:?} bytes, checked reader {:?}", b.consumed, a.consumed);
    // ---- reader schemas that skip arbitrary subsets of fields
    for it in &c.items {
        if let TVal::Struct(fs) = it.val() {
            if fs.is_empty() {
                continue;
            }
            let mut sdata = vcore::refthrift::encode(vcore::refthrift::Proto::Binary, it.val());
            let slen = sdata.len();
            sdata.extend_from_slice(&[0xEE; 16]);
            for mask in [0u32, 0x5555_5555, 0xAAAA_AAAA, c.flavor_w as u32 | (c.flavor_r as u32) << 8] {
                let run = |pk: PKind| {
                    let mut by = Bytes::from(sdata.clone());
                    let total = by.len();
                    let r = catch(|| with_reader!(pk, &mut by, |p| selective(&mut p, mask, ro)));
                    (r, total - by.remaining())
                };
                let (ra, ca) = run(PKind::Binary);
                let (rb, _cb) = run(PKind::Unsafe);
                let ra = ra.map_err(|p| Fail::new("checked-reader-failed", p))?;
                let rb = match rb {
                    Err(p) => return Err(Fail::new("unchecked-skip-panic", format!("unchecked reader panicked while skipping (mask {:#x}): {}", mask, p))),
                    Ok(r) => r,
                };
                ensure!(ra == rb, "unchecked-skip-differs", "narrow reader (mask {:#x}) sees different kept values / skip counts:\n checked   {:?}\n unchecked {:?}", mask, ra, rb);
                ensure!(ca == slen, "checked-consumed", "checked reader consumed {} of {}", ca, slen);
            }
        }
    }
    Ok(())
}

pub fn run(ctx: &Ctx) -> i32 {
    vcore::evidence::quiet_panics();
    let rec = new_rec(ctx, "C11");
    {
        let mut r = rec.borrow_mut();
        r.rule = "case = history of generated value trees / envelopes; the unchecked writer gets an exact-size region carved out of a canary-filled allocation (BytesMut pre-sized; LinkedBytes spare capacity, zero-copy off/on) and must produce the checked writer's bytes and positions with canaries intact; the unchecked reader must decode reference bytes to the checked reader's values with equal byte accounting, also when arbitrary subsets of struct fields are skipped; non-trivial = payload >= 4096, a skipped field, or >= 2 struct levels".into();
        r.assumptions = vec![
            "out-of-bounds reads that do not change the result are only visible to the sanitizer-backed fuzz target (thorough tier), not to this in-process check".into(),
            "generated-type part is added by the generated-code pipeline".into(),
        ];
    }
    if let Some(rp) = &ctx.replay {
        let case: Case = serde_json::from_value(rp["case"]["case"].clone()).expect("replay case");
        return match check_case(&case) {
            Ok(()) => {
                println!("replay: property holds on this case");
                0
            }
            Err(f) => {
                println!("VIOLATION property=C11 replay={}", ctx.args.first().cloned().unwrap_or_default());
                println!("  key={} {}", f.key, f.msg);
                1
            }
        };
    }
    let cases = ctx.tier.pick(40_000, 1_000_000);
    let res = run_prop(&rec, "c11", cases, arb_case(4), |c: &Case| {
        {
            let mut r = rec.borrow_mut();
            let mut nt = false;
            for it in &c.items {
                let s = shape_of(it.val());
                let skippable = matches!(it.val(), TVal::Struct(fs) if !fs.is_empty());
                nt |= s.big_payload || s.struct_levels >= 2 || skippable;
                r.class_if(s.big_payload, "payload >= 4096");
                r.class_if(skippable, "struct with skipped fields");
                r.class_if(s.struct_levels >= 2, ">= 2 struct levels");
                r.class_if(s.has_map, "map");
                r.class_if(matches!(it, Item::Msg { .. }), "envelope");
            }
            r.case(fp(c), nt, || json!(format!("{:?}", c.items)));
        }
        check_case(c)
    });
    if let Some((case, f)) = res {
        report(ctx, &rec, "unchecked", &case, &f);
    }
    if rec.borrow().violations.is_empty() {
        if let Some(c) = require_classes(&rec, &["payload >= 4096", "struct with skipped fields", ">= 2 struct levels", "map", "envelope"]) {
            rec.borrow().finish(&ctx.findings);
            return c;
        }
    }
    let gen = crate::genpipe::merge_gen_part(ctx, &rec, "C11");
    let own = rec.borrow().finish(&ctx.findings);
    crate::genpipe::combine(own, gen)
}

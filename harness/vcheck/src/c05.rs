//! C05, runtime part: the protobuf field codec modules called the way generated code calls them,
//! over run-time described messages (`vcore::pdyn` / `vrt::pdyn`), including the codecs that
//! pilota-build never emits (`group`, `btree_map`) and field numbers up to 2^29-1.
use crate::common::*;
use crate::Ctx;
use bytes::{Buf, Bytes};
use pilota::prost::Message;
use proptest::prelude::*;
use serde::{Deserialize, Serialize};
use serde_json::json;
use vcore::ensure;
use vcore::evidence::{run_prop, Fail, PResult};
use vcore::pdyn::*;
use vcore::shrink::Shrink;
use vrt::pdyn::{compile, OM};
use vcore::evidence::catch;

#[derive(Clone, Debug, Serialize, Deserialize)]
pub struct Case {
    pub schema: DSchema,
    pub msg: DMsg,
}

fn shrink_schema(s: &DSchema, m: &DMsg) -> Vec<(DSchema, DMsg)> {
    let mut out = vec![];
    // drop one field
    for i in 0..s.fields.len() {
        if s.fields.len() > 1 {
            let mut s2 = s.clone();
            let mut m2 = m.clone();
            s2.fields.remove(i);
            m2.vals.remove(i);
            out.push((s2, m2));
        }
    }
    for (i, (f, v)) in s.fields.iter().zip(&m.vals).enumerate() {
        // fewer elements
        match v {
            DFV::Rep(xs) if !xs.is_empty() => {
                for k in 0..xs.len() {
                    let mut m2 = m.clone();
                    if let DFV::Rep(ys) = &mut m2.vals[i] {
                        ys.remove(k);
                    }
                    out.push((s.clone(), m2));
                }
            }
            DFV::Map(es) if !es.is_empty() => {
                for k in 0..es.len() {
                    let mut m2 = m.clone();
                    if let DFV::Map(ys) = &mut m2.vals[i] {
                        ys.remove(k);
                    }
                    out.push((s.clone(), m2));
                }
            }
            DFV::Opt(Some(_)) => {
                let mut m2 = m.clone();
                m2.vals[i] = DFV::Opt(None);
                out.push((s.clone(), m2));
            }
            _ => {}
        }
        // simpler nested messages (first occurrence only)
        if let DKind::Msg(ns) | DKind::Group(ns) = &f.kind {
            let first: Option<&DMsg> = match v {
                DFV::Single(DV::Msg(x)) | DFV::Opt(Some(DV::Msg(x))) => Some(x),
                DFV::Rep(xs) if xs.len() == 1 => match &xs[0] {
                    DV::Msg(x) => Some(x),
                    _ => None,
                },
                _ => None,
            };
            if let Some(x) = first {
                for (ns2, x2) in shrink_schema(ns, x).into_iter().take(12) {
                    let mut s2 = s.clone();
                    let mut m2 = m.clone();
                    s2.fields[i].kind = match &f.kind {
                        DKind::Msg(_) => DKind::Msg(Box::new(ns2)),
                        _ => DKind::Group(Box::new(ns2)),
                    };
                    m2.vals[i] = match v {
                        DFV::Single(_) => DFV::Single(DV::Msg(x2)),
                        DFV::Opt(_) => DFV::Opt(Some(DV::Msg(x2))),
                        _ => DFV::Rep(vec![DV::Msg(x2)]),
                    };
                    out.push((s2, m2));
                }
            }
        }
        // scalar values to their default
        if let (DKind::Sc(sk), DFV::Single(x)) = (&f.kind, v) {
            if *x != sk.default() {
                let mut m2 = m.clone();
                m2.vals[i] = DFV::Single(sk.default());
                out.push((s.clone(), m2));
            }
        }
        // small field numbers
        if f.tag > 15 {
            let mut s2 = s.clone();
            let t = (1..16u32).find(|t| !s.fields.iter().any(|g| g.tag == *t));
            if let Some(t) = t {
                s2.fields[i].tag = t;
                out.push((s2, m.clone()));
            }
        }
    }
    out
}

impl Shrink for Case {
    fn candidates(&self) -> Vec<Case> {
        shrink_schema(&self.schema, &self.msg).into_iter().map(|(schema, msg)| Case { schema, msg }).collect()
    }
}

pub fn arb_case() -> BoxedStrategy<Case> {
    (0u32..=2).prop_flat_map(arb_schema).prop_flat_map(|schema| arb_msg(&schema).prop_map(move |msg| Case { schema: schema.clone(), msg })).boxed()
}

pub fn check_case(c: &Case) -> PResult {
    let rs = compile(&c.schema);
    let want = canon(&c.schema, &c.msg);
    let c2 = c.clone();
    let r = catch(move || -> PResult {
        let c = &c2;
        let om = OM::new(&rs, &c.msg);
        // encode: reported length = bytes written, and a conforming reader recovers the value
        let len = om.encoded_len();
        let bytes = om.encode_to_vec();
        ensure!(len == bytes.len(), "pb-runtime-encoded-len", "encoded_len() = {}, encode wrote {} bytes\n schema {:?}\n value {:?}", len, bytes.len(), c.schema, c.msg);
        let back = ref_decode(&c.schema, &bytes).map_err(|e| Fail::new("pb-runtime-invalid-wire", format!("the reference decoder rejects pilota's encoding: {}\n bytes {}\n schema {:?}\n value {:?}", e, vcore::tval::hex(&bytes), c.schema, c.msg)))?;
        ensure!(canon(&c.schema, &back) == want, "pb-runtime-encode-value", "the reference decoder reads another value from pilota's encoding\n bytes {}\n schema {:?}\n wrote {:?}\n read  {:?}", vcore::tval::hex(&bytes), c.schema, c.msg, back);
        // decode pilota's own bytes and the reference encoding: same value, everything consumed
        let reference = ref_encode(&c.schema, &c.msg);
        for (what, input) in [("own encoding", &bytes), ("reference encoding", &reference)] {
            let got = OM::decode_with(&rs, Bytes::copy_from_slice(input)).map_err(|e| Fail::new("pb-runtime-decode-error", format!("decode of the {} failed: {:?}\n bytes {}\n schema {:?}\n value {:?}", what, e, vcore::tval::hex(input), c.schema, c.msg)))?;
            ensure!(canon(&c.schema, &got.m) == want, "pb-runtime-decode-value", "decode of the {} gives another value\n bytes {}\n schema {:?}\n expected {:?}\n got      {:?}", what, vcore::tval::hex(input), c.schema, c.msg, got.m);
            // framed, followed by more data: exactly the frame is consumed
            let mut framed = vec![];
            put_varint(&mut framed, input.len() as u64);
            let head = framed.len();
            framed.extend_from_slice(input);
            framed.extend_from_slice(&[0x08, 0x01, 0xff]);
            let mut buf = Bytes::from(framed);
            let before = buf.remaining();
            let got = OM::decode_length_delimited_with(&rs, &mut buf).map_err(|e| Fail::new("pb-runtime-decode-error", format!("length-delimited decode of the {} failed: {:?}\n schema {:?}\n value {:?}", what, e, c.schema, c.msg)))?;
            ensure!(before - buf.remaining() == head + input.len(), "pb-runtime-consumed", "length-delimited decode of the {} consumed {} bytes, the frame occupies {}\n schema {:?}\n value {:?}", what, before - buf.remaining(), head + input.len(), c.schema, c.msg);
            ensure!(canon(&c.schema, &got.m) == want, "pb-runtime-decode-value", "length-delimited decode of the {} gives another value\n schema {:?}\n expected {:?}\n got      {:?}", what, c.schema, c.msg, got.m);
        }
        Ok(())
    });
    match r {
        Ok(x) => x,
        Err(p) => Err(Fail::new(&format!("panic:pb-runtime:{}", vrt::total::panic_signature(&p)), format!("field codec panicked: {}\n schema {:?}\n value {:?}", p, c.schema, c.msg))),
    }
}

pub const RULE: &str = "runtime part: a run-time described message (1..6 fields per level, nested to depth 2; every scalar codec module incl. string / faststr / bytes<Bytes> / bytes<Vec>; singular, optional, repeated, packed; embedded messages and groups singular / optional / repeated; hash_map and btree_map with 5 key kinds x 5 scalar value kinds or message values; field numbers from {1..4, 15..17, 2047, 2048, 2^18-1, 2^18, 2^25-1, 2^25, 2^29-2, 2^29-1} and random) implemented over the codec modules as generated code would; oracle: encoded_len = bytes written, the reference decoder reads the value back from pilota's bytes, pilota decodes its own and the reference encoding to the value, a length-delimited frame followed by more data is consumed exactly; non-trivial = the message has a group, a map or a nested message";

pub fn runtime_part(ctx: &Ctx, rec: &std::cell::RefCell<vcore::evidence::Recorder>) {
    let cases = ctx.tier.pick(30_000, 1_000_000);
    let res = run_prop(rec, "c05-runtime", cases, arb_case(), |c: &Case| {
        {
            let mut r = rec.borrow_mut();
            let nested = c.schema.fields.iter().any(|f| !matches!(f.kind, DKind::Sc(_)));
            r.case(fp(&serde_json::to_string(c).unwrap_or_default()), nested || c.schema.has_map(), || json!({"schema": format!("{:?}", c.schema), "value": format!("{:?}", c.msg)}));
            r.class("runtime: codec-module message");
            r.class_if(c.schema.has_group(), "runtime: group field");
            r.class_if(c.schema.group_member_reuses_number(), "runtime: group member with the group's own number");
            r.class_if(c.schema.has_map(), "runtime: map field");
            r.class_if(c.schema.fields.iter().any(|f| matches!(f.card, DCard::BTreeMap(_))), "runtime: btree_map");
            r.class_if(c.schema.fields.iter().any(|f| matches!(f.card, DCard::Packed)), "runtime: packed field");
            r.class_if(c.schema.max_tag() >= 1 << 25, "runtime: field number >= 2^25");
            r.class_if(c.schema.max_tag() == 536870911, "runtime: field number 2^29-1");
        }
        check_case(c)
    });
    if let Some((case, f)) = res {
        report(ctx, rec, "pb-runtime", &case, &f);
    }
}

pub const REQUIRED: [&str; 7] = ["runtime: group field", "runtime: group member with the group's own number", "runtime: map field", "runtime: btree_map", "runtime: packed field", "runtime: field number >= 2^25", "runtime: field number 2^29-1"];

pub fn replay(ctx: &Ctx) -> i32 {
    let rp = ctx.replay.as_ref().unwrap();
    let case: Case = serde_json::from_value(rp["case"]["case"].clone()).expect("replay case");
    match check_case(&case) {
        Ok(()) => {
            println!("replay: property holds on this case");
            0
        }
        Err(f) => {
            println!("VIOLATION property=C05 replay={}", ctx.replay_path.clone().unwrap_or_default());
            println!("  key={} {}", f.key, f.msg);
            1
        }
    }
}

// ---------------------------------------------------------------------------------------------
// C10, runtime part: the same interpreter fed damaged input and deep chains of *known* groups
// and messages (generated code has no group fields, so `group::merge` is reachable only here).

#[derive(Clone, Debug, Serialize, Deserialize)]
pub struct ChainCase {
    /// 0 = groups, 1 = messages, 2 = alternating
    pub kind: u8,
    pub depth: usize,
}

fn chain_schema(kind: u8, depth: usize) -> (DSchema, DMsg) {
    let mut schema = DSchema { fields: vec![DField { tag: 2, kind: DKind::Sc(Sk::Int32), card: DCard::Single }] };
    let mut msg = DMsg { vals: vec![DFV::Single(DV::I32(7))] };
    for level in 0..depth {
        let group = match kind {
            0 => true,
            1 => false,
            _ => level % 2 == 0,
        };
        let k = if group { DKind::Group(Box::new(schema)) } else { DKind::Msg(Box::new(schema)) };
        schema = DSchema { fields: vec![DField { tag: 1, kind: k, card: DCard::Optional }, DField { tag: 2, kind: DKind::Sc(Sk::Int32), card: DCard::Single }] };
        msg = DMsg { vals: vec![DFV::Opt(Some(DV::Msg(msg))), DFV::Single(DV::I32(level as i32))] };
    }
    (schema, msg)
}

pub fn check_chain(c: &ChainCase) -> PResult {
    // built, encoded and decoded on a thread with room for 300 levels of plain recursion
    let c = c.clone();
    let h = std::thread::Builder::new().stack_size(256 << 20).spawn(move || -> PResult {
        let (schema, msg) = chain_schema(c.kind, c.depth);
        let bytes = ref_encode(&schema, &msg);
        let rs = compile(&schema);
        let what = ["known groups", "embedded messages", "groups and messages alternating"][c.kind as usize % 3];
        let r = catch(|| OM::decode_with(&rs, Bytes::copy_from_slice(&bytes)).map(|o| o.m));
        let out = match r {
            Err(p) => return Err(Fail::new(&format!("panic:pb-runtime-chain:{}", vrt::total::panic_signature(&p)), format!("decoding {} nested {} deep panicked: {}", what, c.depth, p))),
            Ok(o) => o,
        };
        // the top-level message is level 0: `depth` nested levels are accepted up to the
        // documented recursion limit of 100 and refused beyond
        match out {
            Ok(m) => {
                ensure!(c.depth <= 100, "pb-runtime-chain-accepted", "{} nested {} deep were accepted (documented recursion limit 100)", what, c.depth);
                ensure!(m == msg, "pb-runtime-chain-value", "{} nested {} deep decode to another value", what, c.depth);
            }
            Err(e) => ensure!(c.depth > 100, "pb-runtime-chain-refused", "{} nested {} deep were refused: {:?} (documented recursion limit 100)", what, c.depth, e),
        }
        std::mem::forget((schema, msg, rs)); // dropping 300 nested boxes recursively is not what is measured
        Ok(())
    });
    match h.expect("spawn").join() {
        Ok(r) => r,
        Err(_) => Err(Fail::new("pb-runtime-chain-thread-died", "the thread decoding the chain died".to_string())),
    }
}

#[derive(Clone, Debug, Serialize, Deserialize)]
pub struct FaultCase {
    pub base: Case,
    /// (0 = truncate, 1 = flip a bit, 2 = overwrite a byte, 3 = append) , position seed, argument
    pub fault: (u8, u16, u8),
}

impl Shrink for FaultCase {
    fn candidates(&self) -> Vec<FaultCase> {
        self.base.candidates().into_iter().map(|b| FaultCase { base: b, fault: self.fault }).collect()
    }
}

pub fn faulted(c: &FaultCase) -> Vec<u8> {
    let mut bytes = ref_encode(&c.base.schema, &c.base.msg);
    let (k, pos, arg) = c.fault;
    if bytes.is_empty() {
        return bytes;
    }
    let i = vcore::mutate::scale(pos, bytes.len());
    match k % 4 {
        0 => bytes.truncate(i),
        1 => bytes[i] ^= 1 << (arg % 8),
        2 => bytes[i] = [0x00, 0x01, 0x7f, 0x80, 0xff, 0x0b, 0x0c, 0x1c][arg as usize % 8],
        _ => bytes.extend_from_slice(&[[0x0b][..].to_vec(), vec![0x0c], vec![0x0b, 0x0b], vec![0xff; 11], vec![0x0a, 0xff, 0xff, 0xff, 0xff, 0x0f]][arg as usize % 5]),
    }
    bytes
}

pub fn check_fault(c: &FaultCase) -> PResult {
    let input = faulted(c);
    let rs = compile(&c.base.schema);
    let lim = vrt::total::limits_for(input.len());
    let show = || format!("input {}\n schema {:?}", vcore::tval::hex(&input[..input.len().min(96)]), c.base.schema);
    let (res, _) = vrt::total::observe("pb-runtime-decode", lim, || OM::decode_with(&rs, Bytes::copy_from_slice(&input)).map(|o| o.m)).map_err(|f| Fail::new(&f.key, format!("{}\n {}", f.msg, show())))?;
    ensure!(res.is_err() || !top_level_length_overrun(&input), "pb-runtime-accepts-overrun", "accepted although a top-level length prefix announces more bytes than the input holds\n {}", show());
    // the framing differential: a frame followed by more data is decoded like the slice alone
    let mut framed = vec![];
    put_varint(&mut framed, input.len() as u64);
    let head = framed.len();
    framed.extend_from_slice(&input);
    framed.extend_from_slice(&[0x10, 0x01, 0x10, 0x02]);
    let total = framed.len();
    let (fres, consumed) = vrt::total::observe("pb-runtime-decode-delimited", lim, || {
        let mut buf = Bytes::from(framed);
        let r = OM::decode_length_delimited_with(&rs, &mut buf).map(|o| o.m);
        (r, total - buf.remaining())
    })
    .map_err(|f| Fail::new(&f.key, format!("{}\n {}", f.msg, show())))?
    .0;
    match (&res, &fres) {
        (Ok(a), Ok(b)) => {
            ensure!(canon(&c.base.schema, a) == canon(&c.base.schema, b), "pb-runtime-frame", "a frame followed by more data decodes to another message than its content alone\n {}", show());
            ensure!(consumed == head + input.len(), "pb-runtime-frame", "a frame of {} bytes: {} consumed\n {}", head + input.len(), consumed, show());
        }
        (Err(_), Err(_)) => {}
        (a, b) => return Err(Fail::new("pb-runtime-frame", format!("content alone: {}, as a frame followed by more data: {}\n {}", if a.is_ok() { "accepted" } else { "rejected" }, if b.is_ok() { "accepted" } else { "rejected" }, show()))),
    }
    // what is accepted re-encodes to something the reference decoder reads as the same message
    if let Ok(m) = res {
        let om = OM::new(&rs, &m);
        let out = catch(|| (om.encoded_len(), om.encode_to_vec())).map_err(|p| Fail::new(&format!("panic:pb-runtime-reencode:{}", vrt::total::panic_signature(&p)), format!("re-encoding an accepted message panicked: {}\n {}", p, show())))?;
        ensure!(out.0 == out.1.len(), "pb-runtime-encoded-len", "accepted message: encoded_len() = {}, {} bytes written\n {}", out.0, out.1.len(), show());
    }
    Ok(())
}

/// Does a top-level length-delimited record announce more bytes than the input still holds?
/// Walks plain top-level records only (varint, fixed, length-delimited); anything else - a group
/// marker, an invalid key - ends the walk without a claim. This is the one malformation the
/// property names: "a length prefix that exceeds the remaining input is rejected".
pub fn top_level_length_overrun(b: &[u8]) -> bool {
    fn varint(b: &[u8], pos: &mut usize) -> Option<u64> {
        let mut v = 0u64;
        for i in 0..10 {
            let x = *b.get(*pos)?;
            *pos += 1;
            v |= ((x & 0x7f) as u64) << (7 * i);
            if x < 0x80 {
                return Some(v);
            }
        }
        None
    }
    let mut pos = 0usize;
    while pos < b.len() {
        let Some(key) = varint(b, &mut pos) else { return false };
        if key >> 3 == 0 || key >> 3 > 536870911 {
            return false;
        }
        match key & 7 {
            0 => {
                if varint(b, &mut pos).is_none() {
                    return false;
                }
            }
            1 => {
                if b.len() - pos < 8 {
                    return false;
                }
                pos += 8;
            }
            5 => {
                if b.len() - pos < 4 {
                    return false;
                }
                pos += 4;
            }
            2 => {
                let Some(n) = varint(b, &mut pos) else { return false };
                if ((b.len() - pos) as u64) < n {
                    return true;
                }
                pos += n as usize;
            }
            _ => return false,
        }
    }
    false
}

/// The well-known wrapper messages (`impl Message for bool / u32 / ... / String / Vec<u8> / Bytes / ()`):
/// any bytes give a value or an error; what is accepted re-encodes with `encoded_len` bytes and
/// decodes to the same value again (NaN: the same bytes).
fn wrapper_probe<M: Message + Default + PartialEq + std::fmt::Debug>(name: &str, input: &[u8]) -> PResult {
    let lim = vrt::total::limits_for(input.len());
    let show = || format!("wrapper {} input {}", name, vcore::tval::hex(&input[..input.len().min(96)]));
    let (r, _) = vrt::total::observe(&format!("pb-wrapper-{}", name), lim, || M::decode(Bytes::copy_from_slice(input))).map_err(|f| Fail::new(&f.key, format!("{}
 {}", f.msg, show())))?;
    let (d, _) = vrt::total::observe(&format!("pb-wrapper-delimited-{}", name), lim, || M::decode_length_delimited(Bytes::copy_from_slice(input)).is_ok()).map_err(|f| Fail::new(&f.key, format!("{}
 {}", f.msg, show())))?;
    let _ = d;
    // a length prefix beyond the end of the input is never a value
    ensure!(r.is_err() || !top_level_length_overrun(input), "pb-wrapper-accepts-overrun", "accepted although a length prefix announces more bytes than the input holds: {:?}\n {}", r, show());
    if let Ok(m) = r {
        let out = catch(|| (m.encoded_len(), m.encode_to_vec())).map_err(|p| Fail::new(&format!("panic:pb-wrapper-reencode:{}", vrt::total::panic_signature(&p)), format!("re-encoding panicked: {}
 {}", p, show())))?;
        ensure!(out.0 == out.1.len(), "pb-wrapper-encoded-len", "encoded_len() = {}, {} bytes written
 {}", out.0, out.1.len(), show());
        let again = M::decode(Bytes::copy_from_slice(&out.1)).map_err(|e| Fail::new("pb-wrapper-own-encoding-rejected", format!("{:?}
 {}", e, show())))?;
        ensure!(again == m || again.encode_to_vec() == out.1, "pb-wrapper-roundtrip", "decode(encode(m)) differs: {:?} vs {:?}
 {}", m, again, show());
    }
    Ok(())
}

pub fn check_wrappers(input: &[u8]) -> PResult {
    wrapper_probe::<bool>("bool", input)?;
    wrapper_probe::<u32>("u32", input)?;
    wrapper_probe::<u64>("u64", input)?;
    wrapper_probe::<i32>("i32", input)?;
    wrapper_probe::<i64>("i64", input)?;
    wrapper_probe::<f32>("f32", input)?;
    wrapper_probe::<f64>("f64", input)?;
    wrapper_probe::<String>("String", input)?;
    wrapper_probe::<Vec<u8>>("Vec<u8>", input)?;
    wrapper_probe::<Bytes>("Bytes", input)?;
    wrapper_probe::<()>("()", input)
}

/// Inputs for the wrapper messages: a valid `value = 1` record of some wire type, optionally
/// damaged, or raw bytes.
fn arb_wrapper_input() -> BoxedStrategy<Vec<u8>> {
    // values: anything, or the bit patterns at which a float / integer wrapper changes behaviour
    let val = prop_oneof![
        3 => any::<u64>(),
        2 => prop::sample::select(vec![0u64, 1, 1 << 63, 0x8000_0000, f64::NAN.to_bits(), f32::NAN.to_bits() as u64, u64::MAX, i32::MIN as u32 as u64, i64::MIN as u64, u32::MAX as u64, 127, 128]),
        2 => 0u64..40,
    ];
    let rec = (0u8..6, val, prop::collection::vec(any::<u8>(), 0..20), 1u32..4).prop_map(|(k, v, payload, tag)| {
        let mut o = vec![];
        match k {
            0 => {
                put_key(&mut o, tag, 0);
                put_varint(&mut o, v);
            }
            1 => {
                put_key(&mut o, tag, 1);
                o.extend_from_slice(&v.to_le_bytes());
            }
            2 => {
                put_key(&mut o, tag, 5);
                o.extend_from_slice(&(v as u32).to_le_bytes());
            }
            3 => {
                put_key(&mut o, tag, 2);
                put_varint(&mut o, payload.len() as u64);
                o.extend_from_slice(&payload);
            }
            4 => {
                put_key(&mut o, tag, 2);
                put_varint(&mut o, v);
                o.extend_from_slice(&payload);
            }
            _ => {
                put_key(&mut o, tag, 3);
                put_key(&mut o, 1, 0);
                put_varint(&mut o, v);
                put_key(&mut o, tag, 4);
            }
        }
        o
    });
    // field 1 twice: a complete first occurrence, then one that announces at most as many bytes
    // and is cut short
    let twice = (1usize..20, 0usize..20, 0usize..20, any::<u8>()).prop_map(|(n1, n2, have, fill)| {
        let n2 = 1 + n2 % n1;
        let have = have % n2;
        let mut o = vec![0x0a, n1 as u8];
        o.extend(std::iter::repeat(b'a' + fill % 26).take(n1));
        o.extend_from_slice(&[0x0a, n2 as u8]);
        o.extend(std::iter::repeat(b'b').take(have));
        o
    });
    prop_oneof![
        2 => twice,
        4 => prop::collection::vec(rec, 1..4).prop_map(|v| v.concat()),
        2 => (prop::collection::vec(any::<u8>(), 0..40)),
        1 => prop::collection::vec(prop_oneof![0u8..24, any::<u8>()], 0..30),
    ]
    .boxed()
}

pub const C10_RULE: &str = "runtime part: run-time described messages over the codec modules (groups, btree maps and every scalar codec included): the reference encoding of a generated value with one fault (truncation, bit flip, byte overwritten by 00/01/7f/80/ff/start-group/end-group, trailing group markers / over-long varint / oversized length) is decoded under panic capture and the allocation bound, alone and as a length-delimited frame followed by more data (same verdict, same message, frame consumed exactly); chains of known groups, embedded messages and both alternating nested 1..300 deep: <= 100 accepted with the value intact, >= 101 refused; the well-known wrapper messages (bool, u32, u64, i32, i64, f32, f64, String, Vec<u8>, Bytes, ()) on valid, damaged and random records: a value or an error, and what is accepted re-encodes with encoded_len bytes to the same value";

pub fn c10_runtime_part(ctx: &Ctx, rec: &std::cell::RefCell<vcore::evidence::Recorder>) {
    let mut reported = std::collections::BTreeSet::new();
    for kind in 0u8..3 {
        for depth in [1usize, 2, 50, 98, 99, 100, 101, 102, 103, 150, 300] {
            let c = ChainCase { kind, depth };
            {
                let mut r = rec.borrow_mut();
                r.case(fp(&("chain", kind, depth)), true, || json!(format!("{:?}", c)));
                r.class("runtime: chain of known groups / messages");
            }
            if let Err(f) = check_chain(&c) {
                if reported.insert(f.key.clone()) && !ctx.findings.is_open("C10", &f.key) {
                    report(ctx, rec, "pb-runtime-chain", &c, &f);
                }
            }
        }
    }
    if !rec.borrow().violations.is_empty() {
        return;
    }
    let cases = ctx.tier.pick(30_000, 1_000_000);
    let strat = (arb_case(), (0u8..4, any::<u16>(), any::<u8>())).prop_map(|(base, fault)| FaultCase { base, fault });
    let res = run_prop(rec, "c10-runtime", cases, strat, |c: &FaultCase| {
        {
            let mut r = rec.borrow_mut();
            r.case(fp(&serde_json::to_string(c).unwrap_or_default()), true, || json!({"schema": format!("{:?}", c.base.schema), "fault": format!("{:?}", c.fault)}));
            r.class("runtime: faulted codec-module message");
            r.class_if(c.base.schema.has_group(), "runtime: faulted message with a group");
            r.class_if(c.base.schema.has_map(), "runtime: faulted message with a map");
        }
        check_fault(c)
    });
    if let Some((case, f)) = res {
        report(ctx, rec, "pb-runtime-fault", &case, &f);
        return;
    }
    // the well-known wrapper messages
    let res = vcore::evidence::run_prop_noshrink(rec, "c10-wrappers", ctx.tier.pick(20_000, 600_000), arb_wrapper_input(), |input: &Vec<u8>| {
        {
            let mut r = rec.borrow_mut();
            r.case(fp(input), true, || json!(vcore::tval::hex(input)));
            r.class("runtime: wrapper messages");
        }
        check_wrappers(input)
    });
    if let Some((input, f)) = res {
        report(ctx, rec, "pb-wrapper", &json!({"hex": vcore::tval::hex(&input)}), &f);
    }
}

pub fn c10_replay(ctx: &Ctx) -> i32 {
    let rp = ctx.replay.as_ref().unwrap();
    let res = if rp["sub"].as_str() == Some("pb-runtime-chain") {
        check_chain(&serde_json::from_value(rp["case"]["case"].clone()).expect("replay case"))
    } else if rp["sub"].as_str() == Some("pb-wrapper") {
        let hexs = rp["case"]["case"]["hex"].as_str().unwrap_or("");
        let bytes: Vec<u8> = (0..hexs.len() / 2).filter_map(|i| u8::from_str_radix(&hexs[2 * i..2 * i + 2], 16).ok()).collect();
        check_wrappers(&bytes)
    } else {
        check_fault(&serde_json::from_value(rp["case"]["case"].clone()).expect("replay case"))
    };
    match res {
        Ok(()) => {
            println!("replay: property holds on this case");
            0
        }
        Err(f) => {
            println!("VIOLATION property=C10 replay={}", ctx.replay_path.clone().unwrap_or_default());
            println!("  key={} {}", f.key, f.msg);
            1
        }
    }
}

// ---------------------------------------------------------------------------------------------
// C18, runtime part: merge semantics of the codec modules over run-time described messages
// (known groups, btree maps, every scalar codec, field numbers sharing their leading key byte).

#[derive(Clone, Debug, Serialize, Deserialize)]
pub struct MergeCase {
    pub schema: DSchema,
    pub a: DMsg,
    pub b: DMsg,
}

impl Shrink for MergeCase {
    fn candidates(&self) -> Vec<MergeCase> {
        let mut out = vec![];
        // shrink the schema together with both values: drop one field everywhere
        for i in 0..self.schema.fields.len() {
            if self.schema.fields.len() > 1 {
                let mut c = self.clone();
                c.schema.fields.remove(i);
                c.a.vals.remove(i);
                c.b.vals.remove(i);
                out.push(c);
            }
        }
        for (s2, a2) in shrink_schema(&self.schema, &self.a) {
            if s2 == self.schema {
                out.push(MergeCase { schema: s2, a: a2, b: self.b.clone() });
            }
        }
        for (s2, b2) in shrink_schema(&self.schema, &self.b) {
            if s2 == self.schema {
                out.push(MergeCase { schema: s2, a: self.a.clone(), b: b2 });
            }
        }
        out
    }
}

pub fn check_merge(c: &MergeCase) -> PResult {
    let rs = compile(&c.schema);
    let (ea, eb) = (ref_encode(&c.schema, &c.a), ref_encode(&c.schema, &c.b));
    let mut ab = ea.clone();
    ab.extend_from_slice(&eb);
    let want = ref_decode(&c.schema, &ab).map_err(|e| Fail::new("harness", format!("reference decoder rejects its own encodings: {}", e)))?;
    let want = canon(&c.schema, &want);
    let show = || format!(" schema {:?}\n a = {:?}\n b = {:?}", c.schema, c.a, c.b);
    let r = catch(|| -> PResult {
        let concat = OM::decode_with(&rs, Bytes::copy_from_slice(&ab)).map_err(|e| Fail::new("pb-runtime-merge-error", format!("decode(A ++ B) failed: {:?}\n{}", e, show())))?;
        ensure!(canon(&c.schema, &concat.m) == want, "pb-runtime-concat-differs", "decode(A ++ B) differs from the reference merge\n{}\n expected {:?}\n got      {:?}", show(), want, concat.m);
        let mut m = OM::decode_with(&rs, Bytes::copy_from_slice(&ea)).map_err(|e| Fail::new("pb-runtime-merge-error", format!("decode(A) failed: {:?}\n{}", e, show())))?;
        m.merge(Bytes::copy_from_slice(&eb)).map_err(|e| Fail::new("pb-runtime-merge-error", format!("decode(A).merge(B) failed: {:?}\n{}", e, show())))?;
        ensure!(canon(&c.schema, &m.m) == want, "pb-runtime-merge-differs", "decode(A).merge(B) differs from the reference merge\n{}\n expected {:?}\n got      {:?}", show(), want, m.m);
        Ok(())
    });
    match r {
        Ok(x) => x,
        Err(p) => Err(Fail::new(&format!("panic:pb-runtime-merge:{}", vrt::total::panic_signature(&p)), format!("merging panicked: {}\n{}", p, show()))),
    }
}

pub const C18_RULE: &str = "runtime part: run-time described messages over the codec modules (known groups, hash and btree maps, every scalar codec, field numbers that share their leading key byte), pairs (a, b) of values of one schema: decode(enc(a) ++ enc(b)) and decode(enc(a)).merge(enc(b)) equal the reference merge (last singular scalar wins, repeated and packed append, map keys replace, embedded messages and groups merge field-wise); the wrapper messages (bool ... Bytes) given field 1 two or three times, with and without unknown fields in between: the last occurrence is the value";

pub fn c18_runtime_part(ctx: &Ctx, rec: &std::cell::RefCell<vcore::evidence::Recorder>) {
    let cases = ctx.tier.pick(20_000, 600_000);
    let strat = (0u32..=2).prop_flat_map(arb_schema).prop_flat_map(|schema| (arb_msg(&schema), arb_msg(&schema)).prop_map(move |(a, b)| MergeCase { schema: schema.clone(), a, b }));
    let res = run_prop(rec, "c18-runtime", cases, strat, |c: &MergeCase| {
        {
            let mut r = rec.borrow_mut();
            r.case(fp(&serde_json::to_string(c).unwrap_or_default()), true, || json!({"schema": format!("{:?}", c.schema), "a": format!("{:?}", c.a), "b": format!("{:?}", c.b)}));
            r.class("runtime: merge of codec-module messages");
            r.class_if(c.schema.has_group(), "runtime: merge with a group");
            r.class_if(c.schema.has_map(), "runtime: merge with a map");
            let tags: Vec<u32> = c.schema.fields.iter().map(|f| f.tag).collect();
            r.class_if(tags.iter().any(|t| *t >= 16 && tags.iter().any(|u| u != t && *u >= 16 && u % 16 == t % 16)), "runtime: field numbers >= 16 congruent mod 16");
        }
        check_merge(c)
    });
    if let Some((case, f)) = res {
        report(ctx, rec, "pb-runtime-merge", &case, &f);
        return;
    }
    c18_wrapper_part(ctx, rec);
}

/// The wrapper messages under merge: of several occurrences of field 1 the last one is the value
/// (unknown fields in between are ignored), for `decode` of the concatenation and for
/// `decode` + `merge` alike.
fn wrapper_merge<M: Message + Default + PartialEq + std::fmt::Debug>(name: &str, sk: Sk, vals: &[DV], junk: bool) -> PResult {
    let rec_of = |v: &DV| {
        let mut o = vec![];
        put_key(&mut o, 1, sk.wire());
        o.extend_from_slice(&key_bytes(sk, v));
        o
    };
    let parts: Vec<Vec<u8>> = vals.iter().map(rec_of).collect();
    let mut all = vec![];
    for (i, p) in parts.iter().enumerate() {
        all.extend_from_slice(p);
        if junk && i + 1 < parts.len() {
            all.extend_from_slice(&[0x10, 0x05, 0x1a, 0x01, 0x61]); // unknown fields 2 (varint) and 3 (bytes)
        }
    }
    let want = M::decode(Bytes::copy_from_slice(parts.last().unwrap())).map_err(|e| Fail::new("pb-wrapper-merge-error", format!("{}: decoding one occurrence failed: {:?}", name, e)))?;
    let show = || format!("wrapper {} occurrences {:?} bytes {}", name, vals, vcore::tval::hex(&all));
    let concat = catch(|| M::decode(Bytes::copy_from_slice(&all))).map_err(|p| Fail::new(&format!("panic:pb-wrapper-merge:{}", vrt::total::panic_signature(&p)), format!("{}\n {}", p, show())))?;
    let concat = concat.map_err(|e| Fail::new("pb-wrapper-merge-error", format!("decode of the concatenation failed: {:?}\n {}", e, show())))?;
    ensure!(concat == want || concat.encode_to_vec() == want.encode_to_vec(), "pb-wrapper-last-wins", "the last occurrence is not the value: got {:?}, expected {:?}\n {}", concat, want, show());
    let mut m = M::decode(Bytes::copy_from_slice(&parts[0])).map_err(|e| Fail::new("pb-wrapper-merge-error", format!("{:?}\n {}", e, show())))?;
    for p in &parts[1..] {
        m.merge(Bytes::copy_from_slice(p)).map_err(|e| Fail::new("pb-wrapper-merge-error", format!("merge failed: {:?}\n {}", e, show())))?;
    }
    ensure!(m == want || m.encode_to_vec() == want.encode_to_vec(), "pb-wrapper-last-wins", "decode + merge: the last occurrence is not the value: got {:?}, expected {:?}\n {}", m, want, show());
    Ok(())
}

pub fn check_wrapper_merge(c: &(u8, Vec<DV>, bool)) -> PResult {
    let (which, vals, junk) = c;
    match which % 11 {
        0 => wrapper_merge::<bool>("bool", Sk::Bool, vals, *junk),
        1 => wrapper_merge::<u32>("u32", Sk::Uint32, vals, *junk),
        2 => wrapper_merge::<u64>("u64", Sk::Uint64, vals, *junk),
        3 => wrapper_merge::<i32>("i32", Sk::Int32, vals, *junk),
        4 => wrapper_merge::<i64>("i64", Sk::Int64, vals, *junk),
        5 => wrapper_merge::<f32>("f32", Sk::Float, vals, *junk),
        6 => wrapper_merge::<f64>("f64", Sk::Double, vals, *junk),
        7 => wrapper_merge::<String>("String", Sk::Str, vals, *junk),
        8 => wrapper_merge::<Vec<u8>>("Vec<u8>", Sk::BytesVec, vals, *junk),
        9 => wrapper_merge::<Bytes>("Bytes", Sk::Bytes, vals, *junk),
        _ => Ok(()),
    }
}

fn wrapper_kind(which: u8) -> Sk {
    [Sk::Bool, Sk::Uint32, Sk::Uint64, Sk::Int32, Sk::Int64, Sk::Float, Sk::Double, Sk::Str, Sk::BytesVec, Sk::Bytes, Sk::Bool][which as usize % 11]
}

pub fn c18_wrapper_part(ctx: &Ctx, rec: &std::cell::RefCell<vcore::evidence::Recorder>) {
    let strat = (0u8..10).prop_flat_map(|w| (Just(w), prop::collection::vec(arb_sc(wrapper_kind(w)), 2..4), any::<bool>()));
    let res = vcore::evidence::run_prop_noshrink(rec, "c18-wrappers", ctx.tier.pick(10_000, 300_000), strat, |c: &(u8, Vec<DV>, bool)| {
        {
            let mut r = rec.borrow_mut();
            r.case(fp(&format!("{:?}", c)), true, || json!(format!("{:?}", c)));
            r.class("runtime: wrapper message, several occurrences");
        }
        check_wrapper_merge(c)
    });
    if let Some((c, f)) = res {
        report(ctx, rec, "pb-wrapper-merge", &json!({"which": c.0, "vals": c.1, "junk": c.2}), &f);
    }
}

pub fn c18_replay(ctx: &Ctx) -> i32 {
    if ctx.replay.as_ref().map(|rp| rp["sub"].as_str() == Some("pb-wrapper-merge")).unwrap_or(false) {
        let rp = ctx.replay.as_ref().unwrap();
        let c = &rp["case"]["case"];
        let case: (u8, Vec<DV>, bool) = (c["which"].as_u64().unwrap_or(0) as u8, serde_json::from_value(c["vals"].clone()).expect("vals"), c["junk"].as_bool().unwrap_or(false));
        return match check_wrapper_merge(&case) {
            Ok(()) => {
                println!("replay: property holds on this case");
                0
            }
            Err(f) => {
                println!("VIOLATION property=C18 replay={}", ctx.replay_path.clone().unwrap_or_default());
                println!("  key={} {}", f.key, f.msg);
                1
            }
        };
    }
    let rp = ctx.replay.as_ref().unwrap();
    match check_merge(&serde_json::from_value(rp["case"]["case"].clone()).expect("replay case")) {
        Ok(()) => {
            println!("replay: property holds on this case");
            0
        }
        Err(f) => {
            println!("VIOLATION property=C18 replay={}", ctx.replay_path.clone().unwrap_or_default());
            println!("  key={} {}", f.key, f.msg);
            1
        }
    }
}

//! Generated-code pipeline (engine E3): corpus -> IDL files -> pilota-build (child process per
//! unit) -> per-unit type-check -> composition `all.rs` + driver table -> `gent` binary.
use crate::Ctx;
use std::collections::{BTreeMap, BTreeSet};
use std::path::{Path, PathBuf};
use std::process::Command;
use vcore::corpus::{thrift_corpus, Corpus, Unit};
use vcore::evidence::verif_root;
use vcore::tschema::{SDoc, Shape};

pub struct Prepared {
    pub gent: PathBuf,
    pub corpus: Corpus,
    /// unit key -> reason
    pub excluded: BTreeMap<String, String>,
    pub units_ok: Vec<String>,
}

pub fn work_dir() -> PathBuf {
    verif_root().join("work")
}

fn hash_str(s: &str) -> u64 {
    use std::hash::{Hash, Hasher};
    let mut h = std::collections::hash_map::DefaultHasher::new();
    s.hash(&mut h);
    h.finish()
}

fn file_sig(p: &Path) -> String {
    match std::fs::metadata(p) {
        Ok(m) => format!("{}:{:?}", m.len(), m.modified().ok()),
        Err(_) => "missing".into(),
    }
}

pub fn write_if_changed(p: &Path, content: &str) -> bool {
    if std::fs::read_to_string(p).map(|c| c == content).unwrap_or(false) {
        return false;
    }
    if let Some(d) = p.parent() {
        let _ = std::fs::create_dir_all(d);
    }
    std::fs::write(p, content).expect("write file");
    true
}

pub fn target_dir() -> PathBuf {
    verif_root().join("target").join("debug")
}

pub fn vbuild_exe() -> PathBuf {
    target_dir().join("vbuild")
}

/// Newest libpilota rlib in the harness target directory (built as a dependency of vcheck).
pub fn pilota_rlib() -> Option<PathBuf> {
    let deps = target_dir().join("deps");
    let mut best: Option<(std::time::SystemTime, PathBuf)> = None;
    for e in std::fs::read_dir(&deps).ok()? {
        let e = e.ok()?;
        let n = e.file_name().to_string_lossy().to_string();
        if n.starts_with("libpilota-") && n.ends_with(".rlib") {
            let t = e.metadata().ok()?.modified().ok()?;
            if best.as_ref().map(|(bt, _)| t > *bt).unwrap_or(true) {
                best = Some((t, e.path()));
            }
        }
    }
    best.map(|(_, p)| p)
}

#[derive(Debug, Clone)]
pub struct BuildOutcome {
    pub ok: bool,
    pub status: String,
    pub stdout: String,
    pub stderr: String,
    pub wall_ms: u128,
}

/// Runs pilota-build in a child process. `args` as for `vbuild`.
pub fn run_vbuild(args: &[String], threads: Option<usize>, timeout_s: u64) -> BuildOutcome {
    let start = std::time::Instant::now();
    let mut cmd = Command::new(vbuild_exe());
    cmd.args(args).env("CARGO_NET_OFFLINE", "true").stdout(std::process::Stdio::piped()).stderr(std::process::Stdio::piped());
    if let Some(t) = threads {
        cmd.env("RAYON_NUM_THREADS", t.to_string());
    }
    let child = cmd.spawn();
    let mut child = match child {
        Ok(c) => c,
        Err(e) => return BuildOutcome { ok: false, status: format!("spawn failed: {}", e), stdout: String::new(), stderr: String::new(), wall_ms: 0 },
    };
    // watchdog
    let deadline = start + std::time::Duration::from_secs(timeout_s);
    loop {
        match child.try_wait() {
            Ok(Some(_)) => break,
            Ok(None) => {
                if std::time::Instant::now() > deadline {
                    let _ = child.kill();
                    let _ = child.wait();
                    return BuildOutcome { ok: false, status: format!("timeout after {} s", timeout_s), stdout: String::new(), stderr: String::new(), wall_ms: start.elapsed().as_millis() };
                }
                std::thread::sleep(std::time::Duration::from_millis(5));
            }
            Err(e) => return BuildOutcome { ok: false, status: format!("wait failed: {}", e), stdout: String::new(), stderr: String::new(), wall_ms: 0 },
        }
    }
    let out = child.wait_with_output().expect("output");
    let stdout = String::from_utf8_lossy(&out.stdout).to_string();
    let stderr = String::from_utf8_lossy(&out.stderr).to_string();
    let ok = out.status.success() && stdout.contains("VBUILD-OK");
    BuildOutcome { ok, status: format!("{:?}", out.status), stdout, stderr, wall_ms: start.elapsed().as_millis() }
}

/// Type-checks one generated file on its own (`rustc --emit=metadata`).
pub fn typecheck(file: &Path, out_dir: &Path, edition: &str) -> Result<(), String> {
    let rlib = pilota_rlib().ok_or("libpilota rlib not found in the harness target directory")?;
    let _ = std::fs::create_dir_all(out_dir);
    let wrapper = out_dir.join(format!("{}_wrap.rs", file.file_stem().unwrap().to_string_lossy()));
    std::fs::write(&wrapper, format!("#![allow(warnings)]\ninclude!({:?});\n", file.to_string_lossy())).map_err(|e| e.to_string())?;
    let o = Command::new("rustc")
        .args(["--edition", edition, "--crate-type", "lib", "--emit=metadata", "--cap-lints", "allow", "-C", "debuginfo=0"])
        .arg("-L")
        .arg(format!("dependency={}", target_dir().join("deps").display()))
        .arg("--extern")
        .arg(format!("pilota={}", rlib.display()))
        .arg("--out-dir")
        .arg(out_dir)
        .arg(&wrapper)
        .output()
        .map_err(|e| format!("cannot run rustc: {}", e))?;
    if o.status.success() {
        Ok(())
    } else {
        let e = String::from_utf8_lossy(&o.stderr).to_string();
        Err(e)
    }
}

/// Paths (below the file's wrapper module) of all `impl ::pilota::thrift::Message for X`.
pub fn scan_message_impls(file: &Path) -> BTreeSet<String> {
    fn expand(file: &Path, depth: usize) -> Vec<String> {
        let text = std::fs::read_to_string(file).unwrap_or_default();
        let mut out = vec![];
        for line in text.lines() {
            let t = line.trim();
            if depth < 8 && t.starts_with("include!(\"") && t.ends_with("\");") {
                let rel = &t[10..t.len() - 3];
                let p = file.parent().unwrap().join(rel);
                let indent = line.len() - line.trim_start().len();
                for l in expand(&p, depth + 1) {
                    out.push(format!("{}{}", " ".repeat(indent), l));
                }
            } else {
                out.push(line.to_string());
            }
        }
        out
    }
    let lines = expand(file, 0);
    let mut stack: Vec<(usize, String)> = vec![];
    let mut found = BTreeSet::new();
    for line in &lines {
        let indent = line.len() - line.trim_start().len();
        let t = line.trim();
        if let Some(rest) = t.strip_prefix("pub mod ") {
            if let Some(name) = rest.strip_suffix(" {") {
                stack.push((indent, name.to_string()));
                continue;
            }
        }
        if t == "}" {
            if let Some((i, _)) = stack.last() {
                if *i == indent {
                    stack.pop();
                }
            }
            continue;
        }
        if let Some(rest) = t.strip_prefix("impl ::pilota::thrift::Message for ") {
            let name = rest.trim_end_matches('{').trim();
            let mut p: Vec<String> = stack.iter().skip(1).map(|(_, n)| n.trim_start_matches("r#").to_string()).collect();
            p.push(name.to_string());
            found.insert(p.join("::"));
        }
    }
    found
}

pub fn predicted_paths(doc: &SDoc) -> Vec<(String, bool)> {
    doc.msg_types()
        .iter()
        .map(|m| {
            let mut p = doc.module_path(m.file);
            p.push(m.rust_name.clone());
            (p.join("::"), matches!(m.shape, Shape::Struct(_)))
        })
        .collect()
}

pub fn unit_args(dir: &Path, unit: &Unit, corpus: &Corpus, out: &Path) -> Vec<String> {
    let d = &corpus.docs[unit.doc];
    let idl_dir = dir.join("idl").join(&d.key);
    let main = idl_dir.join(format!("{}.thrift", d.doc.files[0].stem));
    let mut args = vec!["thrift".to_string(), out.to_string_lossy().to_string(), main.to_string_lossy().to_string(), "--include-dir".into(), idl_dir.to_string_lossy().to_string()];
    if unit.cfg.split {
        args.push("--split".into());
    }
    if unit.cfg.keep_unknown {
        // retention is asked for the main file: it extends to everything that file includes,
        // directly or through other files
        args.push("--keep-unknown".into());
        args.push(main.to_string_lossy().to_string());
    }
    args
}

pub fn prepare_thrift(ctx: &Ctx) -> Result<Prepared, String> {
    let corpus = thrift_corpus(ctx.seed, ctx.tier);
    let dir = work_dir().join("gen_thrift");
    let _ = std::fs::create_dir_all(dir.join("out"));
    // 1. IDL files
    for d in &corpus.docs {
        for (name, text) in d.doc.print_files() {
            write_if_changed(&dir.join("idl").join(&d.key).join(name), &text);
        }
    }
    // 2./3. build + type-check every unit (parallel), with a cache keyed by inputs
    let cache_path = dir.join("cache.json");
    let cache: BTreeMap<String, (String, Option<String>)> = std::fs::read_to_string(&cache_path).ok().and_then(|t| serde_json::from_str(&t).ok()).unwrap_or_default();
    let vb_sig = file_sig(&vbuild_exe());
    let rlib_sig = pilota_rlib().map(|p| file_sig(&p)).unwrap_or_default();
    let results: std::sync::Mutex<BTreeMap<String, (String, Option<String>)>> = Default::default();
    let units: Vec<&Unit> = corpus.units.iter().collect();
    let next = std::sync::atomic::AtomicUsize::new(0);
    std::thread::scope(|s| {
        for _ in 0..16 {
            s.spawn(|| loop {
                let i = next.fetch_add(1, std::sync::atomic::Ordering::SeqCst);
                if i >= units.len() {
                    break;
                }
                let u = units[i];
                let key = u.key(&corpus.docs);
                // one directory per unit: split mode writes module directories next to the file
                let out = dir.join("out").join(&key).join(format!("{}.rs", key));
                let _ = std::fs::create_dir_all(out.parent().unwrap());
                let idl_text: String = corpus.docs[u.doc].doc.print_files().into_iter().map(|(n, t)| format!("{}\n{}\n", n, t)).collect();
                let sig = format!("{:x}|{}|{}|{}", hash_str(&idl_text), vb_sig, rlib_sig, file_sig(&out));
                if let Some((s0, r)) = cache.get(&key) {
                    if *s0 == sig && out.exists() {
                        results.lock().unwrap().insert(key, (sig, r.clone()));
                        continue;
                    }
                }
                let args = unit_args(&dir, u, &corpus, &out);
                let b = run_vbuild(&args, None, 120);
                let reason = if !b.ok {
                    Some(format!("pilota-build failed ({}): {}", b.status, vcore::evidence::truncate(&b.stderr, 600)))
                } else {
                    match typecheck(&out, &dir.join("tc"), "2021") {
                        Ok(()) => None,
                        Err(e) => Some(format!("generated code does not type-check: {}", vcore::evidence::truncate(&e, 900))),
                    }
                };
                let sig = format!("{:x}|{}|{}|{}", hash_str(&idl_text), vb_sig, rlib_sig, file_sig(&out));
                results.lock().unwrap().insert(key, (sig, reason));
            });
        }
    });
    let results = results.into_inner().unwrap();
    let _ = std::fs::write(&cache_path, serde_json::to_string(&results).unwrap());
    let mut excluded = BTreeMap::new();
    let mut units_ok = vec![];
    // 4. composition + driver table
    let mut all = String::from("// generated by vcheck (genpipe); do not edit\n");
    let mut entries = String::new();
    let mut mismatches = vec![];
    for u in &corpus.units {
        let key = u.key(&corpus.docs);
        if let Some((_, Some(reason))) = results.get(&key) {
            excluded.insert(key, reason.clone());
            continue;
        }
        let out = dir.join("out").join(&key).join(format!("{}.rs", key));
        let found = scan_message_impls(&out);
        let doc = &corpus.docs[u.doc].doc;
        let predicted = predicted_paths(doc);
        let pset: BTreeSet<String> = predicted.iter().map(|(p, _)| p.clone()).collect();
        for p in &pset {
            if !found.contains(p) {
                mismatches.push(format!("{}: predicted type {} has no Message impl in the output", key, p));
            }
        }
        for p in &found {
            if !pset.contains(p) {
                mismatches.push(format!("{}: output has a Message impl for {} that the model does not predict", key, p));
            }
        }
        all.push_str(&format!("include!({:?});\n", out.to_string_lossy()));
        for (p, is_struct) in &predicted {
            if found.contains(p) {
                let ctor = if *is_struct { "entry_default" } else { "entry" };
                entries.push_str(&format!("        vrt::gen::{}::<{}::{}>({:?}, {:?}),\n", ctor, key, p, key, p));
            }
        }
        units_ok.push(key);
    }
    if !mismatches.is_empty() {
        return Err(format!("model / output disagreement on the set of generated types (harness error):\n{}", mismatches.join("\n")));
    }
    all.push_str("pub fn table() -> Vec<vrt::gen::Entry> {\n    vec![\n");
    all.push_str(&entries);
    all.push_str("    ]\n}\n");
    write_if_changed(&dir.join("all.rs"), &all);
    // 5. build gent
    let log = work_dir().join("build-gent.log");
    let o = Command::new("cargo")
        .args(["build", "--offline", "-p", "gent"])
        .current_dir(verif_root().join("harness"))
        .env("CARGO_NET_OFFLINE", "true")
        .env("VERIF_GEN_DIR", &dir)
        .output()
        .map_err(|e| format!("cannot run cargo: {}", e))?;
    let _ = std::fs::write(&log, [o.stdout.clone(), o.stderr.clone()].concat());
    if !o.status.success() {
        let e = String::from_utf8_lossy(&o.stderr);
        let errs: Vec<&str> = e.lines().filter(|l| l.starts_with("error") || l.contains("-->")).take(40).collect();
        return Err(format!("building the generated-code test binary failed (see {}):\n{}", log.display(), errs.join("\n")));
    }
    Ok(Prepared { gent: target_dir().join("gent"), corpus, excluded, units_ok })
}

/// Runs the generated-type part of a check whose runtime part lives in vcheck: the sub-process
/// writes partial evidence, which is merged into `rec`. Returns the sub-process's exit code.
pub fn merge_gen_part(ctx: &Ctx, rec: &std::cell::RefCell<vcore::evidence::Recorder>, id: &str) -> i32 {
    if ctx.replay.is_some() {
        return 0;
    }
    let part = vcore::evidence::Recorder::partial_path(id);
    let _ = std::fs::remove_file(&part);
    std::env::set_var("VERIF_PARTIAL", "1");
    let code = run_gent_check(ctx, id);
    std::env::remove_var("VERIF_PARTIAL");
    if let Some(v) = std::fs::read_to_string(&part).ok().and_then(|t| serde_json::from_str::<serde_json::Value>(&t).ok()) {
        rec.borrow_mut().merge_partial(&v);
    } else if code != 2 {
        eprintln!("INFRA: generated-type part of {} left no evidence", id);
        return 2;
    }
    code
}

/// Combines the exit code of the runtime part with that of the generated-type part.
pub fn combine(own: i32, gen: i32) -> i32 {
    if own == 1 || gen == 1 {
        1
    } else if own == 2 || gen == 2 {
        2
    } else {
        0
    }
}

/// Builds the pipeline and runs the value-level check `id` inside the generated-code binary.
pub fn run_gent_check(ctx: &Ctx, id: &str) -> i32 {
    let p = match prepare_thrift(ctx) {
        Ok(p) => p,
        Err(e) => {
            eprintln!("INFRA: {}", e);
            return 2;
        }
    };
    for (k, r) in &p.excluded {
        eprintln!("note: unit {} excluded from value-level checks: {}", k, vcore::evidence::truncate(r, 300));
    }
    // journaled-worker protocol: a worker that is killed is restarted behind the case that
    // killed it; deaths inside an open known-finding class are counted, anything else is a violation
    let journal = work_dir().join(format!("journal-{}.json", id));
    let mut skip: u64 = 0;
    let mut carry = serde_json::json!({"evaluations": 0u64, "distinct_nontrivial": 0u64, "known": {}, "classes": {}});
    for _restart in 0..200 {
        let _ = std::fs::remove_file(&journal);
        let mut cmd = Command::new(&p.gent);
        cmd.arg(id).arg("--tier").arg(ctx.tier.name());
        if let Some(rp) = &ctx.replay_path {
            cmd.arg("--replay").arg(rp);
        }
        cmd.env("VERIF_SEED", (ctx.seed as i64).to_string()).env("VERIF_ROOT", verif_root());
        cmd.env("VERIF_SKIP", skip.to_string()).env("VERIF_CARRY", carry.to_string());
        cmd.stderr(std::process::Stdio::piped());
        let out = match cmd.spawn().and_then(|c| c.wait_with_output()) {
            Ok(o) => o,
            Err(e) => {
                eprintln!("INFRA: cannot run {}: {}", p.gent.display(), e);
                return 2;
            }
        };
        let stderr = String::from_utf8_lossy(&out.stderr).to_string();
        for l in stderr.lines().filter(|l| !l.starts_with("proptest: Aborting shrinking")) {
            eprintln!("{}", l);
        }
        if let Some(c) = out.status.code() {
            return c;
        }
        let j: Option<serde_json::Value> = std::fs::read_to_string(&journal).ok().and_then(|t| serde_json::from_str(&t).ok());
        let Some(j) = j else {
            eprintln!("INFRA: generated-code binary died without a journaled case: {:?}", out.status);
            return 2;
        };
        let is_async = j["case"]["case"]["sched"].as_str() != Some("Sync");
        let alloc_failure = stderr.contains("memory allocation of");
        if is_async && alloc_failure && ctx.findings.is_open("C09", "async-count-prealloc") {
            // known finding: async generated decoders allocate the wire count up front
            // the finding is C09's: only C09 prints it as KNOWN-FINDING, the other checks count
            // the death as a restart (the restarted worker records the cases it skips again, so
            // evaluation counts are not carried)
            if id == "C09" {
                let n = carry["known"]["async-count-prealloc"].as_u64().unwrap_or(0) + 1;
                carry["known"]["async-count-prealloc"] = serde_json::json!(n);
            }
            let c = carry["classes"]["worker restarted behind a death of known finding async-count-prealloc (C09)"].as_u64().unwrap_or(0) + 1;
            carry["classes"]["worker restarted behind a death of known finding async-count-prealloc (C09)"] = serde_json::json!(c);
            skip = j["index"].as_u64().unwrap_or(skip + 1);
            continue;
        }
        let rec = std::cell::RefCell::new(vcore::evidence::Recorder::new(id, ctx.tier, ctx.seed));
        {
            let mut r = rec.borrow_mut();
            r.rule = "the generated-code test binary was killed; evidence reconstructed from its journal".into();
            r.evaluations += j["evaluations"].as_u64().unwrap_or(0) + 1;
            r.extra_nontrivial += j["distinct_nontrivial"].as_u64().unwrap_or(0).max(2);
            r.case(1, true, || j["case"].clone());
            r.violation(
                j["case"]["sub"].as_str().unwrap_or("generated"),
                format!("key=process-died the process running generated code was killed ({:?}; {}) while executing the journaled case", out.status, stderr.lines().last().unwrap_or("")),
                j["case"].clone(),
            );
        }
        if std::env::var("VERIF_PARTIAL").is_ok() {
            // the caller merges partial evidence; make sure it exists
        }
        let code = rec.borrow().finish(&ctx.findings);
        return code;
    }
    eprintln!("INFRA: generated-code binary was restarted 200 times");
    2
}


// ---------------------------------------------------------------------------------------------
// protobuf pipeline

pub struct PreparedProto {
    pub excluded: BTreeMap<String, String>,
}

pub fn prepare_proto(ctx: &Ctx, bins: &[&str]) -> Result<PreparedProto, String> {
    let corpus = vcore::corpus::proto_corpus(ctx.seed, ctx.tier);
    let dir = work_dir().join("gen_proto");
    let _ = std::fs::create_dir_all(dir.join("out"));
    for d in &corpus.docs {
        for (name, text) in d.doc.print_files() {
            write_if_changed(&dir.join("idl").join(&d.key).join(name), &text);
        }
    }
    let cache_path = dir.join("cache.json");
    let cache: BTreeMap<String, (String, Option<String>)> = std::fs::read_to_string(&cache_path).ok().and_then(|t| serde_json::from_str(&t).ok()).unwrap_or_default();
    let vb_sig = file_sig(&vbuild_exe());
    let rlib_sig = pilota_rlib().map(|p| file_sig(&p)).unwrap_or_default();
    let results: std::sync::Mutex<BTreeMap<String, (String, Option<String>)>> = Default::default();
    let next = std::sync::atomic::AtomicUsize::new(0);
    std::thread::scope(|s| {
        for _ in 0..16 {
            s.spawn(|| loop {
                let i = next.fetch_add(1, std::sync::atomic::Ordering::SeqCst);
                if i >= corpus.docs.len() {
                    break;
                }
                let d = &corpus.docs[i];
                let out = dir.join("out").join(format!("{}.rs", d.key));
                let idl_text: String = d.doc.print_files().into_iter().map(|(n, t)| format!("{}\n{}\n", n, t)).collect();
                let sig = format!("{:x}|{}|{}|{}", hash_str(&idl_text), vb_sig, rlib_sig, file_sig(&out));
                if let Some((s0, r)) = cache.get(&d.key) {
                    if *s0 == sig && out.exists() {
                        results.lock().unwrap().insert(d.key.clone(), (sig, r.clone()));
                        continue;
                    }
                }
                let idl_dir = dir.join("idl").join(&d.key);
                let main = idl_dir.join(format!("{}.proto", d.doc.files[0].stem));
                let args: Vec<String> = vec!["proto".into(), out.to_string_lossy().into(), main.to_string_lossy().into(), "--include-dir".into(), idl_dir.to_string_lossy().into()];
                let b = run_vbuild(&args, None, 120);
                let reason = if !b.ok {
                    Some(format!("pilota-build failed ({}): {}", b.status, vcore::evidence::truncate(&b.stderr, 600)))
                } else {
                    match typecheck(&out, &dir.join("tc"), "2021") {
                        Ok(()) => None,
                        Err(e) => Some(format!("generated code does not type-check: {}", vcore::evidence::truncate(&e, 900))),
                    }
                };
                let sig = format!("{:x}|{}|{}|{}", hash_str(&idl_text), vb_sig, rlib_sig, file_sig(&out));
                results.lock().unwrap().insert(d.key.clone(), (sig, reason));
            });
        }
    });
    let results = results.into_inner().unwrap();
    let _ = std::fs::write(&cache_path, serde_json::to_string(&results).unwrap());
    let mut excluded = BTreeMap::new();
    let mut all = String::from("// generated by vcheck (genpipe); do not edit\n");
    let mut entries = String::new();
    let mut mismatches = vec![];
    for d in &corpus.docs {
        if let Some((_, Some(reason))) = results.get(&d.key) {
            excluded.insert(d.key.clone(), reason.clone());
            continue;
        }
        let out = dir.join("out").join(format!("{}.rs", d.key));
        let text = std::fs::read_to_string(&out).unwrap_or_default().replace("impl ::pilota::prost::Message for ", "impl ::pilota::thrift::Message for ");
        let tmp = dir.join("tc").join(format!("{}-scan.rs", d.key));
        let _ = std::fs::create_dir_all(tmp.parent().unwrap());
        let _ = std::fs::write(&tmp, text);
        let found = scan_message_impls(&tmp);
        let predicted: Vec<String> = d.doc.all_messages().iter().map(|r| d.doc.rust_path(r)).collect();
        for p in &predicted {
            if !found.contains(p) {
                mismatches.push(format!("{}: predicted message {} has no Message impl in the output (found: {:?})", d.key, p, found));
            }
        }
        all.push_str(&format!("include!({:?});\n", out.to_string_lossy()));
        for p in &predicted {
            if found.contains(p) {
                entries.push_str(&format!("        vrt::pgen::pentry::<{}::{}>({:?}, {:?}),\n", d.key, p, d.key, p));
            }
        }
    }
    if !mismatches.is_empty() {
        return Err(format!("model / output disagreement on the set of generated messages (harness error):\n{}", mismatches.join("\n")));
    }
    all.push_str("pub fn ptable() -> Vec<vrt::pgen::PEntry> {\n    vec![\n");
    all.push_str(&entries);
    all.push_str("    ]\n}\n");
    write_if_changed(&dir.join("all.rs"), &all);
    for bin in bins {
        let log = work_dir().join(format!("build-{}.log", bin));
        let o = Command::new("cargo")
            .args(["build", "--offline", "-p", bin])
            .current_dir(verif_root().join("harness"))
            .env("CARGO_NET_OFFLINE", "true")
            .env("VERIF_PGEN_DIR", &dir)
            .output()
            .map_err(|e| format!("cannot run cargo: {}", e))?;
        let _ = std::fs::write(&log, [o.stdout.clone(), o.stderr.clone()].concat());
        if !o.status.success() {
            let e = String::from_utf8_lossy(&o.stderr);
            let errs: Vec<&str> = e.lines().filter(|l| l.starts_with("error") || l.contains("-->")).take(40).collect();
            return Err(format!("building {} failed (see {}):\n{}", bin, log.display(), errs.join("\n")));
        }
    }
    Ok(PreparedProto { excluded })
}

/// Runs check `id` in each of the given generated-code binaries ("gent", "gentp", "gentpd") in
/// partial-evidence mode and merges everything into one evidence file.
pub fn run_multi(ctx: &Ctx, id: &str, bins: &[&str]) -> i32 {
    // replays go to the binary that produced them
    if let Some(rp) = &ctx.replay {
        let sub = rp["sub"].as_str().unwrap_or("");
        if sub == "pb-runtime" {
            return crate::c05::replay(ctx);
        }
        if sub == "pb-runtime-merge" || sub == "pb-wrapper-merge" {
            return crate::c05::c18_replay(ctx);
        }
        if sub == "pb-runtime-chain" || sub == "pb-runtime-fault" || sub == "pb-wrapper" {
            return crate::c05::c10_replay(ctx);
        }
        let bin = if sub.starts_with("proto") { bins.iter().find(|b| b.starts_with("gentp")).copied().unwrap_or("gentp") } else { "gent" };
        return run_bin(ctx, id, bin, false);
    }
    let rec = std::cell::RefCell::new(vcore::evidence::Recorder::new(id, ctx.tier, ctx.seed));
    rec.borrow_mut().level = if ["C09", "C10", "C19"].contains(&id) { "fault_enumeration" } else { "exploration" };
    let mut code = 0;
    if id == "C05" {
        // the field codec modules themselves, over run-time described messages
        vcore::evidence::quiet_panics();
        crate::c05::runtime_part(ctx, &rec);
        rec.borrow_mut().rule = format!(" || {}", crate::c05::RULE);
        if rec.borrow().violations.is_empty() {
            if let Some(c) = crate::common::require_classes(&rec, &crate::c05::REQUIRED) {
                code = combine(code, c);
            }
        }
    }
    if id == "C18" {
        vcore::evidence::quiet_panics();
        crate::c05::c18_runtime_part(ctx, &rec);
        rec.borrow_mut().rule = format!(" || {}", crate::c05::C18_RULE);
        if rec.borrow().violations.is_empty() {
            if let Some(c) = crate::common::require_classes(&rec, &["runtime: merge with a group", "runtime: merge with a map", "runtime: field numbers >= 16 congruent mod 16"]) {
                code = combine(code, c);
            }
        }
    }
    if id == "C10" {
        vcore::evidence::quiet_panics();
        crate::c05::c10_runtime_part(ctx, &rec);
        rec.borrow_mut().rule = format!(" || {}", crate::c05::C10_RULE);
        if rec.borrow().violations.is_empty() {
            if let Some(c) = crate::common::require_classes(&rec, &["runtime: chain of known groups / messages", "runtime: faulted message with a group", "runtime: faulted message with a map", "runtime: wrapper messages"]) {
                code = combine(code, c);
            }
        }
    }
    for bin in bins {
        let part = vcore::evidence::Recorder::partial_path(id);
        let _ = std::fs::remove_file(&part);
        let c = run_bin(ctx, id, bin, true);
        if let Some(v) = std::fs::read_to_string(&part).ok().and_then(|t| serde_json::from_str::<serde_json::Value>(&t).ok()) {
            rec.borrow_mut().merge_partial(&v);
            rec.borrow_mut().class(&format!("part run in {}", bin));
        } else if c != 2 {
            eprintln!("INFRA: {} left no evidence for {}", bin, id);
            code = combine(code, 2);
            continue;
        }
        code = combine(code, c);
    }
    if rec.borrow().rule.starts_with(" || ") {
        let r = rec.borrow().rule[4..].to_string();
        rec.borrow_mut().rule = r;
    }
    let own = rec.borrow().finish(&ctx.findings);
    combine(own, code)
}

fn run_bin(ctx: &Ctx, id: &str, bin: &str, partial: bool) -> i32 {
    if partial {
        std::env::set_var("VERIF_PARTIAL", "1");
    }
    let code = if bin == "gent" {
        run_gent_check(ctx, id)
    } else {
        match prepare_proto(ctx, &[bin]) {
            Err(e) => {
                eprintln!("INFRA: {}", e);
                2
            }
            Ok(p) => {
                for (k, r) in &p.excluded {
                    eprintln!("note: protobuf document {} excluded from value-level checks: {}", k, vcore::evidence::truncate(r, 300));
                }
                let mut cmd = Command::new(target_dir().join(bin));
                cmd.arg(id).arg("--tier").arg(ctx.tier.name());
                if let Some(rp) = &ctx.replay_path {
                    cmd.arg("--replay").arg(rp);
                }
                cmd.env("VERIF_SEED", (ctx.seed as i64).to_string()).env("VERIF_ROOT", verif_root());
                match cmd.status() {
                    Ok(s) => s.code().unwrap_or_else(|| {
                        eprintln!("INFRA: {} died: {:?}", bin, s);
                        2
                    }),
                    Err(e) => {
                        eprintln!("INFRA: cannot run {}: {}", bin, e);
                        2
                    }
                }
            }
        }
    };
    if partial {
        std::env::remove_var("VERIF_PARTIAL");
    }
    code
}

//! C14 every IDL in the supported grammar generates Rust that compiles.
use crate::common::*;
use crate::genpipe::{run_vbuild, typecheck, work_dir, write_if_changed};
use crate::Ctx;
use serde::{Deserialize, Serialize};
use serde_json::json;
use vcore::corpus::sample;
use vcore::evidence::Fail;
use vcore::shrink::{minimize, Shrink};
use vcore::tgen::{arb_raw_doc, resolve, GenOpts, RawDoc};
use vcore::tschema::{DeclKind, SDoc};

#[derive(Clone, Copy, Debug, PartialEq, Eq, Hash, Serialize, Deserialize)]
pub struct BCfg {
    pub split: bool,
    pub keep: bool,
    pub change_case: bool,
    pub ignore_unused: bool,
}

impl BCfg {
    pub fn all() -> Vec<BCfg> {
        let mut v = vec![];
        for split in [false, true] {
            for keep in [false, true] {
                for change_case in [true, false] {
                    for ignore_unused in [false, true] {
                        v.push(BCfg { split, keep, change_case, ignore_unused });
                    }
                }
            }
        }
        v
    }
    pub fn tag(&self) -> String {
        format!("{}{}{}{}", if self.split { "s" } else { "f" }, if self.keep { "k" } else { "n" }, if self.change_case { "c" } else { "r" }, if self.ignore_unused { "i" } else { "a" })
    }
}

#[derive(Clone, Debug, Serialize, Deserialize, Hash)]
pub struct Case {
    pub raw: Option<RawDoc>,
    /// kitchen-sink document index when `raw` is None
    pub kitchen: Option<usize>,
    pub cfg: BCfg,
    /// protobuf document (generated / kitchen sink / side document) instead of a Thrift one
    #[serde(default)]
    pub proto: Option<vcore::pschema::RawPDoc>,
    #[serde(default)]
    pub pkitchen: Option<usize>,
    #[serde(default)]
    pub pside: Option<usize>,
    /// hand-shaped Thrift documents (text) for constructs the random grammar reaches too rarely
    #[serde(default)]
    pub ttext: Option<usize>,
}

/// Hand-shaped Thrift documents: (what it is about, files; the first file is the main one).
/// Type cycles closed through `pilota.rust_wrapper_arc` fields, one member of which holds a map:
/// several groups behind a varying number of unrelated items, so that the cycle is entered from
/// either side.
fn arc_cycle_text() -> String {
    let mut t = String::from("namespace rs demo.arcs\n");
    for g in 0..10 {
        for k in 0..(g % 4) {
            t.push_str(&format!("struct Pad{g}x{k} {{}}\n"));
        }
        if g % 2 == 0 {
            t.push_str(&format!("enum En{g} {{ A = 1, B = 2 }}\nunion Un{g} {{ 1: i32 only }}\n"));
        }
        t.push_str(&format!("struct A{g} {{ 1: optional B{g} b (pilota.rust_wrapper_arc=\"true\") }}\n"));
        t.push_str(&format!("struct H{g} {{ 1: optional i32 n, 2: optional map<i32, i32> m }}\n"));
        if g % 3 == 0 {
            t.push_str(&format!("struct Fill{g} {{}}\n"));
        }
        t.push_str(&format!("struct B{g} {{ 1: optional A{g} a (pilota.rust_wrapper_arc=\"true\"), 2: optional H{g} h (pilota.rust_wrapper_arc=\"true\") }}\n"));
        t.push_str(&format!("struct C{g} {{ 1: optional A{g} a, 2: list<B{g}> bs (pilota.rust_wrapper_arc=\"true\") }}\n"));
    }
    t
}

pub fn thrift_text_docs() -> Vec<(&'static str, Vec<(String, String)>)> {
    let f = |n: &str, t: &str| (n.to_string(), t.to_string());
    vec![
        ("type cycles closed through Arc-wrapped fields next to a member that cannot derive Hash / Ord", vec![f("arcs.thrift", &arc_cycle_text())]),
        (
            "constants of struct type whose members are all given (with and without unknown-field retention)",
            vec![f(
                "sconst.thrift",
                "namespace rs demo.sconst\nenum Mode { OFF = 0, ON = 1 }\nstruct Inner { 1: required i32 n, 2: required string s }\nstruct Conf { 1: required i32 port, 2: required string host, 3: required bool tls, 4: required Mode mode, 5: required double ratio, 6: required Inner inner, 7: optional i64 ttl }\nconst Inner INNER = {\"n\": 1, \"s\": \"x\"}\nconst Conf FULL = {\"port\": 80, \"host\": \"h\", \"tls\": true, \"mode\": Mode.ON, \"ratio\": 0.5, \"inner\": {\"n\": 2, \"s\": \"y\"}, \"ttl\": 9}\nconst Conf PART = {\"port\": 81, \"host\": \"g\", \"tls\": false, \"mode\": 0, \"ratio\": 1, \"inner\": {\"n\": 3, \"s\": \"z\"}}\nstruct User { 1: Conf c = {\"port\": 1, \"host\": \"a\", \"tls\": true, \"mode\": 1, \"ratio\": 2.5, \"inner\": {\"n\": 4, \"s\": \"w\"}} }\n",
            )],
        ),
        (
            "types referenced from one position only (map key, map value, set element, list element, typedef target, throws, nested key) and reached through a service",
            vec![f(
                "reach.thrift",
                "namespace rs demo.reach\nenum OnlyKey { A = 1, B = 2 }\nenum OnlyKey2 { A = 1 }\nenum OnlyVal { A = 1 }\nenum OnlyElem { A = 1 }\nstruct KeyStruct { 1: i32 a }\nstruct ValStruct { 1: i32 a }\nstruct ElemStruct { 1: string s }\nstruct SetElem { 1: i64 x }\ntypedef i64 OnlyAlias\ntypedef OnlyAlias AliasKey\nexception Boom { 1: string why }\nstruct Unused { 1: i32 never }\nstruct Holder { 1: map<OnlyKey, i32> m1, 2: map<KeyStruct, string> m2, 3: map<i32, map<OnlyKey2, OnlyVal>> m3, 4: list<OnlyElem> l, 5: set<SetElem> st, 6: map<string, ValStruct> m4, 7: list<list<ElemStruct>> ll, 8: map<AliasKey, i32> m5, 9: optional map<OnlyKey, list<KeyStruct>> m6 (pilota.rust_type = \"btree\") }\nservice Reach { Holder get(1: i32 id) throws (1: Boom b) }\n",
            )],
        ),
        (
            "names that collide after case conversion in chains (a kept spelling equals the converted form of a third name)",
            vec![f(
                "chain.thrift",
                "namespace rs demo.chain\nunion U { 1: i32 id, 2: i32 ID, 3: i32 i_d }\nunion V { 1: i32 i_d, 2: string ID, 3: bool id, 4: i64 I_D }\nstruct ab {}\nstruct AB {}\nstruct a_b { 1: U u, 2: optional V v }\nenum ex { A = 1 }\nenum EX { A = 1 }\nenum e_x { A = 1 }\nstruct Holder { 1: ab x, 2: AB y, 3: a_b z, 4: ex e1, 5: EX e2, 6: e_x e3 }\n",
            )],
        ),
        (
            "type cycles through containers next to members that cannot derive Hash / Ord",
            vec![f(
                "cycles.thrift",
                "namespace rs demo.cycles\nstruct Branch { 1: required list<Tree> trees }\nstruct Tree { 1: optional Branch branch, 2: optional Weight weight }\nstruct Weight { 1: required double w }\nstruct RingA { 1: required list<RingB> next }\nstruct RingB { 1: required map<string, RingC> next }\nstruct RingC { 1: required list<RingA> next, 2: optional Weight weight }\nstruct Weight2 { 1: required map<string, double> m }\nstruct Tree2 { 1: optional Branch2 branch, 2: optional Weight2 weight }\nstruct Branch2 { 1: required list<Tree2> trees, 2: optional Leaf leaf }\nstruct Leaf { 1: optional Leaf2 l }\nstruct Leaf2 { 1: list<Leaf> ls }\nunion Pick { 1: Tree t, 2: RingA r, 3: Leaf l }\n",
            )],
        ),
        (
            "service names equal after case conversion, sharing method names, in a file with includes",
            vec![
                f("main.thrift", "namespace rs demo.svc\ninclude \"shared.thrift\"\ninclude \"more.thrift\"\nstruct Msg { 1: string text, 2: shared.Meta meta }\nservice EchoService { Msg echo(1: Msg m), void ping() }\nservice echo_service { Msg echo(1: Msg m, 2: more.Extra x), void ping() }\nservice ECHO_SERVICE extends shared.Base { Msg echo(1: Msg m) }\n"),
                f("shared.thrift", "namespace rs demo.shared\nstruct Meta { 1: i64 ts }\nservice Base { void ping() }\nservice base { void ping() }\n"),
                f("more.thrift", "namespace rs demo.more\ninclude \"shared.thrift\"\nstruct Extra { 1: shared.Meta meta }\n"),
            ],
        ),
        (
            "one file included over two routes, one of them through a subdirectory and '..'",
            vec![
                f("main.thrift", "namespace rs demo.dia\ninclude \"common.thrift\"\ninclude \"sub/mid.thrift\"\ninclude \"sub/deep/low.thrift\"\nstruct Top { 1: common.Shared s, 2: mid.Mid m, 3: low.Low l }\nservice Dia { common.Shared get(1: mid.Mid m) }\n"),
                f("common.thrift", "namespace rs demo.common\nstruct Shared { 1: i32 v }\nenum Kind { A = 1 }\nconst i32 LIMIT = 3\n"),
                f("sub/mid.thrift", "namespace rs demo.mid\ninclude \"../common.thrift\"\nstruct Mid { 1: common.Shared s, 2: common.Kind k }\n"),
                f("sub/deep/low.thrift", "namespace rs demo.low\ninclude \"../../common.thrift\"\ninclude \"../mid.thrift\"\nstruct Low { 1: common.Shared s, 2: mid.Mid m, 3: i32 n = common.LIMIT }\n"),
            ],
        ),
        (
            "doubles inside lists in set-element and map-key position",
            vec![f(
                "keys.thrift",
                "namespace rs demo.keys\ntypedef list<double> Row\ntypedef set<list<double>> Rows\nstruct Keys { 1: set<list<double>> a, 2: map<list<double>, string> b, 3: map<list<list<double>>, i32> c, 4: list<Row> d, 5: optional Rows e, 6: map<list<double>, list<double>> f, 7: list<set<list<double>>> g }\nunion KeyPick { 1: set<list<double>> a, 2: map<list<double>, double> b }\nservice KeySvc { set<list<double>> get(1: map<list<double>, i32> m) }\n",
            )],
        ),
    ]
}

impl Shrink for Case {
    fn candidates(&self) -> Vec<Case> {
        let mut out = vec![];
        let simple = BCfg { split: false, keep: false, change_case: true, ignore_unused: false };
        if self.cfg != simple {
            out.push(Case { cfg: simple, ..self.clone() });
            for (i, c) in [BCfg { split: false, ..self.cfg }, BCfg { keep: false, ..self.cfg }, BCfg { change_case: true, ..self.cfg }, BCfg { ignore_unused: false, ..self.cfg }].into_iter().enumerate() {
                let _ = i;
                if c != self.cfg {
                    out.push(Case { cfg: c, ..self.clone() });
                }
            }
        }
        if let Some(pr) = &self.proto {
            for c in pr.candidates() {
                out.push(Case { proto: Some(c), ..self.clone() });
            }
        }
        if let Some(r) = &self.raw {
            if r.opts.hostile_names {
                out.push(Case { raw: Some(RawDoc { opts: GenOpts { hostile_names: false, ..r.opts }, ..r.clone() }), ..self.clone() });
            }
            if r.opts.annotations {
                out.push(Case { raw: Some(RawDoc { opts: GenOpts { annotations: false, ..r.opts }, ..r.clone() }), ..self.clone() });
            }
            if r.opts.defaults {
                out.push(Case { raw: Some(RawDoc { opts: GenOpts { defaults: false, ..r.opts }, ..r.clone() }), ..self.clone() });
            }
            for c in r.candidates() {
                out.push(Case { raw: Some(c), ..self.clone() });
            }
        }
        out
    }
}

fn doc_of(c: &Case) -> SDoc {
    match (&c.raw, c.kitchen) {
        (Some(r), _) => resolve(r),
        (None, Some(k)) => vcore::kitchen::thrift_docs()[k].clone(),
        _ => panic!("empty case"),
    }
}

/// Stable signature of a builder / compiler failure.
fn signature(stage: &str, text: &str) -> String {
    let line = text
        .lines()
        .find(|l| l.starts_with("error") || l.contains("panicked at") || l.contains("Error"))
        .or_else(|| text.lines().find(|l| !l.trim().is_empty()))
        .unwrap_or("");
    let mut detail = line.to_string();
    if line.contains("panicked at") {
        // the message is on the next line
        if let Some(next) = text.lines().skip_while(|l| !l.contains("panicked at")).nth(1) {
            detail = next.to_string();
        }
    }
    format!("{}:{}", stage, vrt::total::panic_signature(&detail))
}

/// Side documents for the protobuf known findings: (finding key, document).
pub fn proto_side_docs() -> Vec<(&'static str, Vec<(String, String)>)> {
    vec![
        (
            "proto-recursive-oneof",
            vec![("side.proto".to_string(), "syntax = \"proto3\";\nmessage Node {\n  int32 v = 1;\n  oneof next {\n    Node child = 2;\n    string name = 3;\n  }\n}\n".to_string())],
        ),
        (
            "proto-import-without-package",
            vec![
                ("side.proto".to_string(), "syntax = \"proto3\";\nimport \"lib.proto\";\nmessage A {\n  Outer.Inner m = 1;\n}\n".to_string()),
                ("lib.proto".to_string(), "syntax = \"proto3\";\nmessage Outer {\n  message Inner {\n    int32 a = 1;\n  }\n}\n".to_string()),
            ],
        ),
    ]
}

fn run_text_case(c: &Case, files: Vec<(String, String)>, slot: &str) -> Result<(), Fail> {
    let dir = work_dir().join("c14").join(slot);
    let _ = std::fs::remove_dir_all(&dir);
    let idl = dir.join("idl");
    for (name, text) in &files {
        write_if_changed(&idl.join(name), text);
    }
    let out = dir.join("out").join("gen.rs");
    let _ = std::fs::create_dir_all(out.parent().unwrap());
    let main = idl.join(&files[0].0);
    let mut args: Vec<String> = vec!["thrift".into(), out.to_string_lossy().into(), main.to_string_lossy().into(), "--include-dir".into(), idl.to_string_lossy().into()];
    if c.cfg.split {
        args.push("--split".into());
    }
    if c.cfg.keep {
        for (n, _) in &files {
            args.push("--keep-unknown".into());
            args.push(idl.join(n).to_string_lossy().into());
        }
    }
    if !c.cfg.change_case {
        args.push("--no-change-case".into());
    }
    if c.cfg.ignore_unused {
        // only what the services of the main file reach is emitted
        args.push("--ignore-unused".into());
    }
    let b = run_vbuild(&args, Some(1 + (slot.len() % 4) * 2), 60);
    let idl_text: String = files.iter().map(|(n, t)| format!("// {}\n{}\n", n, t)).collect();
    if !b.ok {
        let all = format!("{}\n{}", b.stderr, b.stdout);
        return Err(Fail::new(&signature("builder", &all), format!("pilota-build failed ({}, config {}):\n{}\n--- IDL\n{}", b.status, c.cfg.tag(), vcore::evidence::truncate(&b.stderr, 700), vcore::evidence::truncate(&idl_text, 1500))));
    }
    if let Err(e) = typecheck(&out, &dir.join("tc"), "2021") {
        return Err(Fail::new(&signature("rustc", &e), format!("generated Rust does not type-check (config {}):\n{}\n--- IDL\n{}", c.cfg.tag(), vcore::evidence::truncate(&e, 900), vcore::evidence::truncate(&idl_text, 1500))));
    }
    let _ = std::fs::remove_dir_all(&dir);
    Ok(())
}

fn proto_files(c: &Case) -> Option<Vec<(String, String)>> {
    if let Some(r) = &c.proto {
        return Some(vcore::pschema::resolve_pdoc(r).print_files());
    }
    if let Some(k) = c.pkitchen {
        return Some(vcore::kitchen::proto_docs()[k].print_files());
    }
    if let Some(k) = c.pside {
        return Some(proto_side_docs()[k].1.clone());
    }
    None
}

fn run_proto_case(c: &Case, files: Vec<(String, String)>, slot: &str) -> Result<(), Fail> {
    let dir = work_dir().join("c14").join(slot);
    let _ = std::fs::remove_dir_all(&dir);
    let idl = dir.join("idl");
    for (name, text) in &files {
        write_if_changed(&idl.join(name), text);
    }
    let out = dir.join("out").join("gen.rs");
    let _ = std::fs::create_dir_all(out.parent().unwrap());
    let main = idl.join(&files[0].0);
    let mut args: Vec<String> = vec!["proto".into(), out.to_string_lossy().into(), main.to_string_lossy().into(), "--include-dir".into(), idl.to_string_lossy().into()];
    if c.cfg.split {
        args.push("--split".into());
    }
    if !c.cfg.change_case {
        args.push("--no-change-case".into());
    }
    let b = run_vbuild(&args, Some(1 + (slot.len() % 4) * 2), 60);
    let idl_text: String = files.iter().map(|(n, t)| format!("// {}\n{}\n", n, t)).collect();
    if !b.ok {
        let all = format!("{}\n{}", b.stderr, b.stdout);
        return Err(Fail::new(&signature("proto-builder", &all), format!("pilota-build failed on a .proto document ({}, config {}):\n{}\n--- IDL\n{}", b.status, c.cfg.tag(), vcore::evidence::truncate(&b.stderr, 700), vcore::evidence::truncate(&idl_text, 1500))));
    }
    if let Err(e) = typecheck(&out, &dir.join("tc"), "2021") {
        return Err(Fail::new(&signature("proto-rustc", &e), format!("Rust generated from a .proto document does not type-check (config {}):\n{}\n--- IDL\n{}", c.cfg.tag(), vcore::evidence::truncate(&e, 900), vcore::evidence::truncate(&idl_text, 1500))));
    }
    let _ = std::fs::remove_dir_all(&dir);
    Ok(())
}

pub fn run_case(c: &Case, slot: &str) -> Result<(), Fail> {
    if let Some(k) = c.ttext {
        return run_text_case(c, thrift_text_docs()[k].1.clone(), slot);
    }
    if let Some(files) = proto_files(c) {
        return run_proto_case(c, files, slot);
    }
    let doc = doc_of(c);
    let dir = work_dir().join("c14").join(slot);
    let _ = std::fs::remove_dir_all(&dir);
    let idl = dir.join("idl");
    for (name, text) in doc.print_files() {
        write_if_changed(&idl.join(name), &text);
    }
    let out = dir.join("out").join("gen.rs");
    let _ = std::fs::create_dir_all(out.parent().unwrap());
    let main = idl.join(format!("{}.thrift", doc.files[0].stem));
    let mut args: Vec<String> = vec!["thrift".into(), out.to_string_lossy().into(), main.to_string_lossy().into(), "--include-dir".into(), idl.to_string_lossy().into()];
    if c.cfg.split {
        args.push("--split".into());
    }
    if c.cfg.keep {
        for f in &doc.files {
            args.push("--keep-unknown".into());
            args.push(idl.join(format!("{}.thrift", f.stem)).to_string_lossy().into());
        }
    }
    if !c.cfg.change_case {
        args.push("--no-change-case".into());
    }
    if c.cfg.ignore_unused {
        args.push("--ignore-unused".into());
        // touch: keep up to two declared types of the main file alive
        let names: Vec<String> = doc.files[0].decls.iter().filter(|d| matches!(d.kind, DeclKind::Struct(_) | DeclKind::Union(_) | DeclKind::Enum(_))).take(2).map(|d| d.name.clone()).collect();
        if !names.is_empty() {
            args.push("--touch".into());
            args.push(format!("{}:{}", main.to_string_lossy(), names.join(",")));
        }
    }
    let b = run_vbuild(&args, Some(1 + (slot.len() % 4) * 2), 60);
    let idl_text: String = doc.print_files().into_iter().map(|(n, t)| format!("// {}\n{}\n", n, t)).collect();
    if !b.ok {
        let all = format!("{}\n{}", b.stderr, b.stdout);
        return Err(Fail::new(&signature("builder", &all), format!("pilota-build failed ({}, config {}):\n{}\n--- IDL\n{}", b.status, c.cfg.tag(), vcore::evidence::truncate(&b.stderr, 700), vcore::evidence::truncate(&idl_text, 1500))));
    }
    if !out.exists() {
        return Err(Fail::new("builder:no-output", format!("pilota-build reported success but wrote no output (config {})\n--- IDL\n{}", c.cfg.tag(), vcore::evidence::truncate(&idl_text, 1500))));
    }
    if let Err(e) = typecheck(&out, &dir.join("tc"), "2021") {
        return Err(Fail::new(&signature("rustc", &e), format!("generated Rust does not type-check (config {}):\n{}\n--- IDL\n{}", c.cfg.tag(), vcore::evidence::truncate(&e, 900), vcore::evidence::truncate(&idl_text, 1500))));
    }
    let _ = std::fs::remove_dir_all(&dir);
    Ok(())
}

fn features(doc: &SDoc, raw: Option<&RawDoc>) -> Vec<&'static str> {
    let mut f = vec![];
    let text: String = doc.print_files().into_iter().map(|x| x.1).collect();
    if raw.map(|r| r.opts.hostile_names).unwrap_or(false) {
        if vcore::tgen::RUST_KEYWORDS.iter().any(|k| text.contains(&format!(" {} ", k)) || text.contains(&format!(" {}{{", k)) || text.contains(&format!(" {}(", k)) || text.contains(&format!(" {},", k))) {
            f.push("keyword identifier");
        }
        if vcore::tgen::COLLIDING.iter().any(|g| g.iter().filter(|n| text.contains(&format!(" {}", n))).count() >= 2) {
            f.push("case-collision pair");
        }
    }
    if doc.files.len() > 1 {
        f.push("cross-file include");
    }
    if text.contains('=') && doc.files.iter().any(|fl| fl.decls.iter().any(|d| matches!(&d.kind, DeclKind::Struct(fs) | DeclKind::Exception(fs) if fs.iter().any(|x| x.default.is_some())))) {
        f.push("default literal");
    }
    if text.contains("pilota.") {
        f.push("pilota annotation");
    }
    // recursion: a struct that (transitively through optional fields) reaches itself is generated
    // whenever a back reference was resolved; approximate by name occurrence before declaration
    for fl in &doc.files {
        for (i, d) in fl.decls.iter().enumerate() {
            if let DeclKind::Struct(fs) | DeclKind::Exception(fs) = &d.kind {
                let later: Vec<&String> = fl.decls[i..].iter().map(|x| &x.name).collect();
                let t = format!("{:?}", fs);
                if later.iter().any(|n| t.contains(&format!("\"{}\"", n))) {
                    f.push("recursive / forward-referencing type");
                    break;
                }
            }
        }
    }
    f.dedup();
    f
}

pub fn run(ctx: &Ctx) -> i32 {
    let rec = new_rec(ctx, "C14");
    {
        let mut r = rec.borrow_mut();
        r.rule = "document of G_thrift (DESIGN.md 3.4: 1..3 files with namespaces and includes, enums, typedefs, structs/exceptions/unions, consts, services; containers nested to depth 3; recursion through optional fields and containers; defaults incl. enum members and constants; pilota.name / rust_type / rust_wrapper_arc annotations) with identifiers from the hostile pool (Rust keywords, case-conversion collisions, underscores, SHOUTY/camel mixtures) or the plain pool, x builder configuration from {single file, split} x {keep_unknown_fields off/on} x {change_case on/off} x {ignore_unused off / on + touch}; oracle: the builder child exits 0 within 60 s without panic and `rustc --edition 2021 --emit=metadata` accepts the output against the current pilota runtime; non-trivial = document has a keyword identifier, a case-collision pair, a recursive type, a cross-file reference, a default literal or a pilota annotation; distinct by (document, configuration)".into();
        r.assumptions = vec![
            "unions that refer to themselves (directly or through other unions) are the known-finding class recursive-union and are generated only by the side stream".into(),
            "set elements / map keys are restricted to types Rust can hash (no double inside key structs)".into(),
            "rayon schedules inside the builder are sampled by varying RAYON_NUM_THREADS, not owned".into(),
        ];
    }
    if let Some(rp) = &ctx.replay {
        let case: Case = serde_json::from_value(rp["case"]["case"].clone()).expect("replay case");
        return match run_case(&case, "replay") {
            Ok(()) => {
                println!("replay: property holds on this case");
                0
            }
            Err(f) => {
                println!("VIOLATION property=C14 replay={}", ctx.replay_path.clone().unwrap_or_default());
                println!("  key={} {}", f.key, f.msg);
                1
            }
        };
    }
    // ---- the cases of this run
    let mut cases: Vec<Case> = vec![];
    let all_cfg = BCfg::all();
    for k in 0..vcore::kitchen::thrift_docs().len() {
        for c in &all_cfg {
            cases.push(Case { raw: None, kitchen: Some(k), cfg: *c, proto: None, pkitchen: None, pside: None, ttext: None });
        }
    }
    let n_hostile = ctx.tier.pick(70, 1500) as usize;
    let n_plain = ctx.tier.pick(20, 500) as usize;
    let hostile = GenOpts { hostile_names: true, ..GenOpts::default() };
    for (i, raw) in sample(&arb_raw_doc(hostile), ctx.seed, "c14-hostile", n_hostile).into_iter().enumerate() {
        // two configurations per document, all sixteen for every tenth
        let pick: Vec<BCfg> = if i % 10 == 0 { all_cfg.clone() } else { vec![all_cfg[(i * 7) % 16], all_cfg[(i * 11 + 5) % 16]] };
        for c in pick {
            cases.push(Case { raw: Some(raw.clone()), kitchen: None, cfg: c, proto: None, pkitchen: None, pside: None, ttext: None });
        }
    }
    for (i, raw) in sample(&arb_raw_doc(GenOpts::default()), ctx.seed, "c14-plain", n_plain).into_iter().enumerate() {
        for c in [all_cfg[(i * 5) % 16], all_cfg[(i * 3 + 9) % 16]] {
            cases.push(Case { raw: Some(raw.clone()), kitchen: None, cfg: c, proto: None, pkitchen: None, pside: None, ttext: None });
        }
    }
    let pcfgs = [BCfg { split: false, keep: false, change_case: true, ignore_unused: false }, BCfg { split: true, keep: false, change_case: true, ignore_unused: false }, BCfg { split: false, keep: false, change_case: false, ignore_unused: false }];
    for k in 0..vcore::kitchen::proto_docs().len() {
        for c in pcfgs {
            cases.push(Case { raw: None, kitchen: None, cfg: c, proto: None, pkitchen: Some(k), pside: None, ttext: None });
        }
    }
    for (i, praw) in sample(&vcore::pschema::arb_raw_pdoc(), ctx.seed, "c14-proto", ctx.tier.pick(30, 600) as usize).into_iter().enumerate() {
        cases.push(Case { raw: None, kitchen: None, cfg: pcfgs[i % 3], proto: Some(praw), pkitchen: None, pside: None, ttext: None });
    }
    // hand-shaped Thrift text documents under six configurations each
    for k in 0..thrift_text_docs().len() {
        for c in [BCfg { split: false, keep: false, change_case: true, ignore_unused: false }, BCfg { split: true, keep: true, change_case: true, ignore_unused: false }, BCfg { split: false, keep: false, change_case: false, ignore_unused: false }, BCfg { split: true, keep: false, change_case: false, ignore_unused: false }, BCfg { split: false, keep: true, change_case: true, ignore_unused: true }, BCfg { split: true, keep: false, change_case: true, ignore_unused: true }] {
            cases.push(Case { raw: None, kitchen: None, cfg: c, proto: None, pkitchen: None, pside: None, ttext: Some(k) });
        }
    }
    // ---- run them on all cores
    let results: std::sync::Mutex<Vec<(usize, Result<(), Fail>)>> = Default::default();
    let next = std::sync::atomic::AtomicUsize::new(0);
    std::thread::scope(|s| {
        for t in 0..16 {
            let (cases, results, next) = (&cases, &results, &next);
            s.spawn(move || loop {
                let i = next.fetch_add(1, std::sync::atomic::Ordering::SeqCst);
                if i >= cases.len() {
                    break;
                }
                let r = run_case(&cases[i], &format!("t{}", t));
                results.lock().unwrap().push((i, r));
            });
        }
    });
    let mut results = results.into_inner().unwrap();
    results.sort_by_key(|r| r.0);
    let mut by_key: std::collections::BTreeMap<String, (usize, Fail)> = Default::default();
    for (i, r) in &results {
        let c = &cases[*i];
        if let Some(files) = proto_files(c) {
            let mut rr = rec.borrow_mut();
            let text: String = files.iter().map(|(n, t)| format!("// {}\n{}\n", n, t)).collect();
            rr.case(fp(c), text.contains("oneof") || text.contains("map<") || files.len() > 1 || text.matches("message ").count() >= 3, || json!({"config": c.cfg.tag(), "proto": vcore::evidence::truncate(&text, 500)}));
            rr.class("protobuf document");
            rr.class_if(files.len() > 1, "protobuf: import");
            rr.class_if(text.contains("oneof"), "protobuf: oneof");
            rr.class_if(text.contains("syntax = \"proto2\""), "protobuf: proto2");
            drop(rr);
            if let Err(f) = r {
                by_key.entry(f.key.clone()).or_insert((*i, f.clone()));
            }
            continue;
        }
        if let Some(k) = c.ttext {
            let (about, files) = thrift_text_docs()[k].clone();
            let mut rr = rec.borrow_mut();
            let text: String = files.iter().map(|(n, t)| format!("// {}\n{}\n", n, t)).collect();
            rr.case(fp(c), true, || json!({"config": c.cfg.tag(), "about": about, "idl": vcore::evidence::truncate(&text, 500)}));
            rr.class("hand-shaped Thrift document");
            rr.class(&format!("config {}", c.cfg.tag()));
            drop(rr);
            if let Err(f) = r {
                by_key.entry(f.key.clone()).or_insert((*i, f.clone()));
            }
            continue;
        }
        let doc = doc_of(c);
        let feats = features(&doc, c.raw.as_ref());
        {
            let mut rr = rec.borrow_mut();
            rr.case(fp(c), !feats.is_empty(), || {
                let t: String = doc.print_files().into_iter().map(|(n, t)| format!("// {}\n{}\n", n, t)).collect();
                json!({"config": c.cfg.tag(), "idl": vcore::evidence::truncate(&t, 500)})
            });
            for f in &feats {
                rr.class(f);
            }
            rr.class(&format!("config {}", c.cfg.tag()));
            rr.class_if(c.raw.as_ref().map(|r| r.opts.hostile_names).unwrap_or(false), "hostile identifier pool");
        }
        if let Err(f) = r {
            by_key.entry(f.key.clone()).or_insert((*i, f.clone()));
        }
    }
    // ---- minimise one representative per failure signature
    for (key, (i, f)) in by_key {
        if ctx.findings.is_open("C14", &key) {
            rec.borrow_mut().known_hit(&key);
            continue;
        }
        let start = cases[i].clone();
        let k2 = key.clone();
        let min = minimize(start, ctx.tier.pick(40, 300) as usize, |c| matches!(run_case(c, "min"), Err(g) if g.key == k2));
        let f2 = run_case(&min, "min").err().unwrap_or(f);
        report(ctx, &rec, "build", &min, &f2);
    }
    // ---- side streams: one per known-finding class (documents the main stream never generates)
    let sides: [(&str, GenOpts); 6] = [
        ("btree-double-hash", GenOpts { btree_double: true, ..GenOpts::default() }),
        ("const-newtype-name-collision", GenOpts { hostile_names: true, const_collisions: true, ..GenOpts::default() }),
        ("recursive-union", GenOpts { recursive_unions: true, ..GenOpts::default() }),
        ("literal-conversion-gaps", GenOpts { literal_gaps: true, ..GenOpts::default() }),
        ("default-on-annotated-type", GenOpts { annotated_defaults: true, ..GenOpts::default() }),
        ("prelude-name-shadowing", GenOpts { hostile_names: true, prelude_names: true, ..GenOpts::default() }),
    ];
    for (key, opts) in sides {
        if !ctx.findings.is_open("C14", key) {
            continue;
        }
        let docs = sample(&arb_raw_doc(opts), ctx.seed, &format!("c14-side-{}", key), ctx.tier.pick(32, 300) as usize);
        let hits = std::sync::atomic::AtomicUsize::new(0);
        let next = std::sync::atomic::AtomicUsize::new(0);
        std::thread::scope(|s| {
            for t in 0..16 {
                let (docs, hits, next, all_cfg) = (&docs, &hits, &next, &all_cfg);
                s.spawn(move || loop {
                    let i = next.fetch_add(1, std::sync::atomic::Ordering::SeqCst);
                    if i >= docs.len() {
                        break;
                    }
                    let c = Case { raw: Some(docs[i].clone()), kitchen: None, cfg: all_cfg[(i * 5) % 16], proto: None, pkitchen: None, pside: None, ttext: None };
                    if run_case(&c, &format!("side{}", t)).is_err() {
                        hits.fetch_add(1, std::sync::atomic::Ordering::SeqCst);
                    }
                });
            }
        });
        let mut r = rec.borrow_mut();
        for _ in 0..docs.len() {
            r.class(&format!("side stream: {}", key));
        }
        for _ in 0..hits.load(std::sync::atomic::Ordering::SeqCst) {
            r.known_hit(key);
        }
    }
    for (k, (key, _)) in proto_side_docs().into_iter().enumerate() {
        if !ctx.findings.is_open("C14", key) {
            continue;
        }
        rec.borrow_mut().class(&format!("side stream: {}", key));
        let c = Case { raw: None, kitchen: None, cfg: pcfgs[0], proto: None, pkitchen: None, pside: Some(k), ttext: None };
        if run_case(&c, "pside").is_err() {
            rec.borrow_mut().known_hit(key);
        }
    }
    if rec.borrow().violations.is_empty() {
        if let Some(c) = require_classes(&rec, &["protobuf document", "protobuf: oneof", "protobuf: proto2", "keyword identifier", "case-collision pair", "cross-file include", "default literal", "pilota annotation", "recursive / forward-referencing type", "hostile identifier pool"]) {
            rec.borrow().finish(&ctx.findings);
            return c;
        }
    }
    let code = rec.borrow().finish(&ctx.findings);
    code
}

//! C04 (runtime part) reported Thrift size equals the number of bytes encoding writes.
use crate::c01::{arb_case, Case};
use crate::common::*;
use crate::Ctx;
use pilota::thrift::TOutputProtocol;
use serde_json::json;
use vcore::ensure;
use vcore::evidence::{catch, run_prop, Fail, PResult};
use vcore::tval::shape_of;
use vrt::codec::*;

pub fn check_case(c: &Case) -> PResult {
    for pk in ALL_PK {
        // every output buffer kind has a writer of its own; the reported size is one number
        for bk in ALL_BK {
            let out = match catch(|| write_items(pk, bk, &c.items, c.flavor_w)) {
                Err(p) => return Err(Fail::new(&format!("panic-{:?}", pk), format!("{:?}/{:?}: size or write panicked: {}", pk, bk, p))),
                Ok(Err(e)) => return Err(Fail::new(&format!("write-error-{:?}", pk), format!("{:?}/{:?}: {}", pk, bk, e))),
                Ok(Ok(o)) => o,
            };
            let mut prev = 0;
            for (i, it) in c.items.iter().enumerate() {
                let written = out.ends[i] - prev;
                prev = out.ends[i];
                ensure!(
                    out.lens[i] == written,
                    &format!("size-differs-{:?}", pk),
                    "{:?}/{:?}: item {} reported size {} but encoding wrote {} bytes: {:?}",
                    pk, bk, i, out.lens[i], written, it
                );
            }
        }
        if pk == PKind::Unsafe {
            continue;
        }
        // size-then-encode on the SAME protocol instance (holds iff the length pass leaves the
        // compact field-id stack balanced)
        let mut buf = bytes::BytesMut::new();
        let r = catch(|| {
            vrt::with_writer!(pk, &mut buf, |p| {
                for (i, it) in c.items.iter().enumerate() {
                    let n = item_len(&mut p, it, c.flavor_w);
                    let before = p.buf_mut().len();
                    write_item(&mut p, it, c.flavor_w)?;
                    let after = p.buf_mut().len();
                    if after - before != n {
                        return Err(format!("item {} same-instance size {} but wrote {}", i, n, after - before));
                    }
                }
                Ok::<(), String>(())
            })
        });
        match r {
            Ok(Ok(())) => {}
            Ok(Err(m)) => return Err(Fail::new(&format!("same-instance-{:?}", pk), format!("{:?}: {}", pk, m))),
            Err(p) => return Err(Fail::new(&format!("panic-{:?}", pk), format!("{:?}: same-instance size/write panicked: {}", pk, p))),
        }
    }
    Ok(())
}

pub fn runtime_part(ctx: &Ctx, rec: &std::cell::RefCell<vcore::evidence::Recorder>) {
    let cases = ctx.tier.pick(40_000, 1_500_000);
    let res = run_prop(rec, "c04", cases, arb_case(4), |c: &Case| {
        {
            let mut r = rec.borrow_mut();
            let mut nt = false;
            for it in &c.items {
                let s = shape_of(it.val());
                nt |= s.struct_levels >= 2 || s.long_form_id || s.bool_field;
                r.class_if(s.struct_levels >= 2, "runtime: >= 2 struct levels");
                r.class_if(s.long_form_id, "runtime: long-form field id");
                r.class_if(s.bool_field, "runtime: bool field");
                r.class_if(s.long_collection, "runtime: collection >= 15");
                r.class_if(s.big_payload, "runtime: payload >= 4096");
                r.class_if(matches!(it, Item::Msg { .. }), "runtime: envelope");
            }
            r.case(fp(c), nt, || json!(format!("{:?}", c.items)));
        }
        check_case(c)
    });
    if let Some((case, f)) = res {
        report(ctx, rec, "runtime-size", &case, &f);
    }
}

pub fn run(ctx: &Ctx) -> i32 {
    vcore::evidence::quiet_panics();
    let rec = new_rec(ctx, "C04");
    {
        let mut r = rec.borrow_mut();
        r.rule = "runtime: history of value trees / envelopes sized by a fresh TLengthProtocol instance (binary, binary-LE, compact, unchecked) and by the writing instance itself, then written; size must equal the buffer growth per item; the hand-written TApplicationException message (empty / short / long text x 6 kinds x 3 protocols) likewise; non-trivial = >= 2 struct levels, a field-id gap > 15 / non-ascending id, or a bool field (the stateful parts of the compact length computation); distinct by hash of the case".into();
        r.assumptions = vec!["generated-type part (Message::size of emitted types) is added by the generated-code pipeline when present".into()];
    }
    if let Some(rp) = &ctx.replay {
        let case: Case = serde_json::from_value(rp["case"]["case"].clone()).expect("replay case");
        return match check_case(&case) {
            Ok(()) => {
                println!("replay: property holds on this case");
                0
            }
            Err(f) => {
                println!("VIOLATION property=C04 replay={}", ctx.args.first().cloned().unwrap_or_default());
                println!("  key={} {}", f.key, f.msg);
                1
            }
        };
    }
    runtime_part(ctx, &rec);
    // the hand-written Message of the runtime: TApplicationException (empty, short and long text)
    if rec.borrow().violations.is_empty() {
        use pilota::thrift::{ApplicationException, ApplicationExceptionKind, Message};
        let mut reported = std::collections::BTreeSet::new();
        for msg in [String::new(), "x".to_string(), "boom ".repeat(40), "\u{e9}\u{4e2d}".to_string()] {
            for kind in [0i32, 1, 6, 10, -1, 1 << 20] {
                for pk in [PKind::Binary, PKind::BinaryLe, PKind::Compact] {
                    {
                        let mut r = rec.borrow_mut();
                        r.case(fp(&("appex", &msg, kind, format!("{:?}", pk))), true, || json!(format!("TApplicationException({}, {:?}) {:?}", kind, msg, pk)));
                        r.class("runtime: application exception");
                    }
                    let ex = ApplicationException::new(ApplicationExceptionKind::from_i32(kind), msg.clone());
                    let m2 = msg.clone();
                    let r = catch(move || {
                        let mut sbuf = bytes::BytesMut::new();
                        let size = vrt::with_writer!(pk, &mut sbuf, |p| ex.size(&mut p));
                        let mut buf = bytes::BytesMut::new();
                        let ok = vrt::with_writer!(pk, &mut buf, |p| ex.encode(&mut p)).is_ok();
                        (size, buf.len(), ok)
                    });
                    let f = match r {
                        Err(p) => Some(Fail::new(&format!("appex-panic-{:?}", pk), format!("{:?}: sizing / encoding TApplicationException({}, {:?}) panicked: {}", pk, kind, m2, p))),
                        Ok((size, wrote, ok)) if !ok || size != wrote => Some(Fail::new(&format!("appex-size-differs-{:?}", pk), format!("{:?}: TApplicationException({}, {:?}) reports size {} and encoding wrote {} bytes (encode ok: {})", pk, kind, m2, size, wrote, ok))),
                        _ => None,
                    };
                    if let Some(f) = f {
                        if reported.insert(f.key.clone()) {
                            report(ctx, &rec, "appex-size", &json!({"kind": kind, "msg": m2, "pk": format!("{:?}", pk)}), &f);
                        }
                    }
                }
            }
        }
    }
    if rec.borrow().violations.is_empty() {
        if let Some(c) = require_classes(&rec, &["runtime: >= 2 struct levels", "runtime: long-form field id", "runtime: bool field", "runtime: collection >= 15", "runtime: envelope"]) {
            rec.borrow().finish(&ctx.findings);
            return c;
        }
    }
    let gen = crate::genpipe::merge_gen_part(ctx, &rec, "C04");
    let own = rec.borrow().finish(&ctx.findings);
    crate::genpipe::combine(own, gen)
}

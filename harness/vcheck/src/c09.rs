//! C09 (runtime part) safe Thrift decoders are total: arbitrary bytes give a value or an error.
use crate::c01::arb_item;
use crate::common::*;
use crate::Ctx;
use bytes::Bytes;
use pilota::thrift::{Message, TAsyncInputProtocol, TInputProtocol};
use proptest::prelude::*;
use serde::{Deserialize, Serialize};
use serde_json::json;
use vcore::evidence::{catch, run_prop, Fail, PResult};
use vcore::mutate::{apply, arb_fault, Fault};
use vcore::refthrift::{Enc, MarkKind, Variant};
use vcore::shrink::Shrink;
use vcore::tval::{arb_tt, GenCfg, TVal, TT};
use vrt::codec::*;
use vrt::interp::{read_val, read_val_async, to_ttype, ReadOpts};
use vrt::io::{block_on, ScriptedReader, Step};
use vrt::total::{limits_for, observe};
use vrt::{with_async_reader, with_reader};

#[derive(Clone, Debug, Serialize, Deserialize, Hash)]
pub enum Src {
    Random { tt: TT, bytes: Vec<u8> },
    Valid { item: Item, fault: Fault },
}

#[derive(Clone, Debug, Serialize, Deserialize, Hash)]
pub struct Case {
    pub src: Src,
}

impl Shrink for Case {
    fn candidates(&self) -> Vec<Case> {
        let mut out = vec![];
        match &self.src {
            Src::Random { tt, bytes } => {
                let n = bytes.len();
                if n > 0 {
                    out.push(Case { src: Src::Random { tt: *tt, bytes: bytes[..n / 2].to_vec() } });
                    out.push(Case { src: Src::Random { tt: *tt, bytes: bytes[..n - 1].to_vec() } });
                    out.push(Case { src: Src::Random { tt: *tt, bytes: bytes[1..].to_vec() } });
                    for i in 0..n.min(64) {
                        if bytes[i] != 0 {
                            let mut b = bytes.clone();
                            b[i] = 0;
                            out.push(Case { src: Src::Random { tt: *tt, bytes: b } });
                        }
                    }
                }
            }
            Src::Valid { item, fault } => match item {
                Item::Val(v) => {
                    for c in vcore::shrink::same_type_candidates(v) {
                        out.push(Case { src: Src::Valid { item: Item::Val(c), fault: fault.clone() } });
                    }
                }
                Item::Msg { name, mtype, seq, body } => {
                    out.push(Case { src: Src::Valid { item: Item::Val(body.clone()), fault: fault.clone() } });
                    for c in vcore::shrink::same_type_candidates(body) {
                        out.push(Case { src: Src::Valid { item: Item::Msg { name: name.clone(), mtype: *mtype, seq: *seq, body: c }, fault: fault.clone() } });
                    }
                }
            },
        }
        out
    }
}

pub fn arb_case() -> BoxedStrategy<Case> {
    let cfg = GenCfg { utf8: true, max_big: 4097, max_children: 5 };
    prop_oneof![
        1 => (arb_tt(1), prop::collection::vec(any::<u8>(), 0..256)).prop_map(|(tt, bytes)| Case { src: Src::Random { tt, bytes } }),
        // random bytes biased towards small numbers (plausible headers)
        1 => (arb_tt(1), prop::collection::vec(prop_oneof![0u8..20, any::<u8>()], 0..64)).prop_map(|(tt, bytes)| Case { src: Src::Random { tt, bytes } }),
        8 => (0u32..=3).prop_flat_map(move |d| (arb_item(d, cfg), arb_fault())).prop_map(|(item, fault)| Case { src: Src::Valid { item, fault } }),
    ]
    .boxed()
}

fn ro() -> ReadOpts {
    ReadOpts { flavor: 0, utf8: false, max_depth: 200 }
}

pub struct Input {
    pub bytes: Vec<u8>,
    pub tt: TT,
    pub envelope: bool,
    pub strict_prefix_of_struct: bool,
    pub kind: Option<MarkKind>,
    pub described: String,
}

pub fn input_for(c: &Case, pk: PKind) -> Input {
    match &c.src {
        Src::Random { tt, bytes } => Input { bytes: bytes.clone(), tt: *tt, envelope: false, strict_prefix_of_struct: false, kind: None, described: "random".into() },
        Src::Valid { item, fault } => {
            let mut e = Enc::new(pk.ref_proto(), Variant::default());
            if let Item::Msg { name, mtype, seq, .. } = item {
                e.message_begin(name.as_bytes(), *mtype, *seq);
            }
            e.value(item.val());
            let a = apply(pk.ref_proto(), &e.out, &e.marks, fault);
            let strict = matches!(fault, Fault::Truncate(_)) && a.bytes.len() < e.out.len() && item.val().tt() == TT::Struct && matches!(item, Item::Val(_));
            Input { bytes: a.bytes, tt: item.val().tt(), envelope: matches!(item, Item::Msg { .. }), strict_prefix_of_struct: strict, kind: a.kind, described: a.described }
        }
    }
}

pub fn check_case(c: &Case) -> PResult {
    for pk in [PKind::Binary, PKind::BinaryLe, PKind::Compact] {
        check_case_pk(c, pk)?;
    }
    Ok(())
}

pub fn check_case_pk(c: &Case, pk: PKind) -> PResult {
    {
        let inp = input_for(c, pk);
        let lim = limits_for(inp.bytes.len());
        let tt = inp.tt;
        let envelope = inp.envelope;
        // --- sync targets
        let what = format!("{:?}-read", pk);
        let (r, _) = observe(&what, lim, || {
            let mut b = Bytes::from(inp.bytes.clone());
            with_reader!(pk, &mut b, |p| {
                if envelope {
                    p.read_message_begin().map(|_| ()).and_then(|_| read_val(&mut p, tt, ro()).map(|_| ()))
                } else {
                    read_val(&mut p, tt, ro()).map(|_| ())
                }
            })
            .is_ok()
        })
        .map_err(|f| Fail::new(&f.key, format!("{} [{}] input {}", f.msg, inp.described, vcore::tval::hex(&inp.bytes[..inp.bytes.len().min(96)]))))?;
        if inp.strict_prefix_of_struct && r {
            return Err(Fail::new(&format!("prefix-accepted-{:?}", pk), format!("{:?}: a strict prefix ({}) of a valid struct encoding decoded successfully: {}", pk, inp.described, vcore::tval::hex(&inp.bytes[..inp.bytes.len().min(96)]))));
        }
        let what = format!("{:?}-skip", pk);
        observe(&what, lim, || {
            let mut b = Bytes::from(inp.bytes.clone());
            with_reader!(pk, &mut b, |p| {
                let _ = p.skip(to_ttype(tt));
            })
        })
        .map_err(|f| Fail::new(&f.key, format!("{} [{}] input {}", f.msg, inp.described, vcore::tval::hex(&inp.bytes[..inp.bytes.len().min(96)]))))?;
        let what = format!("{:?}-appex", pk);
        observe(&what, lim, || {
            let mut b = Bytes::from(inp.bytes.clone());
            with_reader!(pk, &mut b, |p| {
                let _ = pilota::thrift::ApplicationException::decode(&mut p);
            })
        })
        .map_err(|f| Fail::new(&f.key, format!("{} [{}] input {}", f.msg, inp.described, vcore::tval::hex(&inp.bytes[..inp.bytes.len().min(96)]))))?;
        // --- async targets (deterministic poll budget instead of a timeout)
        let budget = 16 * inp.bytes.len() + 64;
        for target in 0..3u8 {
            let what = format!("async-{:?}-{}", pk, ["read", "skip", "appex"][target as usize]);
            let (res, _) = observe(&what, lim, || {
                let (reader, stats) = ScriptedReader::new(inp.bytes.clone(), vec![Step::Chunk(5), Step::Pending, Step::Chunk(64)]);
                let r = with_async_reader!(pk, reader, |p| {
                    block_on(
                        async {
                            match target {
                                0 => {
                                    if envelope {
                                        if p.read_message_begin().await.is_err() {
                                            return false;
                                        }
                                    }
                                    read_val_async(&mut p, tt, ro()).await.is_ok()
                                }
                                1 => p.skip(to_ttype(tt)).await.is_ok(),
                                _ => pilota::thrift::ApplicationException::decode_async(&mut p).await.is_ok(),
                            }
                        },
                        budget,
                    )
                });
                (r.is_err(), stats.polls.load(std::sync::atomic::Ordering::Relaxed))
            })
            .map_err(|f| Fail::new(&f.key, format!("{} [{}] input {}", f.msg, inp.described, vcore::tval::hex(&inp.bytes[..inp.bytes.len().min(96)]))))?;
            if res.0 {
                return Err(Fail::new(&format!("hang:{}", what), format!("{}: not finished after {} polls on {} input bytes [{}]", what, budget, inp.bytes.len(), inp.described)));
            }
        }
    }
    Ok(())
}

/// Child mode of the enumerated container headers (see `run`).
pub fn enum_child() -> i32 {
    use std::sync::atomic::Ordering;
    vcore::evidence::quiet_panics();
    static CURRENT: std::sync::Mutex<String> = std::sync::Mutex::new(String::new());
    static BASE: std::sync::atomic::AtomicUsize = std::sync::atomic::AtomicUsize::new(0);
    std::thread::spawn(|| loop {
        std::thread::sleep(std::time::Duration::from_millis(20));
        let used = vrt::alloc::GLOBAL_ALLOCS.load(Ordering::Relaxed).saturating_sub(BASE.load(Ordering::Relaxed));
        if used > 5_000_000 {
            let cur = CURRENT.lock().map(|c| c.clone()).unwrap_or_default();
            println!("ENUM-RUNAWAY {}", cur);
            std::process::exit(3);
        }
    });
    let mut n = 0u64;
    for pk in [PKind::Binary, PKind::BinaryLe, PKind::Compact] {
        for kind in [TT::List, TT::Set, TT::Map] {
            for code in 0u16..=255 {
                for count in [1u32, 1 << 16, 1 << 20, (1 << 24) + 1, i32::MAX as u32] {
                    let mut bytes: Vec<u8> = vec![];
                    let put_varint = |bytes: &mut Vec<u8>, mut n: u32| {
                        while n >= 0x80 {
                            bytes.push((n as u8) | 0x80);
                            n >>= 7;
                        }
                        bytes.push(n as u8);
                    };
                    match (pk, kind) {
                        (PKind::Compact, TT::Map) => {
                            put_varint(&mut bytes, count);
                            bytes.push(code as u8);
                        }
                        (PKind::Compact, _) => {
                            if code > 15 {
                                continue;
                            }
                            bytes.push(0xF0 | code as u8);
                            put_varint(&mut bytes, count);
                        }
                        (_, TT::Map) => {
                            bytes.push(code as u8);
                            bytes.push((code >> 1) as u8 | 1);
                            bytes.extend_from_slice(&if pk == PKind::BinaryLe { count.to_le_bytes() } else { count.to_be_bytes() });
                        }
                        _ => {
                            bytes.push(code as u8);
                            bytes.extend_from_slice(&if pk == PKind::BinaryLe { count.to_le_bytes() } else { count.to_be_bytes() });
                        }
                    }
                    bytes.extend_from_slice(&[0, 1, 0]);
                    let len = bytes.len();
                    let c = Case { src: Src::Random { tt: kind, bytes } };
                    let js = serde_json::to_string(&c).unwrap_or_default();
                    if let Ok(mut cur) = CURRENT.lock() {
                        *cur = format!("{} {:?} CASE {}", len, pk, js);
                    }
                    BASE.store(vrt::alloc::GLOBAL_ALLOCS.load(Ordering::Relaxed), Ordering::Relaxed);
                    n += 1;
                    if let Err(f) = check_case_pk(&c, pk) {
                        println!("ENUM-FAIL {} {} CASE {}", f.key, vcore::evidence::truncate(&f.msg.replace('\n', " "), 300), js);
                    }
                }
            }
        }
    }
    println!("ENUM-DONE {}", n);
    0
}

pub fn run(ctx: &Ctx) -> i32 {
    if ctx.args.iter().any(|a| a == "--enum-child") {
        return enum_child();
    }
    // a decoder that spins over elements that are not there never returns to the oracle; its
    // allocations give it away (see vrt::total::arm_runaway_guard)
    fn runaway(case: &str, used: usize) {
        let root = vcore::evidence::verif_root();
        let _ = std::fs::create_dir_all(root.join("replays"));
        let path = root.join("replays").join("C09-total-runaway.json");
        let case_v: serde_json::Value = serde_json::from_str(case).unwrap_or(serde_json::Value::String(case.to_string()));
        let body = json!({"property": "C09", "sub": "total", "message": format!("key=alloc-runaway {} allocations were made while decoding this input and the decoder had not returned", used), "case": {"sub": "total", "key": "alloc-runaway", "case": case_v}});
        let _ = std::fs::write(&path, serde_json::to_string_pretty(&body).unwrap_or_default());
        println!("VIOLATION property=C09 replay={}", path.display());
        println!("  [total] key=alloc-runaway more than {} allocations were made while decoding one input and the decoder had not returned (it iterates over a count it has not checked against the input): {}", used, vcore::evidence::truncate(case, 600));
        use std::io::Write;
        let _ = std::io::stdout().flush();
        std::process::exit(1);
    }
    vrt::total::arm_runaway_guard(20_000_000, runaway);
    vcore::evidence::quiet_panics();
    let rec = new_rec(ctx, "C09");
    {
        let mut r = rec.borrow_mut();
        r.level = "fault_enumeration";
        r.rule = "input = random bytes (<= 256, two distributions) or a reference encoding of a generated value / envelope with exactly one fault (truncation at a generated offset, single bit flip, a length/count/field-id mark overwritten with -1,0,1,rem-1,rem,rem+1,i32::MAX,u32::MAX,16Mi, or a type byte replaced); fed to the header-driven generic reader, skip, message envelope and TApplicationException decoders, sync and async, binary / binary-LE / compact; oracle: no panic, no single allocation or peak above 1 MiB + 4096 x input length, async poll count <= 16 x len + 64, strict prefixes of struct encodings rejected (also enumerated for the TApplicationException decoder: every prefix of the standard struct in four layouts x 3 protocols, sync and async); non-trivial = single-fault mutant of a valid encoding (distinct by hash)".into();
        r.assumptions = vec![
            "allocation is observed with a counting global allocator on the checking thread".into(),
            "generated-type decoders are covered by the generated-code pipeline part".into(),
        ];
    }
    if let Some(rp) = &ctx.replay {
        let case: Case = serde_json::from_value(rp["case"]["case"].clone()).expect("replay case");
        vrt::total::guard_case(|| serde_json::to_string(&case).unwrap_or_default());
        return match check_case(&case) {
            Ok(()) => {
                println!("replay: property holds on this case");
                0
            }
            Err(f) => {
                println!("VIOLATION property=C09 replay={}", ctx.args.first().cloned().unwrap_or_default());
                println!("  key={} {}", f.key, f.msg);
                1
            }
        };
    }
    let cases = ctx.tier.pick(150_000, 3_000_000);
    // several independent searches so that one defect does not hide the next: every distinct
    // failure key is reported once
    let mut seen = std::collections::BTreeSet::new();
    let rounds = 6;
    for round in 0..rounds {
        let res = run_prop(&rec, &format!("c09-{}", round), cases / rounds, arb_case(), |c: &Case| {
            vrt::total::guard_case(|| serde_json::to_string(c).unwrap_or_default());
            {
                let mut r = rec.borrow_mut();
                let (nt, cls) = match &c.src {
                    Src::Random { .. } => (false, "random bytes".to_string()),
                    Src::Valid { fault, .. } => (
                        !matches!(fault, Fault::None),
                        match fault {
                            Fault::None => "valid".into(),
                            Fault::Truncate(_) => "truncation".into(),
                            Fault::Flip(..) => "bit flip".into(),
                            Fault::Overwrite(_, b) => format!("overwrite {:?}", b),
                            Fault::TypeByte(..) => "type byte".into(),
                        },
                    ),
                };
                r.case(fp(c), nt, || json!(format!("{:?}", c.src)));
                r.class(&cls);
                if let Src::Valid { item, .. } = &c.src {
                    r.class_if(matches!(item, Item::Msg { .. }), "envelope");
                }
            }
            let r = check_case(c);
            match r {
                // keep searching behind failures already reported in an earlier round
                Err(f) if seen.contains(&f.key) || ctx.findings.is_open("C09", &f.key) => {
                    if ctx.findings.is_open("C09", &f.key) {
                        // counted once per key below
                    }
                    let _ = f;
                    Ok(())
                }
                o => o,
            }
        });
        vrt::total::guard_idle();
        if let Some((case, f)) = res {
            seen.insert(f.key.clone());
            report(ctx, &rec, "total", &case, &f);
        }
    }
    // container headers with every element type byte and boundary counts, followed by a few
    // bytes: skip and read must come back (error or value) without spinning over elements that
    // are not there -- sync and async, every protocol. Runs in a child process whose monitor
    // thread watches the volume of allocations: a decoder that iterates over a count it has not
    // checked allocates per iteration and would not come back for minutes.
    {
        let exe = std::env::current_exe().unwrap();
        if let Ok(o) = std::process::Command::new(exe).args(["C09", "--enum-child"]).output() {
            let so = String::from_utf8_lossy(&o.stdout).to_string();
            let n: u64 = so.lines().rev().find_map(|l| l.strip_prefix("ENUM-DONE ").and_then(|x| x.trim().parse().ok())).unwrap_or(0);
            {
                let mut r = rec.borrow_mut();
                for i in 0..n.max(1) {
                    r.case(fp(&("enum-header", i)), true, || json!("container header: every element type byte x counts {1, 2^16, 2^20, 2^24+1, i32::MAX} x list/set/map x protocol"));
                    r.class("enumerated container header");
                }
            }
            let mut reported = std::collections::BTreeSet::new();
            for l in so.lines() {
                let (key, rest) = if let Some(r) = l.strip_prefix("ENUM-FAIL ") {
                    let mut it = r.splitn(2, ' ');
                    (it.next().unwrap_or("enum-fail").to_string(), it.next().unwrap_or("").to_string())
                } else if let Some(r) = l.strip_prefix("ENUM-RUNAWAY ") {
                    ("alloc-runaway".to_string(), format!("more than 5 000 000 allocations were made while decoding this {}-byte input and the call had not returned: {}", r.split(' ').next().unwrap_or("?"), r))
                } else {
                    continue;
                };
                if reported.insert(key.clone()) && !ctx.findings.is_open("C09", &key) {
                    let case_json = rest.rsplit(" CASE ").next().unwrap_or("").to_string();
                    let case: serde_json::Value = serde_json::from_str(&case_json).unwrap_or(json!({"text": rest.clone()}));
                    report(ctx, &rec, "total", &case, &Fail::new(&key, rest.clone()));
                }
            }
            if !o.status.success() && !so.contains("ENUM-RUNAWAY") && !so.contains("ENUM-FAIL") {
                let f = Fail::new("enum-child-died", format!("the child process decoding enumerated container headers died: {:?} {}", o.status, vcore::evidence::truncate(&String::from_utf8_lossy(&o.stderr), 400)));
                report(ctx, &rec, "total", &json!({"probe": "enum"}), &f);
            }
        }
    }
    let _ = TVal::Bool(true);
    // nesting far beyond any limit (1e3 .. 2e5 levels through struct / list / map-value hops, sync
    // and async, all protocols) on a 2 MiB stack in a child process: the generic skipper must
    // come back (C07 decides *what* it answers), the process must not die
    {
        let exe = std::env::current_exe().unwrap();
        if let Ok(o) = std::process::Command::new(exe).args(["C07", "--deep-probe"]).env("VERIF_DEEP_CONTINUE", "1").output() {
            let so = String::from_utf8_lossy(&o.stdout).to_string();
            {
                let mut r = rec.borrow_mut();
                r.case(fp(&"deep-probe"), true, || json!("nesting chains of 1e3, 2e4, 2e5 levels x {struct, list, map value} x {binary, LE, compact, unchecked} x {sync, async} skipped in a 2 MiB-stack child"));
                r.class("deep nesting probe (child process)");
            }
            if o.status.code().is_none() || (!o.status.success() && !so.contains("DEEP-FAIL")) {
                let f = Fail::new("deep-nesting-crash", format!("the child process skipping deeply nested input died: status {:?}\nstdout {}\nstderr {}", o.status, vcore::evidence::truncate(&so, 600), vcore::evidence::truncate(&String::from_utf8_lossy(&o.stderr), 600)));
                if !ctx.findings.is_open("C09", &f.key) {
                    report(ctx, &rec, "deep", &json!({"probe": "deep"}), &f);
                }
            }
        }
    }
    // the hand-written TApplicationException decoder: every strict prefix of the standard struct
    // (message and type in either order, with and without a foreign field) is refused, sync and
    // async, under every protocol
    if rec.borrow().violations.is_empty() {
        let mut reported = std::collections::BTreeSet::new();
        for (mi, msg) in ["", "x", "boom: something failed"].iter().enumerate() {
            for kind_first in [false, true] {
                for extra in [false, true] {
                    let mut fields = vec![(1i16, TVal::Binary(msg.as_bytes().to_vec())), (2i16, TVal::I32(6 + mi as i32))];
                    if kind_first {
                        fields.swap(0, 1);
                    }
                    if extra {
                        fields.push((9, TVal::List(vcore::tval::TT::I16, vec![TVal::I16(1), TVal::I16(2)])));
                    }
                    let sv = TVal::Struct(fields);
                    for pk in [PKind::Binary, PKind::BinaryLe, PKind::Compact] {
                        let data = vcore::refthrift::encode(pk.ref_proto(), &sv);
                        for cut in 0..data.len() {
                            let prefix = data[..cut].to_vec();
                            {
                                let mut r = rec.borrow_mut();
                                r.case(fp(&("appex-prefix", mi, kind_first, extra, format!("{:?}", pk), cut)), true, || json!(format!("{:?}: {} of {} bytes of {:?}", pk, cut, data.len(), sv)));
                                r.class("application exception prefix");
                            }
                            let p2 = prefix.clone();
                            let sync_ok = catch(move || {
                                let mut b = Bytes::from(p2);
                                with_reader!(pk, &mut b, |p| pilota::thrift::ApplicationException::decode(&mut p).is_ok())
                            });
                            let p3 = prefix.clone();
                            let budget = 16 * prefix.len() + 64;
                            let async_ok = catch(move || {
                                let (reader, _stats) = ScriptedReader::new(p3, vec![Step::Chunk(3), Step::Pending, Step::Chunk(2)]);
                                with_async_reader!(pk, reader, |p| block_on(async { pilota::thrift::ApplicationException::decode_async(&mut p).await.is_ok() }, budget))
                            });
                            let verdict = match (sync_ok, async_ok) {
                                (Err(p), _) | (_, Err(p)) => Some(Fail::new(&format!("appex-prefix-panic-{:?}", pk), format!("{:?}: decoding a prefix of a TApplicationException panicked: {}", pk, p))),
                                (Ok(true), _) => Some(Fail::new(&format!("appex-prefix-accepted-{:?}", pk), format!("{:?}: the first {} of {} bytes of the TApplicationException {:?} were accepted as a complete exception (in memory)", pk, cut, data.len(), sv))),
                                (_, Ok(Ok(true))) => Some(Fail::new(&format!("appex-prefix-accepted-async-{:?}", pk), format!("{:?}: the first {} of {} bytes of the TApplicationException {:?} were accepted as a complete exception (async)", pk, cut, data.len(), sv))),
                                (_, Ok(Err(_))) => Some(Fail::new(&format!("hang:async-{:?}-appex-prefix", pk), format!("{:?}: async decode of a {}-byte prefix did not finish within {} polls", pk, cut, budget))),
                                _ => None,
                            };
                            if let Some(f) = verdict {
                                if reported.insert(f.key.clone()) && !ctx.findings.is_open("C09", &f.key) {
                                    report(ctx, &rec, "appex-prefix", &json!({"pk": format!("{:?}", pk), "hex": vcore::tval::hex(&prefix)}), &f);
                                }
                            }
                        }
                    }
                }
            }
        }
    }
    if rec.borrow().violations.is_empty() {
        if let Some(c) = require_classes(&rec, &["random bytes", "truncation", "bit flip", "overwrite MinusOne", "overwrite RemPlus1", "overwrite I32Max", "overwrite U32Max", "type byte", "envelope"]) {
            rec.borrow().finish(&ctx.findings);
            return c;
        }
    }
    let gen = crate::genpipe::merge_gen_part(ctx, &rec, "C09");
    let own = rec.borrow().finish(&ctx.findings);
    crate::genpipe::combine(own, gen)
}

//! C03 Thrift wire format conforms to the Apache protocol specs (interop with an independent
//! reference codec, both directions, all spec-legal alternative forms, exhaustive type codes).
use crate::c01::arb_item;
use crate::common::*;
use crate::Ctx;
use bytes::Bytes;
use pilota::thrift::{Message, TInputProtocol, TType};
use proptest::prelude::*;
use serde::{Deserialize, Serialize};
use serde_json::json;
use vcore::ensure;
use vcore::evidence::{catch, run_prop, Fail, PResult};
use vcore::refthrift::{Dec, Enc, Proto, Variant};
use vcore::shrink::Shrink;
use vcore::tval::{arb_any, shape_of, GenCfg, TVal, TT};
use vrt::codec::*;
use vrt::interp::ReadOpts;
use vrt::with_reader;

const PKS: [PKind; 3] = [PKind::Binary, PKind::Compact, PKind::Unsafe];

#[derive(Clone, Debug, Serialize, Deserialize, Hash)]
pub struct Case {
    pub item: Item,
    pub utf8: bool,
    pub flavor: u8,
    pub long_headers: bool,
    pub binary_true: u8,
    /// compact container headers announce bool as 2 (the specification's BOOL) instead of 1
    #[serde(default)]
    pub bool_elem2: bool,
}

impl Shrink for Case {
    fn candidates(&self) -> Vec<Case> {
        let mut out = vec![];
        match &self.item {
            Item::Val(v) => {
                for c in v.candidates() {
                    out.push(Case { item: Item::Val(c), ..self.clone() });
                }
            }
            Item::Msg { name, mtype, seq, body } => {
                out.push(Case { item: Item::Val(body.clone()), ..self.clone() });
                for c in vcore::shrink::same_type_candidates(body) {
                    out.push(Case {
                        item: Item::Msg { name: name.clone(), mtype: *mtype, seq: *seq, body: c },
                        ..self.clone()
                    });
                }
                if name != "m" || *seq != 0 {
                    out.push(Case {
                        item: Item::Msg { name: "m".into(), mtype: *mtype, seq: 0, body: body.clone() },
                        ..self.clone()
                    });
                }
            }
        }
        if self.long_headers || self.binary_true != 1 || self.flavor != 0 {
            out.push(Case { long_headers: false, binary_true: 1, flavor: 0, ..self.clone() });
        }
        if self.bool_elem2 {
            out.push(Case { bool_elem2: false, ..self.clone() });
        }
        out
    }
}

pub fn arb_case() -> BoxedStrategy<Case> {
    (any::<bool>(), 0u32..=4)
        .prop_flat_map(|(utf8, depth)| {
            let cfg = GenCfg { utf8, ..GenCfg::default() };
            (
                arb_item(depth, cfg),
                Just(utf8),
                any::<u8>(),
                any::<bool>(),
                prop_oneof![Just(1u8), 1u8..=255],
                any::<bool>(),
            )
        })
        .prop_map(|(item, utf8, flavor, long_headers, binary_true, bool_elem2)| Case { item, utf8, flavor, long_headers, binary_true, bool_elem2 })
        .boxed()
}

fn ref_encode_item(proto: Proto, variant: Variant, it: &Item) -> Vec<u8> {
    let mut e = Enc::new(proto, variant);
    if let Item::Msg { name, mtype, seq, .. } = it {
        e.message_begin(name.as_bytes(), *mtype, *seq);
    }
    e.value(it.val());
    e.out
}

pub fn check_case(c: &Case) -> PResult {
    let want = Want { tt: c.item.val().tt(), envelope: matches!(c.item, Item::Msg { .. }) };
    for pk in PKS {
        let proto = pk.ref_proto();
        // A) pilota -> reference, through every output buffer kind (each has a writer of its own)
        for bk in ALL_BK {
            let out = match catch(|| write_items(pk, bk, std::slice::from_ref(&c.item), c.flavor)) {
                Err(p) => return Err(Fail::new(&format!("write-panic-{:?}", pk), format!("{:?}: writer panicked: {}", pk, p))),
                Ok(Err(e)) => return Err(Fail::new(&format!("write-error-{:?}", pk), format!("{:?}: {}", pk, e))),
                Ok(Ok(o)) => o,
            };
            let mut d = Dec::new(proto, &out.bytes);
            if let Item::Msg { name, mtype, seq, .. } = &c.item {
                match d.message_begin() {
                    Ok((n, t, s)) => ensure!(
                        n == name.as_bytes() && t == *mtype && s == *seq,
                        &format!("envelope-out-{:?}", pk),
                        "{:?}: reference decoder read envelope ({:?},{},{}) from pilota's bytes {}, expected ({:?},{},{})",
                        pk, String::from_utf8_lossy(&n), t, s, vcore::tval::hex(&out.bytes[..out.bytes.len().min(48)]), name, mtype, seq
                    ),
                    Err(e) => return Err(Fail::new(&format!("envelope-out-{:?}", pk), format!("{:?}: reference decoder rejects pilota's envelope: {} bytes={}", pk, e, vcore::tval::hex(&out.bytes[..out.bytes.len().min(48)])))),
                }
            }
            match d.value(want.tt) {
                Ok(v) => {
                    ensure!(
                        v.normalized() == c.item.val().normalized(),
                        &format!("ref-decodes-different-{:?}", pk),
                        "{:?}: reference decoder recovers a different value from pilota's bytes\n wrote {:?}\n ref   {:?}",
                        pk, c.item.val(), v
                    );
                    ensure!(d.pos == out.bytes.len(), &format!("ref-trailing-{:?}", pk), "{:?}: pilota wrote {} bytes, the value occupies {}", pk, out.bytes.len(), d.pos);
                }
                Err(e) => return Err(Fail::new(&format!("ref-rejects-{:?}", pk), format!("{:?}: reference decoder rejects pilota's bytes: {}\n value {:?}\n bytes {}", pk, e, c.item.val(), vcore::tval::hex(&out.bytes[..out.bytes.len().min(64)])))),
            }
        }
        // B) reference -> pilota, in every spec-legal alternative form
        let variant = Variant { long_field_headers: c.long_headers, binary_true: c.binary_true, bool_elem_code: if c.bool_elem2 { 2 } else { 1 } };
        let bytes = ref_encode_item(proto, variant, &c.item);
        let ro = ReadOpts { flavor: c.flavor, utf8: c.utf8, max_depth: 200 };
        let rd = match catch(|| read_items(pk, &bytes, &[want], ro)) {
            Err(p) => return Err(Fail::new(&format!("read-panic-{:?}", pk), format!("{:?}: reader panicked on reference bytes: {}", pk, p))),
            Ok(r) => r,
        };
        match &rd.items[0] {
            Ok(ReadItem::Val(v)) => ensure!(
                v.normalized() == c.item.val().normalized(),
                &format!("pilota-decodes-different-{:?}", pk),
                "{:?}: pilota reads a different value from reference bytes\n ref wrote {:?}\n pilota    {:?}",
                pk, c.item.val(), v
            ),
            Ok(ReadItem::Msg { name, mtype, seq, body }) => {
                if let Item::Msg { name: n0, mtype: t0, seq: s0, body: b0 } = &c.item {
                    ensure!(
                        name == n0.as_bytes() && mtype == t0 && seq == s0,
                        &format!("envelope-in-{:?}", pk),
                        "{:?}: pilota read envelope ({:?},{},{}) expected ({:?},{},{})",
                        pk, String::from_utf8_lossy(name), mtype, seq, n0, t0, s0
                    );
                    ensure!(body.normalized() == b0.normalized(), &format!("pilota-decodes-different-{:?}", pk), "{:?}: body differs", pk);
                }
            }
            Err(e) => return Err(Fail::new(&format!("pilota-rejects-{:?}", pk), format!("{:?}: pilota rejects reference bytes: {}\n value {:?}\n variant {:?}", pk, e, c.item.val(), variant))),
        }
        ensure!(rd.consumed[0] == bytes.len(), &format!("pilota-consumed-{:?}", pk), "{:?}: pilota consumed {} of {} reference bytes", pk, rd.consumed[0], bytes.len());
    }
    Ok(())
}

// ------------------------------------------------------------------------------------------
// exhaustive enumerations

/// After `read_*_begin` accepted an out-of-spec type code, reading a value of that type must fail.
fn must_reject<P: TInputProtocol>(p: &mut P, r: Result<TType, pilota::thrift::ThriftException>) -> Result<(), String> {
    match r {
        Err(_) => Ok(()),
        Ok(t) => match p.skip(t) {
            Err(_) => Ok(()),
            Ok(n) => Err(format!("type {:?} accepted and skipped {} bytes", t, n)),
        },
    }
}

fn exhaustive_type_codes(rec: &std::cell::RefCell<vcore::evidence::Recorder>) -> Vec<(String, String)> {
    let mut fails = vec![];
    let pad = vec![0u8; 64];
    let mut note = |rec: &std::cell::RefCell<vcore::evidence::Recorder>, what: &str, code: u16| {
        let mut r = rec.borrow_mut();
        r.case(fp(&(what, code)), true, || json!(format!("type-code {} = {:#04x}", what, code)));
        r.class("enumerated type code");
    };
    // binary-family: field header, list elem, set elem, map key, map value
    for pk in [PKind::Binary, PKind::BinaryLe, PKind::Unsafe] {
        for c in 0u16..=255 {
            let c8 = c as u8;
            let valid = TT::from_code(c8).is_some();
            for pos in ["field", "list", "set", "mapk", "mapv"] {
                note(rec, &format!("{:?}-{}", pk, pos), c);
                if valid || (pos == "field" && c8 == 0) {
                    continue; // valid codes are exercised with real values by the generated part
                }
                let one: [u8; 4] = if pk == PKind::BinaryLe { 1i32.to_le_bytes() } else { 1i32.to_be_bytes() };
                let mut data: Vec<u8> = match pos {
                    "field" => vec![c8, 0, 1],
                    "list" | "set" => [vec![c8], one.to_vec()].concat(),
                    "mapk" => [vec![c8, 8], one.to_vec()].concat(),
                    _ => [vec![8, c8], one.to_vec()].concat(),
                };
                data.extend_from_slice(&pad);
                let mut bytes = Bytes::from(data);
                let r = catch(|| {
                    with_reader!(pk, &mut bytes, |p| {
                        match pos {
                            "field" => {
                                let _ = p.read_struct_begin();
                                let r = p.read_field_begin().map(|f| f.field_type);
                                must_reject(&mut p, r)
                            }
                            "list" => {
                                let r = p.read_list_begin().map(|l| l.element_type);
                                must_reject(&mut p, r)
                            }
                            "set" => {
                                let r = p.read_set_begin().map(|l| l.element_type);
                                must_reject(&mut p, r)
                            }
                            "mapk" => {
                                let r = p.read_map_begin().map(|l| l.key_type);
                                must_reject(&mut p, r)
                            }
                            _ => {
                                let r = p.read_map_begin().map(|l| l.value_type);
                                must_reject(&mut p, r)
                            }
                        }
                    })
                });
                match r {
                    Ok(Ok(())) => {}
                    Ok(Err(m)) => fails.push((format!("type-code-accepted-{:?}", pk), format!("{:?} {} position, code {}: {}", pk, pos, c8, m))),
                    Err(p) => fails.push((format!("type-code-panic-{:?}", pk), format!("{:?} {} position, code {}: panic {}", pk, pos, c8, p))),
                }
            }
        }
    }
    // compact: field header byte (all 256: delta nibble x type nibble), list/set header, map type byte
    for c in 0u16..=255 {
        let c8 = c as u8;
        for pos in ["field", "list", "set", "map"] {
            note(rec, &format!("compact-{}", pos), c);
            let (invalid, mut data): (bool, Vec<u8>) = match pos {
                "field" => {
                    let t = c8 & 0x0f;
                    // (type nibble 0 with a non-zero delta is read as STOP by several Apache
                    // implementations as well; the property does not fix it, so it is not asserted)
                    let inv = t > 13;
                    // long form (delta 0) needs a zigzag id
                    (inv, if c8 >> 4 == 0 { vec![c8, 2] } else { vec![c8] })
                }
                "list" | "set" => {
                    let t = c8 & 0x0f;
                    let inv = t == 0 || t > 13;
                    // make sure at least one element is announced
                    let hdr = if c8 >> 4 == 0 { (1 << 4) | t } else { c8 };
                    (inv, if hdr >> 4 == 15 { vec![hdr, 1] } else { vec![hdr] })
                }
                _ => {
                    let (k, v) = (c8 >> 4, c8 & 0x0f);
                    let inv = k == 0 || k > 13 || v == 0 || v > 13;
                    (inv, vec![1, c8])
                }
            };
            if !invalid {
                continue;
            }
            data.extend_from_slice(&pad);
            let mut bytes = Bytes::from(data);
            let r = catch(|| {
                let mut p = pilota::thrift::compact::TCompactInputProtocol::new(&mut bytes);
                match pos {
                    "field" => {
                        let _ = p.read_struct_begin();
                        let r = p.read_field_begin().map(|f| f.field_type);
                        match r {
                            Ok(TType::Stop) => Err("accepted as STOP".to_string()),
                            r => must_reject(&mut p, r),
                        }
                    }
                    "list" => {
                        let r = p.read_list_begin().map(|l| l.element_type);
                        must_reject(&mut p, r)
                    }
                    "set" => {
                        let r = p.read_set_begin().map(|l| l.element_type);
                        must_reject(&mut p, r)
                    }
                    _ => match p.read_map_begin() {
                        Err(_) => Ok(()),
                        Ok(m) => {
                            let k = p.skip(m.key_type);
                            let v = if k.is_ok() { p.skip(m.value_type).map(|_| ()) } else { Ok(()) };
                            if k.is_ok() && v.is_ok() {
                                Err(format!("map types {:?}/{:?} accepted and skipped", m.key_type, m.value_type))
                            } else {
                                Ok(())
                            }
                        }
                    },
                }
            });
            match r {
                Ok(Ok(())) => {}
                Ok(Err(m)) => fails.push(("type-code-accepted-Compact".to_string(), format!("compact {} header {:#04x}: {}", pos, c8, m))),
                Err(p) => fails.push(("type-code-panic-Compact".to_string(), format!("compact {} header {:#04x}: panic {}", pos, c8, p))),
            }
        }
    }
    fails
}

fn exhaustive_small_ints(rec: &std::cell::RefCell<vcore::evidence::Recorder>) -> Vec<(String, String)> {
    let mut fails = vec![];
    let mut vals: Vec<TVal> = vec![];
    for x in i8::MIN..=i8::MAX {
        vals.push(TVal::I8(x));
    }
    for x in i16::MIN..=i16::MAX {
        vals.push(TVal::I16(x));
        // as a field id, and as a long list (count) when positive and small
        vals.push(TVal::Struct(vec![(x, TVal::I8(1))]));
    }
    for k in 0..63u32 {
        for d in [-1i128, 0, 1] {
            for neg in [false, true] {
                let b = (1i128 << k) + d;
                let b = if neg { -b } else { b };
                if b >= i64::MIN as i128 && b <= i64::MAX as i128 {
                    vals.push(TVal::I64(b as i64));
                }
                if b >= i32::MIN as i128 && b <= i32::MAX as i128 {
                    vals.push(TVal::I32(b as i32));
                    // sequence ids go through a different (non-zigzag) varint path
                }
            }
        }
    }
    vals.extend([TVal::I32(i32::MIN), TVal::I32(i32::MAX), TVal::I64(i64::MIN), TVal::I64(i64::MAX)]);
    // collection sizes around the short/long-form boundary
    for n in [0usize, 1, 14, 15, 16, 127, 128, 129, 300] {
        vals.push(TVal::List(TT::I8, vec![TVal::I8(7); n]));
        vals.push(TVal::Map(TT::I8, TT::Bool, vec![(TVal::I8(1), TVal::Bool(true)); n]));
    }
    for v in vals {
        let c = Case { item: Item::Val(v.clone()), utf8: true, flavor: 0, long_headers: false, binary_true: 1, bool_elem2: false };
        {
            let mut r = rec.borrow_mut();
            r.case(fp(&c), true, || json!(format!("{:?}", v)));
            r.class("enumerated integer / boundary");
        }
        if let Err(f) = check_case(&c) {
            fails.push((f.key, f.msg));
            if fails.len() > 3 {
                break;
            }
        }
    }
    // every i32 boundary as a sequence id
    for k in 0..32u32 {
        for d in [-1i64, 0, 1] {
            for neg in [false, true] {
                let b = (1i64 << k) + d;
                let b = if neg { -b } else { b };
                if b < i32::MIN as i64 || b > i32::MAX as i64 {
                    continue;
                }
                let c = Case {
                    item: Item::Msg { name: "m".into(), mtype: 1 + (k % 4) as u8, seq: b as i32, body: TVal::Struct(vec![]) },
                    utf8: true,
                    flavor: 0,
                    long_headers: false,
                    binary_true: 1,
                    bool_elem2: false,
                };
                {
                    let mut r = rec.borrow_mut();
                    r.case(fp(&c), true, || json!(format!("seqid {}", b)));
                    r.class("enumerated sequence id");
                }
                if let Err(f) = check_case(&c) {
                    fails.push((f.key, f.msg));
                }
            }
        }
    }
    fails
}

// ------------------------------------------------------------------------------------------
// TApplicationException

#[derive(Clone, Debug, Serialize, Deserialize, Hash)]
pub struct AppExCase {
    pub kind: i32,
    pub msg: String,
    pub kind_first: bool,
    pub extra: Option<(i16, TVal)>,
}

impl Shrink for AppExCase {
    fn candidates(&self) -> Vec<Self> {
        let mut out = vec![];
        if self.extra.is_some() {
            out.push(AppExCase { extra: None, ..self.clone() });
        }
        if let Some((id, v)) = &self.extra {
            for c in v.candidates() {
                out.push(AppExCase { extra: Some((*id, c)), ..self.clone() });
            }
        }
        if !self.msg.is_empty() {
            out.push(AppExCase { msg: String::new(), ..self.clone() });
        }
        if self.kind != 0 {
            out.push(AppExCase { kind: 0, ..self.clone() });
        }
        if self.kind_first {
            out.push(AppExCase { kind_first: false, ..self.clone() });
        }
        out
    }
}

fn check_appex(c: &AppExCase) -> PResult {
    use pilota::thrift::{ApplicationException, ApplicationExceptionKind};
    let mut fields = vec![(1i16, TVal::Binary(c.msg.clone().into_bytes())), (2i16, TVal::I32(c.kind))];
    if c.kind_first {
        fields.swap(0, 1);
    }
    if let Some((id, v)) = &c.extra {
        fields.push((*id, v.clone()));
    }
    let sv = TVal::Struct(fields);
    for pk in [PKind::Binary, PKind::BinaryLe, PKind::Compact] {
        let proto = pk.ref_proto();
        let data = vcore::refthrift::encode(proto, &sv);
        let mut bytes = Bytes::from(data.clone());
        let r = catch(|| with_reader!(pk, &mut bytes, |p| ApplicationException::decode(&mut p)));
        match r {
            Err(p) => return Err(Fail::new(&format!("appex-panic-{:?}", pk), format!("{:?}: decode panicked: {} on {:?}", pk, p, sv))),
            Ok(Err(e)) => return Err(Fail::new(&format!("appex-rejected-{:?}", pk), format!("{:?}: decode failed: {:?} on {:?}", pk, e, sv))),
            Ok(Ok(ex)) => {
                ensure!(
                    ex.kind().as_i32() == c.kind && ex.message().as_str() == c.msg,
                    &format!("appex-differs-{:?}", pk),
                    "{:?}: decoded ({}, {:?}) from standard struct {:?}",
                    pk, ex.kind().as_i32(), ex.message(), sv
                );
            }
        }
        ensure!(bytes.is_empty(), &format!("appex-consumed-{:?}", pk), "{:?}: {} bytes left after decoding {:?}", pk, bytes.len(), sv);
        // encode -> reference decode gives the standard struct {1: message, 2: type}
        let ex = ApplicationException::new(ApplicationExceptionKind::from_i32(c.kind), c.msg.clone());
        let mut buf = bytes::BytesMut::new();
        let r = catch(|| vrt::with_writer!(pk, &mut buf, |p| ex.encode(&mut p)));
        match r {
            Ok(Ok(())) => {}
            o => return Err(Fail::new(&format!("appex-encode-{:?}", pk), format!("{:?}: encode failed {:?}", pk, o.map(|r| r.map_err(|e| format!("{:?}", e)))))),
        }
        match vcore::refthrift::decode(proto, TT::Struct, &buf) {
            Ok((TVal::Struct(fs), n)) => {
                let mut m: Vec<(i16, TVal)> = fs;
                m.sort_by_key(|(i, _)| *i);
                ensure!(
                    n == buf.len() && m == vec![(1, TVal::Binary(c.msg.clone().into_bytes())), (2, TVal::I32(c.kind))],
                    &format!("appex-wire-{:?}", pk),
                    "{:?}: encoding reference-decodes to {:?}",
                    pk, m
                );
            }
            o => return Err(Fail::new(&format!("appex-wire-{:?}", pk), format!("{:?}: encoding does not reference-decode: {:?}", pk, o))),
        }
    }
    Ok(())
}

pub fn run(ctx: &Ctx) -> i32 {
    vcore::evidence::quiet_panics();
    let rec = new_rec(ctx, "C03");
    {
        let mut r = rec.borrow_mut();
        r.rule = "generated: value tree or envelope+struct, encoded by pilota (binary, compact, unchecked) and decoded by the reference decoder, and encoded by the reference encoder in a randomly chosen spec-legal variant (long-form compact headers, any non-zero binary true byte) and decoded by pilota; non-trivial = tree contains a double, a container or a map, or is an enumerated boundary case; enumerated exhaustively: all 256 type bytes in every type position of every protocol, every i8, every i16 as value and as field id, 2^k+-1 boundaries of i32/i64/seqid, collection sizes around 15".into();
        r.assumptions = vec![
            "reference codecs written from thrift-binary-protocol.md / thrift-compact-protocol.md (compact doubles little-endian)".into(),
            "an out-of-spec type code counts as rejected when read_*_begin or the following skip returns Err".into(),
        ];
        r.exhaustive_parts = vec!["type codes 0..=255 x positions x protocols".into(), "all i8".into(), "all i16 (value and field id)".into()];
    }
    if let Some(rp) = &ctx.replay {
        let sub = rp["case"]["sub"].as_str().unwrap_or("");
        let res = if sub == "appex" {
            check_appex(&serde_json::from_value(rp["case"]["case"].clone()).expect("replay case"))
        } else if sub == "interop" {
            check_case(&serde_json::from_value(rp["case"]["case"].clone()).expect("replay case"))
        } else {
            println!("replay of enumerated sub-check: re-running the enumeration");
            Ok(())
        };
        return match res {
            Ok(()) => {
                println!("replay: property holds on this case");
                0
            }
            Err(f) => {
                println!("VIOLATION property=C03 replay={}", ctx.args.first().cloned().unwrap_or_default());
                println!("  key={} {}", f.key, f.msg);
                1
            }
        };
    }
    // enumerations
    let mut enum_fails = exhaustive_type_codes(&rec);
    enum_fails.extend(exhaustive_small_ints(&rec));
    let mut seen = std::collections::BTreeSet::new();
    for (key, msg) in enum_fails {
        if seen.insert(key.clone()) {
            report(ctx, &rec, "enumerated", &json!({"what": msg}), &Fail::new(&key, msg.clone()));
        }
    }
    // generated
    let cases = ctx.tier.pick(100_000, 2_000_000);
    let res = run_prop(&rec, "c03", cases, arb_case(), |c: &Case| {
        {
            let mut r = rec.borrow_mut();
            let s = shape_of(c.item.val());
            r.case(fp(c), s.has_double || s.has_container || s.has_map, || json!(format!("{:?} variant(long={}, true={})", c.item, c.long_headers, c.binary_true)));
            r.class_if(s.has_double, "double");
            r.class_if(s.has_map, "map");
            r.class_if(s.empty_map, "empty map");
            r.class_if(s.bool_field, "bool field");
            r.class_if(s.bool_elem, "bool element");
            r.class_if(c.long_headers, "long-form headers forced");
            r.class_if(c.binary_true != 1, "non-1 true byte");
            r.class_if(matches!(c.item, Item::Msg { .. }), "envelope");
            r.class_if(s.long_collection, "collection >= 15");
        }
        check_case(c)
    });
    if let Some((case, f)) = res {
        report(ctx, &rec, "interop", &case, &f);
    }
    let appex = (
        prop_oneof![0i32..=12, vcore::tval::arb_i32()],
        "[ -~\u{e9}]{0,40}",
        any::<bool>(),
        prop::option::of((3i16..200, arb_any(2, GenCfg { utf8: true, ..GenCfg::default() }))),
    )
        .prop_map(|(kind, msg, kind_first, extra)| AppExCase { kind, msg, kind_first, extra });
    let res = run_prop(&rec, "c03-appex", ctx.tier.pick(5_000, 100_000), appex, |c: &AppExCase| {
        {
            let mut r = rec.borrow_mut();
            r.case(fp(c), true, || json!(format!("{:?}", c)));
            r.class("application exception");
            r.class_if(c.extra.is_some(), "application exception with unknown field");
            r.class_if(c.kind_first, "application exception fields swapped");
        }
        check_appex(c)
    });
    if let Some((case, f)) = res {
        report(ctx, &rec, "appex", &case, &f);
    }
    if rec.borrow().violations.is_empty() {
        if let Some(c) = require_classes(&rec, &["double", "empty map", "bool field", "bool element", "long-form headers forced", "non-1 true byte", "envelope", "application exception with unknown field"]) {
            rec.borrow().finish(&ctx.findings);
            return c;
        }
    }
    let code = rec.borrow().finish(&ctx.findings);
    code
}

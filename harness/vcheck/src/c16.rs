//! C16 Thrift IDL parser is total on arbitrary text.
use crate::common::*;
use crate::Ctx;
use pilota_thrift_parser as tp;
use pilota_thrift_parser::parser::Parser;
use proptest::prelude::*;
use serde::{Deserialize, Serialize};
use serde_json::json;
use vcore::evidence::{catch, run_prop_noshrink, Fail, PResult};
use vcore::shrink::{minimize, Shrink};
use vcore::tsyn::*;

#[derive(Clone, Debug, Serialize, Deserialize, Hash)]
pub struct Case {
    pub text: String,
    pub origin: String,
}

impl Shrink for Case {
    fn candidates(&self) -> Vec<Case> {
        let mut out = vec![];
        let chars: Vec<char> = self.text.chars().collect();
        let n = chars.len();
        let mk = |v: &[char]| Case { text: v.iter().collect(), origin: self.origin.clone() };
        if n > 1 {
            out.push(mk(&chars[..n / 2]));
            out.push(mk(&chars[n / 2..]));
        }
        // drop blocks, then single characters
        let mut block = n / 4;
        while block >= 1 {
            let mut i = 0;
            while i + block <= n && out.len() < 400 {
                let mut v = chars.clone();
                v.drain(i..i + block);
                out.push(mk(&v));
                i += block;
            }
            if block == 1 {
                break;
            }
            block /= 2;
        }
        out
    }
}

/// Enforce the property's precondition: nesting (brackets of any kind) no deeper than 64. A run
/// of signs, separators, comments or declarations is not nesting and is not capped.
pub fn cap_nesting(s: &str, cap: usize) -> String {
    let mut depth = 0usize;
    let mut out = String::with_capacity(s.len());
    for ch in s.chars() {
        match ch {
            '[' | '{' | '<' | '(' => {
                if depth < cap {
                    depth += 1;
                    out.push(ch);
                }
            }
            ']' | '}' | '>' | ')' => {
                depth = depth.saturating_sub(1);
                out.push(ch);
            }
            c => out.push(c),
        }
    }
    out
}

#[derive(Debug, Clone, PartialEq)]
enum Tok {
    Word(String),
    Num(String),
    Str(String),
    Comment(String),
    Punct(char),
    Space(String),
}

fn lex(s: &str) -> Vec<Tok> {
    let cs: Vec<char> = s.chars().collect();
    let mut i = 0;
    let mut out = vec![];
    while i < cs.len() {
        let c = cs[i];
        if c.is_whitespace() {
            let st = i;
            while i < cs.len() && cs[i].is_whitespace() {
                i += 1;
            }
            out.push(Tok::Space(cs[st..i].iter().collect()));
        } else if c.is_ascii_alphabetic() || c == '_' {
            let st = i;
            while i < cs.len() && (cs[i].is_ascii_alphanumeric() || cs[i] == '_' || cs[i] == '.') {
                i += 1;
            }
            out.push(Tok::Word(cs[st..i].iter().collect()));
        } else if c.is_ascii_digit() {
            let st = i;
            while i < cs.len() && (cs[i].is_ascii_alphanumeric() || cs[i] == '.') {
                i += 1;
            }
            out.push(Tok::Num(cs[st..i].iter().collect()));
        } else if c == '"' || c == '\'' {
            let st = i;
            i += 1;
            while i < cs.len() && cs[i] != c {
                i += 1;
            }
            i = (i + 1).min(cs.len());
            out.push(Tok::Str(cs[st..i].iter().collect()));
        } else if c == '#' || (c == '/' && i + 1 < cs.len() && cs[i + 1] == '/') {
            let st = i;
            while i < cs.len() && cs[i] != '\n' {
                i += 1;
            }
            out.push(Tok::Comment(cs[st..i].iter().collect()));
        } else if c == '/' && i + 1 < cs.len() && cs[i + 1] == '*' {
            let st = i;
            i += 2;
            while i + 1 < cs.len() && !(cs[i] == '*' && cs[i + 1] == '/') {
                i += 1;
            }
            i = (i + 2).min(cs.len());
            out.push(Tok::Comment(cs[st..i].iter().collect()));
        } else {
            out.push(Tok::Punct(c));
            i += 1;
        }
    }
    out
}

fn unlex(ts: &[Tok]) -> String {
    let mut s = String::new();
    for t in ts {
        match t {
            Tok::Word(w) | Tok::Num(w) | Tok::Str(w) | Tok::Comment(w) | Tok::Space(w) => s.push_str(w),
            Tok::Punct(c) => s.push(*c),
        }
    }
    s
}

#[derive(Clone, Debug)]
enum Mutation {
    Delete(u16),
    Duplicate(u16),
    Swap(u16),
    Keyword(u16, u8),
    Inflate(u16, u8, u8),
    Unterminate(u16),
    Insert(u16, String),
    /// put a fragment inside a token (a string literal, a number, a comment, a name)
    Poke(u16, u16, u8),
    /// repeat a bracket-free token (or a few consecutive ones) many times: a long run, not nesting
    Run(u16, u8, u8, u8),
}

const OPENERS: [char; 4] = ['<', '[', '{', '('];
/// How often a unit is repeated, bounded so that the document stays within 64 KiB.
fn run_count(class: u8, unit_len: usize, rest_len: usize) -> usize {
    let want = match class % 8 {
        0..=2 => 100,
        3..=5 => 1000,
        6 => 4000,
        _ => 20000,
    };
    want.min(65536usize.saturating_sub(rest_len) / unit_len.max(1))
}

fn arb_mutation() -> BoxedStrategy<Mutation> {
    let one = prop_oneof![
        any::<u16>().prop_map(Mutation::Delete),
        any::<u16>().prop_map(Mutation::Duplicate),
        any::<u16>().prop_map(Mutation::Swap),
        (any::<u16>(), any::<u8>()).prop_map(|(i, k)| Mutation::Keyword(i, k)),
        (any::<u16>(), 1u8..=40, 0u8..10).prop_map(|(i, n, d)| Mutation::Inflate(i, n, d)),
        any::<u16>().prop_map(Mutation::Unterminate),
        (any::<u16>(), "[-0-9a-fx.eE+:;,=<>(){}\\[\\]\"'/*# \\\\\u{e9}\u{4e2d}]{1,6}").prop_map(|(i, s)| Mutation::Insert(i, s)),
    ]
    .boxed();
    prop_oneof![
        17 => one,
        2 => (any::<u16>(), any::<u16>(), any::<u8>()).prop_map(|(i, at, k)| Mutation::Poke(i, at, k)),
        1 => (any::<u16>(), 1u8..=3, any::<u8>(), 0u8..3).prop_map(|(i, span, class, sep)| Mutation::Run(i, span, class, sep)),
    ]
    .boxed()
}

fn mutate(text: &str, m: &Mutation) -> (String, &'static str) {
    let mut ts = lex(text);
    let solid: Vec<usize> = ts.iter().enumerate().filter(|(_, t)| !matches!(t, Tok::Space(_))).map(|(i, _)| i).collect();
    if solid.is_empty() {
        return (text.to_string(), "none");
    }
    let pick = |i: u16| solid[vcore::mutate::scale(i, solid.len())];
    let kind;
    match m {
        Mutation::Delete(i) => {
            ts.remove(pick(*i));
            kind = "delete token";
        }
        Mutation::Duplicate(i) => {
            let k = pick(*i);
            let t = ts[k].clone();
            ts.insert(k, Tok::Space(" ".into()));
            ts.insert(k, t);
            kind = "duplicate token";
        }
        Mutation::Swap(i) => {
            let a = vcore::mutate::scale(*i, solid.len());
            if a + 1 < solid.len() {
                ts.swap(solid[a], solid[a + 1]);
            }
            kind = "swap tokens";
        }
        Mutation::Keyword(i, k) => {
            ts[pick(*i)] = Tok::Word(KEYWORDS[*k as usize % KEYWORDS.len()].to_string());
            kind = "replace by keyword";
        }
        Mutation::Inflate(i, n, d) => {
            // inflate the nearest number token (or the picked token) to n digits
            let start = pick(*i);
            let k = (start..ts.len()).chain(0..start).find(|k| matches!(ts[*k], Tok::Num(_))).unwrap_or(start);
            let digits: String = std::iter::repeat(char::from(b'0' + (*d % 10).max(1))).take(*n as usize).collect();
            ts[k] = Tok::Num(digits);
            kind = "inflate number";
        }
        Mutation::Unterminate(i) => {
            let start = pick(*i);
            let k = (start..ts.len()).chain(0..start).find(|k| matches!(&ts[*k], Tok::Str(_)) || matches!(&ts[*k], Tok::Comment(c) if c.starts_with("/*")));
            if let Some(k) = k {
                match &ts[k] {
                    Tok::Str(s) if s.chars().count() >= 2 => {
                        let mut c: Vec<char> = s.chars().collect();
                        c.pop();
                        ts[k] = Tok::Str(c.into_iter().collect());
                    }
                    Tok::Comment(s) if s.ends_with("*/") => ts[k] = Tok::Comment(s[..s.len() - 2].to_string()),
                    _ => {}
                }
            }
            kind = "unterminate string/comment";
        }
        Mutation::Insert(i, s) => {
            ts.insert(pick(*i), Tok::Word(s.clone()));
            kind = "insert fragment";
        }
        Mutation::Poke(i, at, k) => {
            const FRAGS: [&str; 18] = ["\\", "\\\u{e9}", "\\\u{4e2d}", "\u{e9}", "\"", "'", "\\\"", "\n", "\u{1f600}\\", "\0", "-", "0x", "e", ".", "*/", "/*", "#", "\\\\"];
            let k_tok = pick(*i);
            let mut cs: Vec<char> = unlex(std::slice::from_ref(&ts[k_tok])).chars().collect();
            let pos = vcore::mutate::scale(*at, cs.len() + 1);
            for (j, c) in FRAGS[*k as usize % FRAGS.len()].chars().enumerate() {
                cs.insert(pos + j, c);
            }
            ts[k_tok] = Tok::Word(cs.into_iter().collect());
            kind = "poke inside a token";
        }
        Mutation::Run(i, span, class, sep) => {
            let k = pick(*i);
            let mut unit = String::new();
            for t in ts.iter().skip(k).take(*span as usize) {
                let piece = unlex(std::slice::from_ref(t));
                if piece.contains(OPENERS) {
                    break;
                }
                unit.push_str(&piece);
            }
            if unit.is_empty() {
                return (text.to_string(), "none");
            }
            // a '#' or '//' comment ends at the line end
            let sep = if unit.contains('#') || unit.contains("//") { "\n" } else { ["", " ", "\n"][*sep as usize % 3] };
            unit.push_str(sep);
            let n = run_count(*class, unit.len(), text.len());
            ts.insert(k, Tok::Word(unit.repeat(n)));
            kind = "token run";
        }
    }
    (unlex(&ts), kind)
}

fn arb_random_text() -> BoxedStrategy<String> {
    let alphabet = prop_oneof![
        6 => prop::sample::select(vec!["struct ", "union ", "enum ", "service ", "const ", "typedef ", "namespace rs ", "include ", "exception ", "list<", "map<", "set<", "i32 ", "string ", "1:", "2: optional ", "required ", "throws (", "oneway ", "void ", "extends ", "= ", "{", "}", "(", ")", "[", "]", "<", ">", ",", ";", ":", "\"", "'", "//", "/*", "*/", "#", "\n", " ", "-", "0x", "1e", ".", "true", "false", "cpp_type ", "*", "\\", "\\\"", "\\'", "\\n", "\u{e9}", "\u{4e2d}", "\u{1f600}", "+", "e", "E"]).prop_map(|s| s.to_string()),
        2 => "[a-zA-Z_][a-zA-Z0-9_]{0,6}",
        1 => "[0-9]{1,24}",
        1 => any::<char>().prop_map(|c| c.to_string()),
    ];
    prop_oneof![
        8 => prop::collection::vec(alphabet.clone(), 0..60).prop_map(|v| v.concat()),
        1 => prop::collection::vec(alphabet, 200..2000).prop_map(|v| v.concat()),
        1 => prop::collection::vec(any::<char>(), 0..64).prop_map(|v| v.into_iter().collect::<String>()),
    ]
    .boxed()
}

const LADDER_KINDS: [&str; 6] = ["list types", "map types", "set types", "list constants", "map constants", "annotated list types"];

fn ladder_doc(kind: usize, depth: usize) -> Case {
    let text = match kind {
        0 | 1 | 2 => {
            let mut t = String::from("i32");
            for _ in 0..depth {
                t = match kind {
                    0 => format!("list<{}>", t),
                    1 => format!("map<string, {}>", t),
                    _ => format!("set<{}>", t),
                };
            }
            format!("struct S {{ 1: {} f }}\ntypedef {} T\nservice X {{ {} m(1: {} a) }}", t, t, t, t)
        }
        3 | 4 => {
            let mut c = String::from("1");
            for _ in 0..depth {
                c = if kind == 3 { format!("[{}]", c) } else { format!("{{\"k\": {}}}", c) };
            }
            format!("const string C = {}\nstruct S {{ 1: i32 f = {} }}", c, c)
        }
        _ => {
            let mut t = String::from("i32 (a=\"b\")");
            for _ in 0..depth {
                t = format!("list<{}> (a = \"b\")", t);
            }
            format!("struct S {{ 1: {} f }}", t)
        }
    };
    Case { text, origin: format!("work ladder: {} depth {}", LADDER_KINDS[kind], depth) }
}

const RUN_CONTEXTS: [&str; 14] = [
    "@",
    "struct S { @ }",
    "enum E { @ }",
    "const list<i32> C = [ @ ]",
    "const i64 C = @1",
    "const double D = @1.5",
    "const map<i32, i32> M = { @ }",
    "struct S { 1: i32 f ( @ ) }",
    "service X { void m( @ ) }",
    "struct S { 1: i32 f = @1 }",
    "typedef @ i32 T",
    "enum E { A = @1 }",
    "struct S { @1: i32 f }",
    "service X { void m() throws ( @ ) }",
];
const RUN_UNITS: [&str; 50] = [
    "-", "+", "# c\n", "// c\n", "/* c */", "/**/", "/*", " ", "\n", "\t", ",", ";", ":", "=", ".", "1", "1,", "1:1,", "a", "a,", "a.", "A = 1,", "1: i32 f,", "1: i32 f;", "\"a\"", "\"a\",", "a = \"b\",", "'", "\"", "*", "/", "#", ">", "]", "}", ")", "0x", "1e", "e", "required ", "optional ", "oneway ", "const ", "i32 ", "\\", "\u{e9}", "include \"x\"\n",
    "namespace rs x\n", "typedef i32 T\n", "const i32 K = 1\n",
];

/// Every unit repeated `count` times in every context (bounded to 64 KiB of text).
fn run_docs(counts: &[usize]) -> Vec<Case> {
    let mut out = vec![];
    for ctx in RUN_CONTEXTS {
        for unit in RUN_UNITS {
            for count in counts {
                let n = (*count).min((65536 - ctx.len()) / unit.len());
                out.push(Case { text: ctx.replace('@', &unit.repeat(n)), origin: format!("run of {} x {:?} in {:?}", n, unit, ctx) });
            }
        }
    }
    out
}

fn nested_docs() -> Vec<Case> {
    let mut out = vec![];
    // integers at and around the borders of i64 / u64 / i32, in every position an integer may take
    for lit in ["9223372036854775807", "9223372036854775808", "-9223372036854775808", "-9223372036854775809", "--9223372036854775808", "---9223372036854775808", "18446744073709551615", "18446744073709551616", "0x7fffffffffffffff", "0x8000000000000000", "-0x8000000000000000", "-0x8000000000000001", "0xffffffffffffffff", "0x10000000000000000", "-0x0000000000000000008000000000000000", "2147483648", "-2147483649", "4294967296", "1.0e-9223372036854775808", "1e9223372036854775808", "1e-0x8000000000000000", "1e0xE", "1e0x1e", "2.5E0xEE", ".5e-0xfe", "1e0xe5", "1e0x", "1.e0x", "1e", "1e-", "1.5e+", "1e--2", "1e+-2", "-+1.5", "+-1.5", "+1", "0x", "-0x", "0xg", "1.", ".e1", "1..2", "1e1e1", "0x1p3", "1_000", "00", "-0", "-0.0", "1e0X10", "0X10"] {
        out.push(Case { text: format!("const i64 C = {}", lit), origin: format!("integer border {} as constant", lit) });
        out.push(Case { text: format!("enum E {{ A = {} }}", lit), origin: format!("integer border {} as enum value", lit) });
        out.push(Case { text: format!("struct S {{ 1: i64 f = {}, 2: list<i64> l = [{}, 1], 3: map<i64, i64> m = {{{}: {}}} }}", lit, lit, lit, lit), origin: format!("integer border {} in defaults", lit) });
        out.push(Case { text: format!("struct S {{ {}: i64 f }}", lit), origin: format!("integer border {} as field id", lit) });
        out.push(Case { text: format!("service X {{ void m(1: i64 a = {}) throws ({}: E e) }}", lit, lit), origin: format!("integer border {} in a function", lit) });
    }
    for depth in [1usize, 8, 32, 48, 60, 63, 64] {
        // types
        let mut t = String::from("i32");
        for i in 0..depth {
            t = match i % 3 {
                0 => format!("list<{}>", t),
                1 => format!("map<string, {}>", t),
                _ => format!("set<{}>", t),
            };
        }
        out.push(Case { text: format!("struct S {{ 1: {} f }}\ntypedef {} T", t, t), origin: format!("nested type depth {}", depth) });
        // constants
        let mut c = String::from("1");
        for i in 0..depth {
            c = if i % 2 == 0 { format!("[{}]", c) } else { format!("{{\"k\": {}}}", c) };
        }
        out.push(Case { text: format!("const string C = {}", c), origin: format!("nested constant depth {}", depth) });
        out.push(Case { text: format!("struct S {{ 1: i32 f = {} }}", c), origin: format!("nested default depth {}", depth) });
        // unary minus runs
        out.push(Case { text: format!("const i64 C = {}5", "-".repeat(depth)), origin: format!("minus run {}", depth) });
        out.push(Case { text: format!("enum E {{ A = {}5 }}", "-".repeat(depth)), origin: format!("minus run {}", depth) });
        // annotations on nested types
        let mut t = String::from("i32 (a=\"b\")");
        for _ in 0..depth {
            t = format!("list<{}> (a = \"b\")", t);
        }
        out.push(Case { text: format!("struct S {{ 1: {} f }}", t), origin: format!("nested annotated type depth {}", depth) });
        // unbalanced: depth opening brackets only
        out.push(Case { text: format!("const i32 C = {}", "[".repeat(depth)), origin: format!("unclosed brackets {}", depth) });
        out.push(Case { text: format!("typedef {} T", "list<".repeat(depth)), origin: format!("unclosed generics {}", depth) });
    }
    out
}

pub fn check_case(c: &Case) -> PResult {
    let text = c.text.clone();
    match catch(move || {
        let _ = tp::File::parse(&text);
    }) {
        Ok(()) => Ok(()),
        Err(p) => Err(Fail::new(&format!("panic:{}", vrt::total::panic_signature(&p)), format!("parser panicked: {}\n--- text ({})\n{}", p, c.origin, vcore::evidence::truncate(&c.text, 600)))),
    }
}

fn journal_path() -> std::path::PathBuf {
    vcore::evidence::verif_root().join("work").join("c16-journal.json")
}

fn child(ctx: &Ctx) -> i32 {
    vcore::evidence::quiet_panics();
    let rec = new_rec(ctx, "C16");
    {
        let mut r = rec.borrow_mut();
        r.rule = "input = random text over an IDL-biased alphabet (up to ~16 KiB, arbitrary Unicode included), a printed generated document with one token-level mutation (delete, duplicate, swap, replace by keyword, inflate a number to 1..40 digits, unterminate a string/comment, insert a punctuation fragment, poke a fragment - backslash, non-ASCII, quote - inside a token), or a hand-shaped nesting probe (types, constants, defaults, annotations, unclosed brackets at depth 1..64), or a token run (a bracket-free unit - sign, separator, comment, field, declaration, a token of a generated document - repeated 100..20000 times within 64 KiB, in every kind of position); bracket nesting is capped at 64 as the property states, a run is not nesting and is not capped; the whole run executes on a 2 MiB-stack thread in a child process; oracle: File::parse returns (Ok or Err) without panicking, the child does not die; non-trivial = mutant of a valid document or nesting probe".into();
        r.assumptions = vec!["a child death by signal is attributed to the input journaled immediately before the call".into()];
    }
    let journal = journal_path();
    let _ = std::fs::create_dir_all(journal.parent().unwrap());
    let jf = std::cell::RefCell::new(std::fs::OpenOptions::new().create(true).write(true).truncate(true).open(&journal).expect("journal"));
    let count = std::cell::Cell::new(0u64);
    let write_journal = |c: &Case| {
        use std::io::{Seek, Write};
        let mut f = jf.borrow_mut();
        let body = serde_json::to_vec(&json!({"n": count.get(), "case": c})).unwrap();
        let _ = f.seek(std::io::SeekFrom::Start(0));
        let _ = f.set_len(0);
        let _ = f.write_all(&body);
        count.set(count.get() + 1);
    };
    let run_one = |c: &Case, class: &str, nontrivial: bool| -> PResult {
        {
            let mut r = rec.borrow_mut();
            r.case(fp(c), nontrivial, || json!({"origin": c.origin, "text": vcore::evidence::truncate(&c.text, 300)}));
            r.class(class);
        }
        write_journal(c);
        check_case(c)
    };
    let mut seen = std::collections::BTreeSet::new();
    let mut handle = |case: Case, f: Fail, rec: &std::cell::RefCell<vcore::evidence::Recorder>| {
        if seen.insert(f.key.clone()) {
            let key = f.key.clone();
            rec.borrow_mut().freeze();
            let min = minimize(case, 3000, |c| matches!(check_case(c), Err(g) if g.key == key));
            rec.borrow_mut().unfreeze();
            let f2 = check_case(&min).err().unwrap_or(f);
            report(ctx, rec, "total", &min, &f2);
        }
    };
    // work ladder: the same construct nested 4, 8, .. 24 deep; the number of heap allocations
    // the parser performs (a deterministic, machine-independent measure of its work) must not
    // explode with the depth. A linear parser needs ~6x the work of depth 4 at depth 24, a
    // quadratic one ~36x; 150x is refused. The ladder stops at the first refusal, so a parser
    // that has become exponential is reported in milliseconds instead of hanging the probes below.
    let mut ladder_broken = false;
    for kind in 0..6usize {
        let mut base = 0usize;
        for depth in [4usize, 8, 12, 16, 20, 24] {
            let c = ladder_doc(kind, depth);
            write_journal(&c);
            {
                let mut r = rec.borrow_mut();
                r.case(fp(&c), true, || json!({"origin": c.origin, "text": vcore::evidence::truncate(&c.text, 200)}));
                r.class("work ladder");
            }
            let text = c.text.clone();
            let start = vrt::alloc::begin();
            let ok = catch(move || {
                let _ = tp::File::parse(&text);
            });
            let snap = vrt::alloc::end(start);
            if ok.is_err() {
                break; // a panic here is found and reported by the probes below
            }
            if depth == 4 {
                base = snap.allocs.max(8);
            } else if snap.allocs > 150 * base {
                let f = Fail::new(&format!("superlinear-work:{}", LADDER_KINDS[kind]), format!("parsing {} nested {} deep takes {} heap allocations, {} at depth 4: the work explodes with the nesting depth (the parser will not return on nesting the property allows)\n--- text\n{}", LADDER_KINDS[kind], depth, snap.allocs, base, vcore::evidence::truncate(&c.text, 400)));
                if !seen_or_known(ctx, &f.key) {
                    report(ctx, &rec, "total", &c, &f);
                }
                ladder_broken = true;
                break;
            }
        }
    }
    if ladder_broken {
        // the remaining probes nest up to 64 deep and would not come back
        return rec.borrow().finish(&ctx.findings);
    }
    // nesting probes
    for c in nested_docs() {
        if let Err(f) = run_one(&c, "nesting probe", true) {
            handle(c, f, &rec);
        }
    }
    // token runs: one bracket-free unit repeated thousands of times in every kind of position.
    // A run is not nesting, so the 2 MiB stack must hold whatever its length (up to 64 KiB of text).
    for c in run_docs(if ctx.tier.pick(0, 1) == 0 { &[3000usize, 60000][..] } else { &[300usize, 3000, 20000, 60000][..] }) {
        if let Err(f) = run_one(&c, "enumerated token run", true) {
            handle(c, f, &rec);
        }
    }
    let n = ctx.tier.pick(60_000, 2_000_000);
    // random text
    let res = run_prop_noshrink(&rec, "c16-random", n / 3, arb_random_text(), |t: &String| {
        let c = Case { text: cap_nesting(t, 64), origin: "random text".into() };
        let big = c.text.len() > 4096;
        match run_one(&c, if big { "random text > 4 KiB" } else { "random text" }, false) {
            Err(f) if seen_or_known(ctx, &f.key) => Ok(()),
            o => o,
        }
    });
    if let Some((t, f)) = res {
        handle(Case { text: cap_nesting(&t, 64), origin: "random text".into() }, f, &rec);
    }
    // mutants of valid documents (several rounds so one defect does not hide the next)
    let known: std::cell::RefCell<std::collections::BTreeSet<String>> = Default::default();
    for round in 0..6 {
        let strat = (arb_doc(round % 2 == 0), arb_layout(), prop::collection::vec(arb_mutation(), 1..3));
        let res = run_prop_noshrink(&rec, &format!("c16-mutants-{}", round), n / 9, strat, |(doc, layout, ms): &(Doc, Layout, Vec<Mutation>)| {
            let (mut text, _) = print(doc, layout);
            let mut kind = "none";
            for m in ms {
                let (t, k) = mutate(&text, m);
                text = t;
                kind = k;
            }
            let c = Case { text: cap_nesting(&text, 64), origin: format!("mutant: {}", kind) };
            match run_one(&c, kind, true) {
                Err(f) if known.borrow().contains(&f.key) || ctx.findings.is_open("C16", &f.key) => Ok(()),
                o => o,
            }
        });
        if let Some(((doc, layout, ms), f)) = res {
            known.borrow_mut().insert(f.key.clone());
            let (mut text, _) = print(&doc, &layout);
            for m in &ms {
                text = mutate(&text, m).0;
            }
            handle(Case { text: cap_nesting(&text, 64), origin: "mutant".into() }, f, &rec);
        }
    }
    if rec.borrow().violations.is_empty() {
        if let Some(c) = require_classes(&rec, &["nesting probe", "random text", "random text > 4 KiB", "delete token", "duplicate token", "swap tokens", "replace by keyword", "inflate number", "unterminate string/comment", "insert fragment", "poke inside a token", "token run", "enumerated token run"]) {
            rec.borrow().finish(&ctx.findings);
            return c;
        }
    }
    let code = rec.borrow().finish(&ctx.findings);
    code
}

fn seen_or_known(ctx: &Ctx, key: &str) -> bool {
    ctx.findings.is_open("C16", key)
}

pub fn run(ctx: &Ctx) -> i32 {
    if let Some(rp) = &ctx.replay {
        let case: Case = serde_json::from_value(rp["case"]["case"].clone()).expect("replay case");
        // replay in a 2 MiB thread as well
        let h = std::thread::Builder::new().stack_size(2 << 20).spawn(move || {
            vcore::evidence::quiet_panics();
            check_case(&case)
        });
        return match h.unwrap().join().unwrap() {
            Ok(()) => {
                println!("replay: property holds on this case");
                0
            }
            Err(f) => {
                println!("VIOLATION property=C16 replay={}", ctx.args.first().cloned().unwrap_or_default());
                println!("  key={} {}", f.key, f.msg);
                1
            }
        };
    }
    if ctx.args.iter().any(|a| a == "--child") {
        let tier = ctx.tier;
        let seed = ctx.seed;
        let h = std::thread::Builder::new()
            .stack_size(2 << 20)
            .spawn(move || {
                let ctx = Ctx { tier, seed, findings: vcore::findings::Findings::load(), replay: None, replay_path: None, args: vec![] };
                child(&ctx)
            })
            .unwrap();
        return h.join().unwrap_or(3);
    }
    let exe = std::env::current_exe().unwrap();
    let st = std::process::Command::new(exe).args(["C16", "--tier", ctx.tier.name(), "--child"]).status();
    match st {
        Err(e) => {
            eprintln!("INFRA: cannot spawn child: {}", e);
            2
        }
        Ok(s) => match s.code() {
            Some(c) if c <= 2 => c,
            other => {
                // the child died: attribute to the journaled input
                let rec = new_rec(ctx, "C16");
                let j: serde_json::Value = std::fs::read_to_string(journal_path()).ok().and_then(|t| serde_json::from_str(&t).ok()).unwrap_or(json!({}));
                let case: Case = serde_json::from_value(j["case"].clone()).unwrap_or(Case { text: String::new(), origin: "journal unreadable".into() });
                {
                    let mut r = rec.borrow_mut();
                    r.rule = "child process died; evidence reconstructed from the journal".into();
                    let n = j["n"].as_u64().unwrap_or(0);
                    for i in 0..=n.min(2) {
                        r.case(fp(&(i, &case.text)), true, || json!({"origin": case.origin, "text": vcore::evidence::truncate(&case.text, 300)}));
                    }
                    r.evaluations = n + 1;
                }
                let f = Fail::new("child-died", format!("parser killed the 2 MiB-stack child process (status {:?}, {:?}) on input ({}): {}", other, s, case.origin, vcore::evidence::truncate(&case.text, 400)));
                report(ctx, &rec, "total", &case, &f);
                let code = rec.borrow().finish(&ctx.findings);
                code
            }
        },
    }
}

//! vcheck <Cxx> [--tier quick|thorough] [--replay <file>]
//! exit 0: property held on everything explored; 1: violation (VIOLATION line printed);
//! 2: infrastructure failure / inconclusive.
use vcore::evidence::{env_seed, Tier};
use vcore::findings::Findings;

pub mod c01;
pub mod c03;
pub mod c04;
pub mod c05;
pub mod c07;
pub mod c09;
pub mod c11;
pub mod c12;
pub mod c14;
pub mod c15;
pub mod c16;
pub mod c17;
pub mod common;
pub mod genpipe;

pub struct Ctx {
    pub tier: Tier,
    pub seed: u64,
    pub findings: Findings,
    pub replay: Option<serde_json::Value>,
    pub replay_path: Option<String>,
    pub args: Vec<String>,
}

pub fn main_entry() {
    let args: Vec<String> = std::env::args().collect();
    if args.len() < 2 {
        eprintln!("usage: vcheck <Cxx> [--tier quick|thorough] [--replay file]");
        std::process::exit(2);
    }
    let id = args[1].clone();
    let mut tier = match std::env::var("VERIF_TIER").as_deref() {
        Ok("thorough") => Tier::Thorough,
        _ => Tier::Quick,
    };
    let mut replay = None;
    let mut replay_path = None;
    let mut i = 2;
    let mut rest = vec![];
    while i < args.len() {
        match args[i].as_str() {
            "--tier" => {
                i += 1;
                tier = if args.get(i).map(|s| s.as_str()) == Some("thorough") {
                    Tier::Thorough
                } else {
                    Tier::Quick
                };
            }
            "--replay" => {
                i += 1;
                let p = args.get(i).expect("--replay needs a path");
                let text = std::fs::read_to_string(p).expect("read replay file");
                replay = Some(serde_json::from_str(&text).expect("parse replay file"));
                replay_path = Some(p.clone());
            }
            o => rest.push(o.to_string()),
        }
        i += 1;
    }
    let ctx = Ctx {
        tier,
        seed: env_seed(),
        findings: Findings::load(),
        replay,
        replay_path,
        args: rest,
    };
    // replays of cases found by the generated-type part go to the generated-code binary
    if let Some(rp) = &ctx.replay {
        let sub = rp["sub"].as_str().unwrap_or("");
        if ["roundtrip", "generated-total", "generated-async", "generated-unchecked", "leak", "default"].contains(&sub) && ["C04", "C09", "C11", "C12"].contains(&id.as_str()) {
            std::process::exit(genpipe::run_gent_check(&ctx, &id));
        }
    }
    let code = match id.as_str() {
        "C01" => c01::run(&ctx),
        "C02" => genpipe::run_gent_check(&ctx, "C02"),
        "C08" => genpipe::run_gent_check(&ctx, "C08"),
        "C13" => genpipe::run_gent_check(&ctx, "C13"),
        "C05" => genpipe::run_multi(&ctx, "C05", &["gentp", "gentpd"]),
        "C06" => genpipe::run_multi(&ctx, "C06", &["gentp"]),
        "C10" => genpipe::run_multi(&ctx, "C10", &["gentp"]),
        "C18" => genpipe::run_multi(&ctx, "C18", &["gentp"]),
        "C19" => genpipe::run_multi(&ctx, "C19", &["gent", "gentp"]),
        "C20" => genpipe::run_gent_check(&ctx, "C20"),
        "C03" => c03::run(&ctx),
        "C04" => c04::run(&ctx),
        "C07" => c07::run(&ctx),
        "C09" => c09::run(&ctx),
        "C11" => c11::run(&ctx),
        "C12" => c12::run(&ctx),
        "C14" => c14::run(&ctx),
        "C15" => c15::run(&ctx),
        "C16" => c16::run(&ctx),
        "C17" => c17::run(&ctx),
        _ => {
            eprintln!("unknown check {}", id);
            2
        }
    };
    std::process::exit(code);
}

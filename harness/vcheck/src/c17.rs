//! C17 code generation is deterministic.
use crate::common::*;
use crate::genpipe::{run_vbuild, work_dir, write_if_changed};
use crate::Ctx;
use serde::{Deserialize, Serialize};
use serde_json::json;
use std::collections::BTreeMap;
use std::path::{Path, PathBuf};
use vcore::corpus::sample;
use vcore::evidence::Fail;
use vcore::tgen::{arb_raw_doc, resolve, GenOpts, RawDoc};
use vcore::tschema::SDoc;

#[derive(Clone, Copy, Debug, PartialEq, Eq, Hash, Serialize, Deserialize)]
pub enum Mode {
    Single,
    Split,
    Workspace,
}

#[derive(Clone, Debug, Serialize, Deserialize, Hash)]
pub struct Case {
    pub raw: Option<RawDoc>,
    pub kitchen: Option<usize>,
    pub mode: Mode,
    #[serde(default)]
    pub proto: Option<vcore::pschema::RawPDoc>,
    #[serde(default)]
    pub pkitchen: Option<usize>,
    /// one module crowded with this many pairs of names that are equal ignoring case
    #[serde(default)]
    pub crowded: Option<u32>,
    /// hand-shaped documents: 0 = several files sharing one namespace with duplicate structs,
    /// built with Builder::dedup; 1 = groups of struct cycles whose members differ in what can
    /// be derived for them; 2 = ignore_unused + touch over several included files
    #[serde(default)]
    pub special: Option<u8>,
}

/// Files that share a namespace and each carry their own copy of the same structs (what
/// `Builder::dedup` exists for), next to structs of their own.
fn shared_namespace_files() -> (Vec<(String, String)>, Vec<String>) {
    let mut files = vec![];
    let mut main = String::from("namespace rs top\ninclude \"a.thrift\"\ninclude \"b.thrift\"\ninclude \"c.thrift\"\nstruct Top { 1: a.Base0 x, 2: b.Base3 y, 3: c.OwnC2 z }\n");
    let names: Vec<String> = (0..10).map(|i| format!("Base{}", i)).collect();
    for stem in ["a", "b", "c"] {
        let mut t = String::from("namespace rs shared\n");
        for (i, n) in names.iter().enumerate() {
            t.push_str(&format!("struct {} {{ 1: i32 f{}, 2: optional string s, 3: list<i64> l }}\n", n, i));
        }
        for i in 0..14 {
            t.push_str(&format!("struct Own{}{} {{ 1: Base{} b, 2: map<string, i32> m{} }}\n", stem.to_uppercase(), i, i % 10, i));
        }
        files.push((format!("{}.thrift", stem), t));
    }
    main.push_str("service S { a.Base1 get(1: b.Base2 r) }\n");
    files.insert(0, ("main.thrift".to_string(), main));
    (files, names)
}

/// Workspace mode over several service files: a chain of services, each extending the service of
/// the previous file, all but the last in one namespace, plus a types file that is only included.
/// The crate of every service then depends on several other crates whose items meet in one module.
fn service_chain_files() -> (Vec<(String, String)>, usize) {
    let mut files = vec![];
    let n = 5usize;
    let mut main = format!("include \"svc{}.thrift\"\ninclude \"types.thrift\"\nnamespace rs ws.main\nstruct Query {{ 1: required string text, 2: optional types.Colour colour }}\nservice Main extends svc{}.Svc{} {{ types.Page search(1: Query q, 2: types.Extra extra), types.Item get(1: i64 id) }}\n", n - 1, n - 1, n - 1);
    main.push_str("service Second extends svc1.Svc1 { types.Item other(1: svc2.Req2 r) }\n");
    main = format!("include \"svc1.thrift\"\ninclude \"svc2.thrift\"\n{}", main);
    files.push(("main.thrift".to_string(), main));
    for i in (0..n).rev() {
        let mut t = String::new();
        if i > 0 {
            t.push_str(&format!("include \"svc{}.thrift\"\n", i - 1));
        }
        t.push_str("include \"types.thrift\"\nnamespace rs ws.shared\n");
        t.push_str(&format!("struct Req{i} {{ 1: required string token, 2: optional types.Item item }}\nstruct Resp{i} {{ 1: required i64 at }}\nstruct Health{i} {{ 1: required bool ok }}\n"));
        if i > 0 {
            t.push_str(&format!("service Svc{i} extends svc{}.Svc{} {{ Resp{i} ping{i}(1: Req{i} req), Health{i} health{i}() }}\n", i - 1, i - 1));
        } else {
            t.push_str("service Svc0 { Resp0 ping0(1: Req0 req), Health0 health0() }\n");
        }
        files.push((format!("svc{}.thrift", i), t));
    }
    files.push(("types.thrift".to_string(), "namespace rs ws.shared\nstruct Item { 1: required i64 id, 2: optional string name }\nstruct Extra { 1: required i32 weight }\nstruct Page { 1: required list<Item> items, 2: optional Extra extra }\nenum Colour { RED = 1, GREEN = 2 }\n".to_string()));
    (files, n + 1)
}

/// Two included files with the same stem in different directories, both declaring the names the
/// main file refers to through that stem: which one is meant must not depend on a hash order.
fn same_stem_files() -> Vec<(String, String)> {
    vec![
        ("main.thrift".to_string(), "namespace rs stem.main\ninclude \"x/common.thrift\"\ninclude \"y/common.thrift\"\ninclude \"z/common.thrift\"\nstruct Holder { 1: common.Foo foo, 2: list<common.Bar> bars, 3: optional common.Kind kind }\nservice Stem { common.Foo get(1: common.Bar b) }\n".to_string()),
        ("x/common.thrift".to_string(), "namespace rs stem.xc\nstruct Foo { 1: i32 x }\nstruct Bar { 1: string x }\nenum Kind { X = 1 }\n".to_string()),
        ("y/common.thrift".to_string(), "namespace rs stem.yc\nstruct Foo { 1: i64 y, 2: optional string why }\nstruct Bar { 1: binary y }\nenum Kind { Y = 2 }\n".to_string()),
        ("z/common.thrift".to_string(), "namespace rs stem.zc\nstruct Foo { 1: double z }\nstruct Bar { 1: list<i32> z }\nenum Kind { Z = 3 }\n".to_string()),
    ]
}

/// Map literals that repeat a key, as constants, defaults, nested values and list elements: what is
/// emitted for them must not depend on the iteration order of an unordered map.
fn repeated_key_text() -> String {
    let mut t = String::from("namespace rs dupmap\n");
    t.push_str("const map<string, i32> M1 = {\"alpha\": 1, \"beta\": 2, \"gamma\": 3, \"alpha\": 4, \"delta\": 5, \"beta\": 6, \"eps\": 7, \"zeta\": 8}\n");
    t.push_str("const map<i32, string> M2 = {1: \"a\", 2: \"b\", 3: \"c\", 1: \"d\", 4: \"e\", 5: \"f\", 6: \"g\", 7: \"h\"}\n");
    t.push_str("const list<map<string, i32>> L = [{\"x\": 1, \"y\": 2, \"x\": 3, \"z\": 4, \"w\": 5, \"v\": 6}]\n");
    t.push_str("const map<string, map<string, i32>> N = {\"o\": {\"a\": 1, \"b\": 2, \"a\": 3, \"c\": 4, \"d\": 5, \"e\": 6}, \"p\": {\"k\": 1}, \"o\": {\"q\": 1}, \"r\": {}, \"s\": {}, \"t\": {}}\n");
    t.push_str("struct D { 1: map<string, i32> m = {\"k1\": 1, \"k2\": 2, \"k3\": 3, \"k1\": 9, \"k4\": 4, \"k5\": 5, \"k6\": 6}, 2: optional map<i64, list<string>> n = {1: [\"a\"], 2: [], 1: [\"b\"], 3: [], 4: [], 5: []} }\n");
    t
}

/// Several included files in one namespace, each with enums and structs; built with
/// ignore_unused (the default of the builder) and `touch` entries for every file, so that the
/// set of reachable items is assembled from several roots.
fn touch_files() -> (Vec<(String, String)>, Vec<(String, Vec<String>)>) {
    let mut files = vec![];
    let mut touches = vec![];
    let mut main = String::from("namespace rs touch.svc\n");
    for t in 0..4 {
        main.push_str(&format!("include \"t{}.thrift\"\n", t));
    }
    main.push_str("struct Req { 1: t0.S0x1 a, 2: t3.S3x6 b }\nservice Svc { Req call(1: Req r) }\n");
    files.push(("svc.thrift".to_string(), main));
    for t in 0..4 {
        let mut text = String::from("namespace rs touch.shared\n");
        for i in 0..8 {
            text.push_str(&format!("enum E{t}x{i} {{ "));
            for v in 0..(5 + (i + t) % 5) {
                text.push_str(&format!("V{t}x{i}x{v} = {v}, "));
            }
            text.push_str("}\n");
        }
        for i in 0..8 {
            text.push_str(&format!("struct S{t}x{i} {{ 1: E{t}x{i} e, 2: optional S{t}x{} next, 3: list<i64> xs }}\n", (i + 1) % 8));
        }
        files.push((format!("t{}.thrift", t), text));
        touches.push((format!("t{}.thrift", t), vec![format!("S{t}x2"), format!("S{t}x5"), format!("E{t}x7")]));
    }
    (files, touches)
}

/// Groups of struct cycles: in each group one cycle has a member that cannot derive Hash / Ord
/// (a map, a double) and hangs a second, harmless cycle off it; what is derived for whom must
/// not depend on the order in which an unordered set of pending items is visited.
fn cycle_groups_text() -> String {
    let mut t = String::from("namespace rs cycles\n");
    for g in 0..8 {
        let bad = match g % 3 {
            0 => "map<string, i32>",
            1 => "double",
            _ => "list<map<i32, string>>",
        };
        t.push_str(&format!("struct S{g} {{ 1: optional P{g} p, 2: optional A{g} a }}\n"));
        t.push_str(&format!("struct P{g} {{ 1: optional Q{g} q, 2: i32 n, 3: optional Holder{g} h }}\n"));
        t.push_str(&format!("struct Q{g} {{ 1: optional R{g} r, 2: string s }}\n"));
        t.push_str(&format!("struct R{g} {{ 1: optional P{g} back, 2: optional A{g} side, 3: list<B{g}> bs }}\n"));
        t.push_str(&format!("struct A{g} {{ 1: optional B{g} b, 2: i64 x }}\n"));
        // A and B can derive everything on their own: whether they do must not depend on the
        // neighbouring cycle
        t.push_str(&format!("struct B{g} {{ 1: optional A{g} a, 2: list<string> tags }}\n"));
        t.push_str(&format!("struct Holder{g} {{ 1: {bad} v }}\n"));
        t.push_str(&format!("union U{g} {{ 1: P{g} p, 2: A{g} a, 3: Holder{g} h }}\n"));
    }
    t
}

/// Many items in one module, pairwise equal ignoring case (file names on a case-insensitive
/// file system collide and get numbered), plus a service and an enum with many members.
fn crowded_text(n: u32) -> String {
    let mut t = String::from("namespace rs crowd\n");
    for i in 0..n {
        t.push_str(&format!("struct Item{i} {{ 1: i32 a, 2: optional string b }}\nstruct item{i} {{ 1: i64 c }}\n"));
    }
    t.push_str("enum Kind {\n");
    for i in 0..n {
        t.push_str(&format!("  K{i} = {i},\n"));
    }
    t.push_str("}\nservice Crowd {\n");
    for i in 0..n.min(12) {
        t.push_str(&format!("  Item{i} get{i}(1: item{i} req),\n"));
    }
    t.push_str("}\n");
    t
}

/// (is protobuf, files, main files) of a case
fn files_of(c: &Case) -> (bool, Vec<(String, String)>, usize) {
    if let Some(n) = c.crowded {
        return (false, vec![("crowd.thrift".to_string(), crowded_text(n))], 1);
    }
    match c.special {
        Some(0) => return (false, shared_namespace_files().0, 1),
        Some(2) => return (false, touch_files().0, 1),
        Some(3) => {
            let (f, n) = service_chain_files();
            return (false, f, n);
        }
        Some(4) => return (false, vec![("dupmap.thrift".to_string(), repeated_key_text())], 1),
        Some(5) => return (false, same_stem_files(), 1),
        Some(6) => {
            let (f, n) = service_chain_files();
            return (false, f, n);
        }
        Some(_) => return (false, vec![("cycles.thrift".to_string(), cycle_groups_text())], 1),
        None => {}
    }
    if let Some(p) = &c.proto {
        return (true, vcore::pschema::resolve_pdoc(p).print_files(), 1);
    }
    if let Some(k) = c.pkitchen {
        return (true, vcore::kitchen::proto_docs()[k].print_files(), 1);
    }
    let d = doc_of(c);
    let n = d.files.len();
    (false, d.print_files(), n)
}

fn doc_of(c: &Case) -> SDoc {
    match (&c.raw, c.kitchen) {
        (Some(r), _) => resolve(r),
        (None, Some(k)) => vcore::kitchen::thrift_docs()[k].clone(),
        _ => panic!("empty case"),
    }
}

fn hash_tree(root: &Path) -> BTreeMap<String, u64> {
    fn walk(dir: &Path, root: &Path, out: &mut BTreeMap<String, u64>) {
        let Ok(rd) = std::fs::read_dir(dir) else { return };
        for e in rd.flatten() {
            let p = e.path();
            if p.is_dir() {
                if p.file_name().map(|n| n == "target").unwrap_or(false) {
                    continue;
                }
                walk(&p, root, out);
            } else {
                let rel = p.strip_prefix(root).unwrap().to_string_lossy().to_string();
                let bytes = std::fs::read(&p).unwrap_or_default();
                // the absolute output directory may appear in generated include! paths
                let text = String::from_utf8_lossy(&bytes).replace(&root.to_string_lossy().to_string(), "<OUT>");
                out.insert(rel, fp(&text));
            }
        }
    }
    let mut out = BTreeMap::new();
    walk(root, root, &mut out);
    out
}

/// One builder run in a fresh process; returns the hashes of everything it wrote.
fn build_once(c: &Case, mode: Mode, slot: &str, threads: usize, rerun: bool) -> Result<BTreeMap<String, u64>, String> {
    let (is_proto, files, nmain) = files_of(c);
    let dir = work_dir().join("c17").join(slot);
    let _ = std::fs::remove_dir_all(&dir);
    // the IDL location is kept identical across runs (paths are part of the input)
    let idl = work_dir().join("c17").join(format!("idl-{}", slot.split('-').next().unwrap_or("x")));
    for (name, text) in &files {
        write_if_changed(&idl.join(name), text);
    }
    let out_root = dir.join("out");
    let _ = std::fs::create_dir_all(&out_root);
    let mut args: Vec<String> = vec![if is_proto { "proto".into() } else { "thrift".into() }];
    match mode {
        Mode::Workspace => {
            // workspace mode merges into an existing workspace manifest (as after `cargo init`)
            let _ = std::fs::write(out_root.join("Cargo.toml"), "[workspace]\nmembers = []\nresolver = \"2\"\n");
            args.push(out_root.to_string_lossy().into());
            for f in files.iter().take(nmain) {
                args.push(idl.join(&f.0).to_string_lossy().into());
            }
            args.push("--workspace".into());
            if c.special == Some(3) {
                args.push("--split".into());
            }
        }
        _ => {
            args.push(out_root.join("gen.rs").to_string_lossy().into());
            args.push(idl.join(&files[0].0).to_string_lossy().into());
            if mode == Mode::Split {
                args.push("--split".into());
            }
        }
    }
    args.push("--include-dir".into());
    args.push(idl.to_string_lossy().into());
    if c.special == Some(0) {
        args.push("--dedup".into());
        args.push(shared_namespace_files().1.join(","));
    }
    if c.special == Some(2) {
        args.push("--ignore-unused".into());
        for (f, names) in touch_files().1 {
            args.push("--touch".into());
            args.push(format!("{}:{}", idl.join(f).to_string_lossy(), names.join(",")));
        }
    }
    let b = run_vbuild(&args, Some(threads), 120);
    if !b.ok {
        return Err(format!("builder failed ({}): {}", b.status, vcore::evidence::truncate(&b.stderr, 400)));
    }
    if rerun {
        // a second run into the directory the first one filled (the workspace manifest is read back)
        let b = run_vbuild(&args, Some(threads), 120);
        if !b.ok {
            return Err(format!("builder failed on the second run into the same directory ({}): {}", b.status, vcore::evidence::truncate(&b.stderr, 400)));
        }
    }
    let h = hash_tree(&out_root);
    let _ = std::fs::remove_dir_all(&dir);
    Ok(h)
}

pub fn check_case(c: &Case, slot: &str, runs: &[usize]) -> Result<usize, Fail> {
    let (_, files, _) = files_of(c);
    let mut reference: Option<(usize, BTreeMap<String, u64>)> = None;
    let mut n = 0;
    for (i, threads) in runs.iter().enumerate() {
        let h = match build_once(c, c.mode, &format!("{}-{}", slot, i), *threads, c.special == Some(6) && i % 2 == 1) {
            Ok(h) => h,
            // a build failure is C14's subject, not a determinism violation
            Err(_) => return Ok(n),
        };
        n += 1;
        match &reference {
            None => reference = Some((*threads, h)),
            Some((t0, r)) => {
                if *r != h {
                    let a: Vec<&String> = r.keys().collect();
                    let b: Vec<&String> = h.keys().collect();
                    let idl: String = files.iter().map(|(n, t)| format!("// {}\n{}\n", n, t)).collect();
                    let what = if a != b {
                        format!("the set of emitted files differs: {:?} vs {:?}", a, b)
                    } else {
                        let diff: Vec<&String> = r.iter().filter(|(k, v)| h.get(*k) != Some(*v)).map(|(k, _)| k).collect();
                        format!("contents differ in {:?}", diff)
                    };
                    return Err(Fail::new(
                        &format!("nondeterministic:{:?}", c.mode),
                        format!("{:?} mode: run with {} threads and run with {} threads (separate processes) disagree: {}\n--- IDL\n{}", c.mode, t0, threads, what, vcore::evidence::truncate(&idl, 1500)),
                    ));
                }
            }
        }
    }
    Ok(n)
}

pub fn run(ctx: &Ctx) -> i32 {
    let rec = new_rec(ctx, "C17");
    {
        let mut r = rec.borrow_mut();
        r.rule = "corpus = kitchen-sink documents + seed-generated multi-file documents (several namespaces/modules, case-colliding names, services) in single-file, split-file and workspace mode; each (document, mode) is built in independent builder processes (fresh std/ahash hash seeds) with RAYON_NUM_THREADS cycling through {1,2,3,4,8,16}; oracle: the set of relative paths and the hash of every emitted file equal those of the first run; a case counts once per comparison run; non-trivial = the run differs from the reference run in thread count (always also in process) and the document has >= 2 modules".into();
        r.assumptions = vec![
            "rayon's work-stealing schedule is sampled by repetition and thread-count variation, not owned: a rare interleaving can be missed".into(),
            "documents whose build fails are skipped (C14 decides them)".into(),
        ];
    }
    if let Some(rp) = &ctx.replay {
        let case: Case = serde_json::from_value(rp["case"]["case"].clone()).expect("replay case");
        return match check_case(&case, "replay", &[1, 16, 2, 8, 3, 4, 16, 1, 5, 7, 16, 2]) {
            Ok(_) => {
                println!("replay: property holds on this case");
                0
            }
            Err(f) => {
                println!("VIOLATION property=C17 replay={}", ctx.replay_path.clone().unwrap_or_default());
                println!("  key={} {}", f.key, f.msg);
                1
            }
        };
    }
    let mut cases: Vec<Case> = vec![];
    for k in 0..vcore::kitchen::thrift_docs().len() {
        for m in [Mode::Single, Mode::Split, Mode::Workspace] {
            cases.push(Case { raw: None, kitchen: Some(k), mode: m, proto: None, pkitchen: None, crowded: None, special: None });
        }
    }
    let n = ctx.tier.pick(8, 60) as usize;
    let hostile = GenOpts { hostile_names: true, ..GenOpts::default() };
    for (i, raw) in sample(&arb_raw_doc(hostile), ctx.seed, "c17-hostile", n).into_iter().enumerate() {
        cases.push(Case { raw: Some(raw), kitchen: None, mode: [Mode::Single, Mode::Split, Mode::Workspace][i % 3], proto: None, pkitchen: None, crowded: None, special: None });
    }
    for (i, raw) in sample(&arb_raw_doc(GenOpts::default()), ctx.seed, "c17-plain", n).into_iter().enumerate() {
        cases.push(Case { raw: Some(raw), kitchen: None, mode: [Mode::Split, Mode::Workspace, Mode::Single][i % 3], proto: None, pkitchen: None, crowded: None, special: None });
    }
    for k in 0..vcore::kitchen::proto_docs().len() {
        for m in [Mode::Single, Mode::Split] {
            cases.push(Case { raw: None, kitchen: None, mode: m, proto: None, pkitchen: Some(k), crowded: None, special: None });
        }
    }
    for (i, praw) in sample(&vcore::pschema::arb_raw_pdoc(), ctx.seed, "c17-proto", n).into_iter().enumerate() {
        cases.push(Case { raw: None, kitchen: None, mode: [Mode::Single, Mode::Split][i % 2], proto: Some(praw), pkitchen: None, crowded: None, special: None });
    }
    let crowds: &[(u32, Mode)] = if ctx.tier == vcore::evidence::Tier::Quick { &[(30, Mode::Split), (40, Mode::Split)] } else { &[(30, Mode::Split), (40, Mode::Single), (40, Mode::Split), (64, Mode::Split), (64, Mode::Workspace)] };
    for (n, m) in crowds {
        cases.push(Case { raw: None, kitchen: None, mode: *m, proto: None, pkitchen: None, crowded: Some(*n), special: None });
    }
    for (sp, m) in [(0u8, Mode::Single), (0, Mode::Split), (1, Mode::Single), (1, Mode::Split), (2, Mode::Single), (2, Mode::Split), (3, Mode::Workspace), (4, Mode::Single), (4, Mode::Split), (5, Mode::Single), (5, Mode::Split), (6, Mode::Workspace)] {
        cases.push(Case { raw: None, kitchen: None, mode: m, proto: None, pkitchen: None, crowded: None, special: Some(sp) });
    }
    let runs: Vec<usize> = if ctx.tier == vcore::evidence::Tier::Quick { vec![1, 16, 2, 8, 3, 4, 16, 1] } else { (0..48).map(|i| [1, 16, 2, 8, 3, 4, 5, 7][i % 8]).collect() };
    let results: std::sync::Mutex<Vec<(usize, Result<usize, Fail>)>> = Default::default();
    let next = std::sync::atomic::AtomicUsize::new(0);
    std::thread::scope(|s| {
        // few parallel lanes: each builder run gets its thread pool to itself most of the time
        for t in 0..4 {
            let (cases, results, next, runs) = (&cases, &results, &next, &runs);
            s.spawn(move || loop {
                let i = next.fetch_add(1, std::sync::atomic::Ordering::SeqCst);
                if i >= cases.len() {
                    break;
                }
                let r = check_case(&cases[i], &format!("l{}c{}", t, i), runs);
                results.lock().unwrap().push((i, r));
            });
        }
    });
    let mut results = results.into_inner().unwrap();
    results.sort_by_key(|r| r.0);
    let mut reported = std::collections::BTreeSet::new();
    for (i, r) in results {
        let c = &cases[i];
        let (is_proto, files, _) = files_of(c);
        let modules = if is_proto { files.iter().map(|f| f.1.matches("message ").count()).sum::<usize>() } else { files.len() };
        let comparisons = match &r {
            Ok(n) => n.saturating_sub(1),
            Err(_) => 1,
        };
        {
            let mut rr = rec.borrow_mut();
            for k in 0..comparisons {
                rr.case(fp(&(c, k)), modules >= 2, || {
                    let t: String = files.iter().map(|(n, t)| format!("// {}\n{}\n", n, t)).collect();
                    json!({"mode": format!("{:?}", c.mode), "threads": runs[(k + 1) % runs.len()], "idl": vcore::evidence::truncate(&t, 400)})
                });
                rr.class(&format!("mode {:?}", c.mode));
                rr.class_if(modules >= 2, ">= 2 modules");
                rr.class_if(is_proto, "protobuf document");
                rr.class_if(is_proto && files.iter().any(|f| f.1.matches("  message ").count() >= 2), "protobuf: >= 2 nested messages");
            }
            if matches!(r, Ok(0)) {
                rr.exclude("document does not build (C14's subject)");
            }
        }
        if let Err(f) = r {
            if ctx.findings.is_open("C17", &f.key) {
                rec.borrow_mut().known_hit(&f.key);
            } else if reported.insert(f.key.clone()) {
                report(ctx, &rec, "determinism", c, &f);
            }
        }
    }
    let _: PathBuf = work_dir();
    if rec.borrow().violations.is_empty() {
        if let Some(c) = require_classes(&rec, &["mode Single", "mode Split", "mode Workspace", ">= 2 modules", "protobuf document", "protobuf: >= 2 nested messages"]) {
            rec.borrow().finish(&ctx.findings);
            return c;
        }
    }
    let code = rec.borrow().finish(&ctx.findings);
    code
}

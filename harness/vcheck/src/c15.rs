//! C15 Thrift IDL parser inverts printing, independent of layout.
use crate::common::*;
use crate::Ctx;
use pilota_thrift_parser as tp;
use pilota_thrift_parser::parser::Parser;
use proptest::prelude::*;
use serde::{Deserialize, Serialize};
use serde_json::json;
use std::sync::Arc;
use vcore::evidence::{catch, run_prop, Fail, PResult};
use vcore::shrink::Shrink;
use vcore::tsyn::*;

#[derive(Clone, Debug, Serialize, Deserialize, Hash)]
pub struct Case {
    pub doc: Doc,
    pub layout: Layout,
}

impl Shrink for Case {
    fn candidates(&self) -> Vec<Case> {
        let mut out = vec![];
        for d in self.doc.candidates() {
            out.push(Case { doc: d, layout: self.layout.clone() });
        }
        for l in self.layout.candidates() {
            out.push(Case { doc: self.doc.clone(), layout: l });
        }
        out
    }
}

fn annots(a: &Annot) -> tp::Annotations {
    tp::Annotations(a.0.iter().map(|(k, v)| tp::Annotation { key: k.clone(), value: tp::Literal(v.clone()) }).collect())
}
fn path(p: &str) -> tp::Path {
    p.split('.').map(|s| tp::Ident(Arc::from(s))).collect()
}
fn ty(t: &Type) -> tp::Type {
    let cpp = |c: &Option<String>| c.as_ref().map(|c| tp::CppType(tp::Literal(c.clone())));
    let inner = match &t.0 {
        Ty::String => tp::Ty::String,
        Ty::Void => tp::Ty::Void,
        Ty::Byte => tp::Ty::Byte,
        Ty::Bool => tp::Ty::Bool,
        Ty::Binary => tp::Ty::Binary,
        Ty::I8 => tp::Ty::I8,
        Ty::I16 => tp::Ty::I16,
        Ty::I32 => tp::Ty::I32,
        Ty::I64 => tp::Ty::I64,
        Ty::Double => tp::Ty::Double,
        Ty::Uuid => tp::Ty::Uuid,
        Ty::List(v, c) => tp::Ty::List { value: Arc::new(ty(v)), cpp_type: cpp(c) },
        Ty::Set(v, c) => tp::Ty::Set { value: Arc::new(ty(v)), cpp_type: cpp(c) },
        Ty::Map(k, v, c) => tp::Ty::Map { key: Arc::new(ty(k)), value: Arc::new(ty(v)), cpp_type: cpp(c) },
        Ty::Path(p) => tp::Ty::Path(path(p)),
    };
    tp::Type(inner, annots(&t.1))
}
fn cv(v: &CV) -> tp::ConstValue {
    match v {
        CV::Bool(b) => tp::ConstValue::Bool(*b),
        CV::Path(p) => tp::ConstValue::Path(path(p)),
        CV::Str(s) => tp::ConstValue::String(tp::Literal(s.clone())),
        CV::Int(i) | CV::HexInt(i) => tp::ConstValue::Int(tp::IntConstant(*i)),
        CV::Double(s) => tp::ConstValue::Double(tp::DoubleConstant(Arc::from(s.as_str()))),
        CV::List(es) => tp::ConstValue::List(es.iter().map(cv).collect()),
        CV::Map(es) => tp::ConstValue::Map(es.iter().map(|(k, v)| (cv(k), cv(v))).collect()),
    }
}
fn field(f: &Field) -> tp::Field {
    tp::Field {
        id: f.id,
        name: tp::Ident(Arc::from(f.name.as_str())),
        attribute: match f.attr {
            Attr::Optional => tp::Attribute::Optional,
            Attr::Required => tp::Attribute::Required,
            Attr::Default => tp::Attribute::Default,
        },
        ty: ty(&f.ty),
        default: f.default.as_ref().map(cv),
        annotations: annots(&f.annot),
    }
}
fn sl(s: &StructLike) -> tp::StructLike {
    tp::StructLike { name: tp::Ident(Arc::from(s.name.as_str())), fields: s.fields.iter().map(field).collect(), annotations: annots(&s.annot) }
}
fn item(i: &Item) -> tp::Item {
    match i {
        Item::Include(p) => tp::Item::Include(tp::Include { path: tp::Literal(p.clone()) }),
        Item::CppInclude(p) => tp::Item::CppInclude(tp::CppInclude(tp::Literal(p.clone()))),
        Item::Namespace { scope, name, annot } => tp::Item::Namespace(tp::Namespace { scope: tp::Scope(scope.clone()), name: path(name), annotations: annot.as_ref().map(annots) }),
        Item::Typedef { ty: t, alias, annot } => tp::Item::Typedef(tp::Typedef { r#type: ty(t), alias: tp::Ident(Arc::from(alias.as_str())), annotations: annots(annot) }),
        Item::Const { name, ty: t, value, annot } => tp::Item::Constant(tp::Constant { name: tp::Ident(Arc::from(name.as_str())), r#type: ty(t), value: cv(value), annotations: annots(annot) }),
        Item::Enum { name, values, annot } => tp::Item::Enum(tp::Enum {
            name: tp::Ident(Arc::from(name.as_str())),
            values: values.iter().map(|(n, v, a)| tp::EnumValue { name: tp::Ident(Arc::from(n.as_str())), value: v.map(tp::IntConstant), annotations: annots(a) }).collect(),
            annotations: annots(annot),
        }),
        Item::Struct(s) => tp::Item::Struct(tp::Struct(sl(s))),
        Item::Union(s) => tp::Item::Union(tp::Union(sl(s))),
        Item::Exception(s) => tp::Item::Exception(tp::Exception(sl(s))),
        Item::Service { name, extends, functions, annot } => tp::Item::Service(tp::Service {
            name: tp::Ident(Arc::from(name.as_str())),
            extends: extends.as_ref().map(|e| path(e)),
            functions: functions
                .iter()
                .map(|f| tp::Function {
                    name: tp::Ident(Arc::from(f.name.as_str())),
                    oneway: f.oneway,
                    result_type: ty(&f.result),
                    arguments: f.args.iter().map(field).collect(),
                    throws: f.throws.iter().map(field).collect(),
                    annotations: annots(&f.annot),
                })
                .collect(),
            annotations: annots(annot),
        }),
    }
}

pub fn expected_debug(d: &Doc) -> String {
    let items: Vec<tp::Item> = d.items.iter().map(item).collect();
    let package = d.items.iter().find_map(|i| match i {
        Item::Namespace { scope, name, .. } if scope == "rs" => Some(path(name)),
        _ => None,
    });
    format!("{:?} {:?}", items, package)
}

/// Signature of a failure: the kind of disagreement, the prefix-keywords present in
/// identifiers, and - only when the canonical layout of the same document parses correctly,
/// i.e. the failure is layout dependent - the slot kinds carrying a non-canonical choice.
fn signature(c: &Case, what: &str) -> String {
    let (_, info) = print(&c.doc, &c.layout);
    let canonical_ok = c.layout != Layout::canonical() && check_text(&c.doc, &Layout::canonical()).is_ok();
    let slots: Vec<String> = if canonical_ok { info.used_slots.iter().map(|(s, _)| format!("{:?}", s)).collect() } else { vec![] };
    let mut kw_idents = std::collections::BTreeSet::new();
    let text = serde_json::to_string(&c.doc).unwrap();
    for k in KEYWORDS {
        // identifiers that begin with a keyword
        let pat = format!("\"{}", k);
        let mut from = 0;
        while let Some(i) = text[from..].find(&pat) {
            let rest = &text[from + i + pat.len()..];
            if rest.chars().next().map(|c| c.is_ascii_alphanumeric() || c == '_').unwrap_or(false) {
                kw_idents.insert(k);
            }
            from += i + pat.len();
        }
    }
    format!(
        "{}:{}:kwprefix[{}]",
        what,
        if canonical_ok { format!("layout[{}]", slots.join("+")) } else { "any-layout".to_string() },
        kw_idents.into_iter().collect::<Vec<_>>().join("+")
    )
}

/// Ok(()) or (what, message)
fn check_text(doc: &Doc, layout: &Layout) -> Result<(), (&'static str, String)> {
    let (text, _) = print(doc, layout);
    let want = expected_debug(doc);
    let r = catch(|| tp::File::parse(&text).map(|(rest, f)| (rest.to_string(), format!("{:?} {:?}", f.items, f.package))).map_err(|e| format!("{:?}", e)));
    match r {
        Err(p) => Err(("panic", format!("parser panicked: {}\n--- text\n{}", p, text))),
        Ok(Err(e)) => Err(("rejected", format!("a document of the grammar is rejected: {}\n--- text\n{}", vcore::evidence::truncate(&e, 300), text))),
        Ok(Ok((rest, got))) => {
            if !rest.is_empty() {
                return Err(("unparsed-rest", format!("{} bytes left unparsed\n--- text\n{}", rest.len(), text)));
            }
            if got != want {
                return Err(("different-ast", format!("parsed declarations differ from the printed document\n want {}\n got  {}\n--- text\n{}", want, got, text)));
            }
            Ok(())
        }
    }
}

pub fn check_case(c: &Case) -> PResult {
    match check_text(&c.doc, &c.layout) {
        Ok(()) => Ok(()),
        Err((what, msg)) => Err(Fail::new(&signature(c, what), msg)),
    }
}

pub fn arb_case(kw: bool) -> BoxedStrategy<Case> {
    (arb_doc(kw), arb_layout()).prop_map(|(doc, layout)| Case { doc, layout }).boxed()
}

/// Known-finding classes are excluded from the main stream by construction: the generator is
/// run without keyword-prefixed identifiers / with restricted layouts as the open findings
/// require, and a side stream exercises them.
pub fn run(ctx: &Ctx) -> i32 {
    vcore::evidence::quiet_panics();
    let rec = new_rec(ctx, "C15");
    {
        let mut r = rec.borrow_mut();
        r.rule = "case = (document over the descriptor AST: includes, cpp_includes, namespaces, typedefs, consts with nested list/map literals, enums, structs/unions/exceptions, services with extends/oneway/throws, annotations, cpp_type; identifiers optionally beginning with a keyword) x (layout tape choosing blank/comment style at every optional or mandatory blank position, ','/';'/none at every list separator, quote style); oracle: File::parse(print(doc, layout)) leaves nothing unparsed and Debug(items, package) equals the Debug of the AST built from the document; non-trivial = >= 3 items and the layout uses >= 2 comment styles or a 'none' separator".into();
        r.assumptions = vec![
            "only layouts that the Apache IDL grammar allows are printed (blanks between any two tokens, separators only where ListSeparator? occurs)".into(),
            "string literals contain no backslashes; a literal containing one quote style is always printed in the other".into(),
        ];
    }
    if let Some(rp) = &ctx.replay {
        let case: Case = serde_json::from_value(rp["case"]["case"].clone()).expect("replay case");
        return match check_case(&case) {
            Ok(()) => {
                println!("replay: property holds on this case");
                0
            }
            Err(f) => {
                println!("VIOLATION property=C15 replay={}", ctx.args.first().cloned().unwrap_or_default());
                println!("  key={} {}", f.key, f.msg);
                1
            }
        };
    }
    let cases = ctx.tier.pick(20_000, 500_000);
    let mut seen = std::collections::BTreeSet::new();
    let rounds = 8;
    for round in 0..rounds {
        let kw = round % 2 == 0;
        let res = run_prop(&rec, &format!("c15-{}", round), cases / rounds, arb_case(kw), |c: &Case| {
            {
                let (_, info) = print(&c.doc, &c.layout);
                let mut r = rec.borrow_mut();
                let nt = c.doc.items.len() >= 3 && (info.comment_styles >= 2 || info.none_separators > 0);
                r.case(fp(c), nt, || {
                    let (t, _) = print(&c.doc, &c.layout);
                    json!(vcore::evidence::truncate(&t, 600))
                });
                r.class_if(info.comment_styles >= 2, ">= 2 comment styles");
                r.class_if(info.comment_styles == 3, "all 3 comment styles");
                r.class_if(info.none_separators > 0, "'none' separator");
                r.class_if(kw, "keyword-prefixed identifier pool");
                for it in &c.doc.items {
                    r.class(match it {
                        Item::Include(_) | Item::CppInclude(_) => "item include",
                        Item::Namespace { .. } => "item namespace",
                        Item::Typedef { .. } => "item typedef",
                        Item::Const { .. } => "item const",
                        Item::Enum { .. } => "item enum",
                        Item::Struct(_) | Item::Union(_) | Item::Exception(_) => "item struct-like",
                        Item::Service { .. } => "item service",
                    });
                }
            }
            match check_case(c) {
                Err(f) if seen.contains(&f.key) || ctx.findings.is_open("C15", &f.key) => Ok(()),
                o => o,
            }
        });
        if let Some((case, f)) = res {
            seen.insert(f.key.clone());
            report(ctx, &rec, "parse-print", &case, &f);
        }
    }
    if rec.borrow().violations.is_empty() {
        if let Some(c) = require_classes(&rec, &[">= 2 comment styles", "'none' separator", "keyword-prefixed identifier pool", "item const", "item service", "item enum", "item typedef", "item namespace"]) {
            rec.borrow().finish(&ctx.findings);
            return c;
        }
    }
    let code = rec.borrow().finish(&ctx.findings);
    code
}

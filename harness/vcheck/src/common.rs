use crate::Ctx;
use serde::Serialize;
use std::cell::RefCell;
use vcore::evidence::{Fail, Recorder};

pub fn new_rec(ctx: &Ctx, id: &str) -> RefCell<Recorder> {
    RefCell::new(Recorder::new(id, ctx.tier, ctx.seed))
}

/// Routes a shrunk failure either to the known findings (exact signature match) or to the
/// violations.
pub fn report<T: Serialize>(ctx: &Ctx, rec: &RefCell<Recorder>, sub: &str, case: &T, f: &Fail) {
    let prop = rec.borrow().property.clone();
    if ctx.findings.is_open(&prop, &f.key) {
        rec.borrow_mut().known_hit(&f.key);
    } else {
        let replay = serde_json::json!({ "sub": sub, "key": f.key, "case": serde_json::to_value(case).unwrap() });
        rec.borrow_mut().violation(sub, format!("key={} {}", f.key, f.msg), replay);
    }
}

pub fn fp<T: std::hash::Hash>(t: &T) -> u64 {
    use std::hash::Hasher;
    let mut h = std::collections::hash_map::DefaultHasher::new();
    t.hash(&mut h);
    h.finish()
}

/// exit 2 with a message: the generator did not reach a class the property depends on.
pub fn require_classes(rec: &RefCell<Recorder>, required: &[&str]) -> Option<i32> {
    let missing = rec.borrow().missing_classes(required);
    if missing.is_empty() {
        None
    } else {
        eprintln!("INCONCLUSIVE: generator never produced class(es) {:?}", missing);
        Some(2)
    }
}

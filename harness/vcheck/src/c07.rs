//! C07 skipping a Thrift value consumes exactly that value.
use crate::common::*;
use crate::Ctx;
use bytes::{Buf, Bytes};
use pilota::thrift::{TAsyncInputProtocol, TInputProtocol, TType};
use proptest::prelude::*;
use serde::{Deserialize, Serialize};
use serde_json::json;
use vcore::ensure;
use vcore::evidence::{catch, run_prop, Fail, PResult};
use vcore::shrink::Shrink;
use vcore::tval::{arb_any, struct_chain, GenCfg, TVal, TT};
use vrt::codec::*;
use vrt::interp::{read_val, read_val_async, to_ttype, ReadOpts};
use vrt::io::{block_on, ScriptedReader, Step};
use vrt::{with_async_reader, with_reader};

#[derive(Clone, Debug, Serialize, Deserialize, Hash)]
pub struct Case {
    pub skipped: TVal,
    pub next: TVal,
    pub id1: i16,
    pub id2: i16,
    pub sentinel: Vec<u8>,
}

impl Shrink for Case {
    fn candidates(&self) -> Vec<Case> {
        let mut out = vec![];
        for c in self.skipped.candidates() {
            out.push(Case { skipped: c, ..self.clone() });
        }
        for c in self.next.candidates() {
            out.push(Case { next: c, ..self.clone() });
        }
        if !self.sentinel.is_empty() {
            out.push(Case { sentinel: vec![], ..self.clone() });
        }
        if (self.id1, self.id2) != (1, 2) {
            out.push(Case { id1: 1, id2: 2, ..self.clone() });
        }
        out
    }
}

pub fn arb_case() -> BoxedStrategy<Case> {
    let cfg = GenCfg { utf8: true, ..GenCfg::default() };
    (0u32..=4)
        .prop_flat_map(move |d| {
            (
                arb_any(d, cfg),
                arb_any(1, cfg),
                prop_oneof![Just((1i16, 2i16)), (vcore::tval::arb_i16(), vcore::tval::arb_i16())],
                prop::collection::vec(any::<u8>(), 0..8),
            )
        })
        .prop_map(|(skipped, next, (id1, id2), sentinel)| Case { skipped, next, id1, id2, sentinel })
        .boxed()
}

fn ro() -> ReadOpts {
    ReadOpts { flavor: 0, utf8: false, max_depth: 200 }
}

/// Bare context: the value stands alone (as a container element would).
fn check_bare(c: &Case, pk: PKind) -> PResult {
    let proto = pk.ref_proto();
    let a = vcore::refthrift::encode(proto, &c.skipped);
    let b = vcore::refthrift::encode(proto, &c.next);
    let mut data = a.clone();
    data.extend_from_slice(&b);
    data.extend_from_slice(&c.sentinel);
    let total = data.len();
    let mut bytes = Bytes::from(data);
    let r = catch(|| {
        with_reader!(pk, &mut bytes, |p| {
            let n = p.skip(to_ttype(c.skipped.tt())).map_err(|e| format!("skip failed: {:?}", e))?;
            let pos = total - p.buf().remaining();
            let nx = read_val(&mut p, c.next.tt(), ro()).map_err(|e| format!("value after the skipped one failed to decode: {:?}", e))?;
            Ok::<_, String>((n, pos, nx))
        })
    });
    match r {
        Err(p) => Err(Fail::new(&format!("skip-panic-{:?}", pk), format!("{:?} bare: skip panicked: {} on {:?}", pk, p, c.skipped))),
        Ok(Err(m)) => Err(Fail::new(&format!("skip-error-{:?}", pk), format!("{:?} bare: {} (skipped {:?}, encoded {} bytes)", pk, m, c.skipped, a.len()))),
        Ok(Ok((n, pos, nx))) => {
            ensure!(n == a.len(), &format!("skip-count-{:?}", pk), "{:?} bare: skip reported {} bytes, the value occupies {}: {:?}", pk, n, a.len(), c.skipped);
            ensure!(pos == a.len(), &format!("skip-position-{:?}", pk), "{:?} bare: reader advanced {} bytes, the value occupies {}: {:?}", pk, pos, a.len(), c.skipped);
            ensure!(nx.normalized() == c.next.normalized(), &format!("skip-next-{:?}", pk), "{:?} bare: value after skip decoded as {:?}, expected {:?}", pk, nx, c.next);
            Ok(())
        }
    }
}

/// Field context, as generated code does it: read_field_begin, skip, read_field_end, then the
/// next field is decoded.
fn check_field(c: &Case, pk: PKind) -> PResult {
    let proto = pk.ref_proto();
    let a_len = {
        // bytes of the value inside a field: bool fields of the compact protocol occupy 0 bytes
        if proto == vcore::refthrift::Proto::Compact && matches!(c.skipped, TVal::Bool(_)) {
            0
        } else {
            vcore::refthrift::encode(proto, &c.skipped).len()
        }
    };
    let st = TVal::Struct(vec![(c.id1, c.skipped.clone()), (c.id2, c.next.clone())]);
    let mut data = vcore::refthrift::encode(proto, &st);
    let st_len = data.len();
    data.extend_from_slice(&c.sentinel);
    if pk == PKind::Unsafe {
        data.extend_from_slice(&[0u8; 32]); // the unchecked reader's contract: complete input
    }
    let total = data.len();
    let mut bytes = Bytes::from(data);
    let r = catch(|| {
        with_reader!(pk, &mut bytes, |p| {
            p.read_struct_begin().map_err(|e| format!("{:?}", e))?;
            let f1 = p.read_field_begin().map_err(|e| format!("{:?}", e))?;
            let n = p.skip(f1.field_type).map_err(|e| format!("skip failed: {:?}", e))?;
            p.read_field_end().map_err(|e| format!("{:?}", e))?;
            let f2 = p.read_field_begin().map_err(|e| format!("field header after the skipped value: {:?}", e))?;
            if f2.field_type != to_ttype(c.next.tt()) || f2.id != Some(c.id2) {
                return Err(format!("field after the skipped one read as {:?}/{:?}, expected {:?}/{}", f2.field_type, f2.id, c.next.tt(), c.id2));
            }
            let nx = read_val(&mut p, c.next.tt(), ro()).map_err(|e| format!("value after the skipped one failed to decode: {:?}", e))?;
            p.read_field_end().map_err(|e| format!("{:?}", e))?;
            let stop = p.read_field_begin().map_err(|e| format!("{:?}", e))?;
            if stop.field_type != TType::Stop {
                return Err(format!("expected STOP, got {:?}", stop.field_type));
            }
            p.read_struct_end().map_err(|e| format!("{:?}", e))?;
            Ok::<_, String>((n, nx))
        })
    });
    // consumed: for the unchecked reader the position is advanced lazily; compare via remaining
    match r {
        Err(p) => Err(Fail::new(&format!("skip-panic-{:?}", pk), format!("{:?} field: skip panicked: {} on {:?}", pk, p, c.skipped))),
        Ok(Err(m)) => Err(Fail::new(&format!("skip-error-{:?}", pk), format!("{:?} field: {} (skipped {:?})", pk, m, c.skipped))),
        Ok(Ok((n, nx))) => {
            ensure!(n == a_len, &format!("skip-count-{:?}", pk), "{:?} field: skip reported {} bytes, the value occupies {}: {:?}", pk, n, a_len, c.skipped);
            ensure!(nx.normalized() == c.next.normalized(), &format!("skip-next-{:?}", pk), "{:?} field: value after skip decoded as {:?}, expected {:?}", pk, nx, c.next);
            if pk != PKind::Unsafe {
                let consumed = total - bytes.len();
                ensure!(consumed == st_len, &format!("skip-position-{:?}", pk), "{:?} field: struct occupies {} bytes, reader consumed {}", pk, st_len, consumed);
            }
            Ok(())
        }
    }
}

fn check_async(c: &Case, pk: PKind) -> PResult {
    let proto = pk.ref_proto();
    let st = TVal::Struct(vec![(c.id1, c.skipped.clone()), (c.id2, c.next.clone())]);
    let bare_a = vcore::refthrift::encode(proto, &c.skipped);
    for field_ctx in [false, true] {
        let (mut data, expect_len) = if field_ctx {
            let d = vcore::refthrift::encode(proto, &st);
            let l = d.len();
            (d, l)
        } else {
            let mut d = bare_a.clone();
            d.extend_from_slice(&vcore::refthrift::encode(proto, &c.next));
            let l = d.len();
            (d, l)
        };
        data.extend_from_slice(&c.sentinel);
        let budget = 16 * data.len() + 64;
        let (reader, stats) = ScriptedReader::new(data, vec![Step::Chunk(3), Step::Pending, Step::Chunk(1), Step::Chunk(7)]);
        let skipped_tt = to_ttype(c.skipped.tt());
        let next_tt = c.next.tt();
        let id2 = c.id2;
        let r = catch(|| {
            with_async_reader!(pk, reader, |p| {
                block_on(
                    async {
                        if field_ctx {
                            p.read_struct_begin().await.map_err(|e| format!("{:?}", e))?;
                            let f1 = p.read_field_begin().await.map_err(|e| format!("{:?}", e))?;
                            p.skip(f1.field_type).await.map_err(|e| format!("skip failed: {:?}", e))?;
                            p.read_field_end().await.map_err(|e| format!("{:?}", e))?;
                            let f2 = p.read_field_begin().await.map_err(|e| format!("field header after skip: {:?}", e))?;
                            if f2.field_type != to_ttype(next_tt) || f2.id != Some(id2) {
                                return Err(format!("field after the skipped one read as {:?}/{:?}", f2.field_type, f2.id));
                            }
                            let nx = read_val_async(&mut p, next_tt, ro()).await.map_err(|e| format!("value after skip: {:?}", e))?;
                            p.read_field_end().await.map_err(|e| format!("{:?}", e))?;
                            let stop = p.read_field_begin().await.map_err(|e| format!("{:?}", e))?;
                            if stop.field_type != TType::Stop {
                                return Err(format!("expected STOP, got {:?}", stop.field_type));
                            }
                            p.read_struct_end().await.map_err(|e| format!("{:?}", e))?;
                            Ok(nx)
                        } else {
                            p.skip(skipped_tt).await.map_err(|e| format!("skip failed: {:?}", e))?;
                            read_val_async(&mut p, next_tt, ro()).await.map_err(|e| format!("value after skip: {:?}", e))
                        }
                    },
                    budget,
                )
            })
        });
        let ctxn = if field_ctx { "field" } else { "bare" };
        match r {
            Err(p) => return Err(Fail::new(&format!("async-skip-panic-{:?}", pk), format!("async {:?} {}: panicked: {} on {:?}", pk, ctxn, p, c.skipped))),
            Ok(Err(_)) => return Err(Fail::new(&format!("async-skip-hang-{:?}", pk), format!("async {:?} {}: poll budget {} exceeded on {:?}", pk, ctxn, budget, c.skipped))),
            Ok(Ok(Err(m))) => return Err(Fail::new(&format!("async-skip-error-{:?}", pk), format!("async {:?} {}: {} (skipped {:?})", pk, ctxn, m, c.skipped))),
            Ok(Ok(Ok(nx))) => {
                ensure!(nx.normalized() == c.next.normalized(), &format!("async-skip-next-{:?}", pk), "async {:?} {}: value after skip decoded as {:?}, expected {:?}", pk, ctxn, nx, c.next);
                let handed = stats.handed.load(std::sync::atomic::Ordering::Relaxed);
                ensure!(handed == expect_len, &format!("async-skip-position-{:?}", pk), "async {:?} {}: {} bytes taken from the stream, the data occupies {}", pk, ctxn, handed, expect_len);
            }
        }
    }
    Ok(())
}

pub fn check_case(c: &Case) -> PResult {
    for pk in [PKind::Binary, PKind::BinaryLe, PKind::Compact] {
        check_bare(c, pk)?;
        check_field(c, pk)?;
        check_async(c, pk)?;
    }
    check_field(c, PKind::Unsafe)?;
    Ok(())
}

// ------------------------------------------------------------------------------------------
// depth limit

#[derive(Clone, Debug, Serialize, Deserialize, Hash)]
pub struct DepthCase {
    pub depth: usize,
    /// hop kinds along the chain: 0 struct, 1 list, 2 map value, 3 set
    pub hops: Vec<u8>,
}

impl Shrink for DepthCase {
    fn candidates(&self) -> Vec<Self> {
        let mut out = vec![];
        if self.hops.iter().any(|h| *h != 0) {
            out.push(DepthCase { hops: vec![0; self.hops.len()], ..self.clone() });
        }
        out
    }
}

pub fn chain(c: &DepthCase) -> TVal {
    let mut v = TVal::I32(7);
    for i in 0..c.depth {
        let hop = c.hops.get(i % c.hops.len().max(1)).copied().unwrap_or(0);
        v = match hop % 4 {
            1 => TVal::List(v.tt(), vec![v]),
            2 => TVal::Map(TT::I8, v.tt(), vec![(TVal::I8(1), v)]),
            3 => TVal::Set(v.tt(), vec![v]),
            _ => TVal::Struct(vec![((i % 9 + 1) as i16, v)]),
        };
    }
    v
}

fn check_depth(c: &DepthCase) -> PResult {
    let v = chain(c);
    let tt = v.tt();
    // documented limit 64: <= 60 must succeed, >= 66 must be refused with DepthLimit
    let expect_ok = c.depth + 1 <= 60;
    let expect_err = c.depth + 1 >= 66;
    for pk in [PKind::Binary, PKind::BinaryLe, PKind::Compact] {
        let data = vcore::refthrift::encode(pk.ref_proto(), &v);
        let len = data.len();
        let mut bytes = Bytes::from(data.clone());
        let r = catch(|| with_reader!(pk, &mut bytes, |p| p.skip(to_ttype(tt))));
        match r {
            Err(p) => return Err(Fail::new(&format!("depth-panic-{:?}", pk), format!("{:?}: skip of nesting {} panicked: {}", pk, c.depth + 1, p))),
            Ok(Ok(n)) => {
                ensure!(!expect_err, &format!("depth-not-refused-{:?}", pk), "{:?}: nesting {} was skipped instead of refused (documented limit 64)", pk, c.depth + 1);
                ensure!(n == len, &format!("skip-count-{:?}", pk), "{:?}: nesting {}: skip reported {} of {}", pk, c.depth + 1, n, len);
            }
            Ok(Err(e)) => {
                ensure!(!expect_ok, &format!("depth-refused-early-{:?}", pk), "{:?}: nesting {} refused although within the documented limit: {:?}", pk, c.depth + 1, e);
                ensure!(is_depth_limit(&e), &format!("depth-wrong-error-{:?}", pk), "{:?}: nesting {} refused with {:?}, expected a depth-limit error", pk, c.depth + 1, e);
            }
        }
        // async
        let (reader, _stats) = ScriptedReader::new(data, vec![]);
        let budget = 16 * len + 64;
        let r = catch(|| with_async_reader!(pk, reader, |p| block_on(p.skip(to_ttype(tt)), budget)));
        match r {
            Err(p) => return Err(Fail::new(&format!("async-depth-panic-{:?}", pk), format!("async {:?}: skip of nesting {} panicked: {}", pk, c.depth + 1, p))),
            Ok(Err(_)) => return Err(Fail::new(&format!("async-skip-hang-{:?}", pk), format!("async {:?}: poll budget exceeded at nesting {}", pk, c.depth + 1))),
            Ok(Ok(Ok(()))) => ensure!(!expect_err, &format!("async-depth-not-refused-{:?}", pk), "async {:?}: nesting {} was skipped instead of refused", pk, c.depth + 1),
            Ok(Ok(Err(e))) => {
                ensure!(!expect_ok, &format!("async-depth-refused-early-{:?}", pk), "async {:?}: nesting {} refused: {:?}", pk, c.depth + 1, e);
                ensure!(is_depth_limit(&e), &format!("async-depth-wrong-error-{:?}", pk), "async {:?}: nesting {} refused with {:?}", pk, c.depth + 1, e);
            }
        }
    }
    // the same value as a field of an enclosing struct (how generated code meets an unknown
    // field): the enclosing struct is one more level for the reader's own bookkeeping
    for pk in [PKind::Binary, PKind::BinaryLe, PKind::Compact] {
        let st = TVal::Struct(vec![(3, v.clone()), (4, TVal::I32(9))]);
        let data = vcore::refthrift::encode(pk.ref_proto(), &st);
        let mut bytes = Bytes::from(data);
        let r = catch(|| {
            with_reader!(pk, &mut bytes, |p| {
                p.read_struct_begin()?;
                let f = p.read_field_begin()?;
                let n = p.skip(f.field_type)?;
                p.read_field_end()?;
                let f2 = p.read_field_begin()?;
                let x = p.read_i32()?;
                p.read_field_end()?;
                let stop = p.read_field_begin()?;
                p.read_struct_end()?;
                Ok::<_, pilota::thrift::ThriftException>((n, f2.id, x, stop.field_type))
            })
        });
        match r {
            Err(p) => return Err(Fail::new(&format!("depth-field-panic-{:?}", pk), format!("{:?}: skipping nesting {} as a field of a struct panicked: {}", pk, c.depth + 1, p))),
            Ok(Ok((_, id, x, stop))) => {
                ensure!(!expect_err, &format!("depth-not-refused-{:?}", pk), "{:?}: nesting {} in field position was skipped instead of refused", pk, c.depth + 1);
                ensure!(id == Some(4) && x == 9 && stop == TType::Stop, &format!("depth-field-follow-{:?}", pk), "{:?}: after skipping nesting {} the following field read as id {:?} value {} then {:?}", pk, c.depth + 1, id, x, stop);
            }
            Ok(Err(e)) => {
                ensure!(!expect_ok, &format!("depth-refused-early-{:?}", pk), "{:?}: nesting {} in field position refused although within the documented limit: {:?}", pk, c.depth + 1, e);
            }
        }
    }
    // unchecked iterative skipper: documents no limit => exact skip or DepthLimit, never a crash
    {
        let st = TVal::Struct(vec![(1, v.clone())]);
        let mut data = vcore::refthrift::encode(vcore::refthrift::Proto::Binary, &st);
        let vlen = data.len() - 4; // field header (3) + stop (1)
        data.extend_from_slice(&[0u8; 32]);
        let mut bytes = Bytes::from(data);
        let r = catch(|| {
            let mut p = unsafe { pilota::thrift::binary_unsafe::TBinaryUnsafeInputProtocol::new(&mut bytes) };
            let f = p.read_field_begin()?;
            p.skip(f.field_type)
        });
        match r {
            Err(p) => return Err(Fail::new("depth-panic-Unsafe", format!("unchecked: skip of nesting {} panicked: {}", c.depth + 1, p))),
            Ok(Ok(n)) => ensure!(n == vlen, "skip-count-Unsafe", "unchecked: nesting {}: skip reported {} of {}", c.depth + 1, n, vlen),
            Ok(Err(e)) => ensure!(is_depth_limit(&e), "depth-wrong-error-Unsafe", "unchecked: nesting {} refused with {:?}", c.depth + 1, e),
        }
    }
    Ok(())
}

/// C12's view of the same chains: whatever the in-memory skipper answers at this nesting
/// (skipped or refused), the asynchronous skipper answers the same and takes the same bytes.
pub fn depth_differential(c: &DepthCase) -> PResult {
    let v = chain(c);
    let tt = v.tt();
    for pk in [PKind::Binary, PKind::BinaryLe, PKind::Compact] {
        let mut data = vcore::refthrift::encode(pk.ref_proto(), &v);
        let len = data.len();
        data.extend_from_slice(&[0xA5; 8]);
        let mut bytes = Bytes::from(data.clone());
        let s = match catch(|| with_reader!(pk, &mut bytes, |p| p.skip(to_ttype(tt)))) {
            Ok(r) => r.is_ok(),
            Err(_) => continue, // a panicking in-memory skipper is C09's subject
        };
        let (reader, stats) = ScriptedReader::new(data, vec![Step::Chunk(7), Step::Pending, Step::Chunk(1)]);
        let budget = 64 * len + 256;
        let a = match catch(|| with_async_reader!(pk, reader, |p| block_on(p.skip(to_ttype(tt)), budget))) {
            Err(p) => return Err(Fail::new(&format!("async-depth-panic-{:?}", pk), format!("async {:?}: skip of nesting {} panicked: {}", pk, c.depth + 1, p))),
            Ok(Err(_)) => return Err(Fail::new(&format!("async-skip-hang-{:?}", pk), format!("async {:?}: poll budget exceeded at nesting {}", pk, c.depth + 1))),
            Ok(Ok(r)) => r.is_ok(),
        };
        ensure!(s == a, &format!("async-depth-differs-{:?}", pk), "{:?}: nesting {} through hops {:?}: the in-memory skipper {} it, the asynchronous skipper {} it", pk, c.depth + 1, c.hops, if s { "skips" } else { "refuses" }, if a { "skips" } else { "refuses" });
        if s {
            let handed = stats.handed.load(std::sync::atomic::Ordering::Relaxed);
            ensure!(handed == len, &format!("async-depth-overread-{:?}", pk), "{:?}: nesting {}: asynchronous skip took {} bytes, the value has {}", pk, c.depth + 1, handed, len);
        }
    }
    Ok(())
}

/// Very deep chains (far beyond any limit) must be refused, not overflow the stack. Runs in a
/// child process on a 2 MiB thread so that a stack overflow is observable as the child's death.
/// Containers with more elements than a 16-bit counter holds (and around that border).
fn big_cases() -> Vec<(String, TVal)> {
    let mut bigs: Vec<(String, TVal)> = vec![];
    for n in [65_535usize, 65_536, 65_537, 70_001] {
        bigs.push((format!("list<binary> x {}", n), TVal::List(TT::Binary, (0..n).map(|i| TVal::Binary(if i % 1000 == 0 { b"x".to_vec() } else { vec![] })).collect())));
        bigs.push((format!("set<struct> x {}", n), TVal::Set(TT::Struct, (0..n).map(|i| TVal::Struct(if i % 4096 == 0 { vec![(1, TVal::I8(1))] } else { vec![] })).collect())));
    }
    for n in [32_767usize, 32_768, 32_769, 40_001] {
        bigs.push((format!("map<binary,i8> x {}", n), TVal::Map(TT::Binary, TT::I8, (0..n).map(|i| (TVal::Binary(vec![(i % 251) as u8]), TVal::I8(1))).collect())));
    }
    // one payload around and beyond 64 KiB (where a reader that grows its buffer starts growing it)
    for n in [65_535usize, 65_536, 65_537, 131_073, 200_001] {
        let pay = TVal::Binary((0..n).map(|i| b'a' + (i % 23) as u8).collect());
        bigs.push((format!("binary of {} bytes", n), pay.clone()));
        bigs.push((format!("struct with a binary of {} bytes", n), TVal::Struct(vec![(1, TVal::I16(5)), (2, pay.clone()), (3, TVal::Binary(b"after".to_vec()))])));
        bigs.push((format!("map<i32,binary> with a value of {} bytes", n), TVal::Map(TT::I32, TT::Binary, vec![(TVal::I32(1), pay), (TVal::I32(2), TVal::Binary(b"z".to_vec()))])));
    }
    bigs
}

pub fn deep_probe_child() -> i32 {
    let h = std::thread::Builder::new()
        .stack_size(2 << 20)
        .spawn(|| {
            // C09 only asks whether the process survives: keep going behind a refusal failure
            let go_on = std::env::var("VERIF_DEEP_CONTINUE").is_ok();
            let mut failed = false;
            for depth in [1_000usize, 20_000, 200_000] {
                for hop in [0u8, 1, 2] {
                    let c = DepthCase { depth, hops: vec![hop] };
                    // build encodings without recursion
                    for pk in [PKind::Binary, PKind::BinaryLe, PKind::Compact] {
                        let data = deep_bytes(pk, depth, hop);
                        let tt = match hop {
                            1 => TType::List,
                            2 => TType::Map,
                            _ => TType::Struct,
                        };
                        let mut bytes = Bytes::from(data.clone());
                        let r = with_reader!(pk, &mut bytes, |p| p.skip(tt));
                        match r {
                            Err(e) if is_depth_limit(&e) => {}
                            o => {
                                println!("DEEP-FAIL sync {:?} depth {} hop {}: {:?}", pk, c.depth, hop, o.map_err(|e| format!("{:?}", e)));
                                if !go_on {
                                    return 1;
                                }
                                failed = true;
                            }
                        }
                        let (reader, _s) = ScriptedReader::new(data, vec![]);
                        let r = with_async_reader!(pk, reader, |p| block_on(p.skip(tt), usize::MAX));
                        match r {
                            Ok(Err(e)) if is_depth_limit(&e) => {}
                            o => {
                                println!("DEEP-FAIL async {:?} depth {} hop {}: {:?}", pk, c.depth, hop, o.map(|r| r.map_err(|e| format!("{:?}", e))).map_err(|_| "budget"));
                                if !go_on {
                                    return 1;
                                }
                                failed = true;
                            }
                        }
                    }
                    // unchecked (iterative): exact skip or DepthLimit
                    let mut data = vec![12u8, 0, 1];
                    let inner = deep_bytes(PKind::Binary, depth, hop);
                    let tcode = match hop {
                        1 => 15u8,
                        2 => 13,
                        _ => 12,
                    };
                    data[0] = tcode;
                    data.extend_from_slice(&inner);
                    data.push(0);
                    data.extend_from_slice(&[0u8; 32]);
                    let mut bytes = Bytes::from(data);
                    let mut p = unsafe { pilota::thrift::binary_unsafe::TBinaryUnsafeInputProtocol::new(&mut bytes) };
                    let f = p.read_field_begin().unwrap();
                    match p.skip(f.field_type) {
                        Ok(n) if n == inner.len() => {}
                        Err(e) if is_depth_limit(&e) => {}
                        o => {
                            println!("DEEP-FAIL unchecked depth {} hop {}: {:?} (value occupies {})", depth, hop, o.map_err(|e| format!("{:?}", e)), inner.len());
                            if !go_on {
                                return 1;
                            }
                            failed = true;
                        }
                    }
                }
            }
            if failed {
                return 1;
            }
            println!("DEEP-OK");
            0
        })
        .unwrap();
    h.join().unwrap_or(3)
}

/// Encoding of a chain of `depth` nested containers around an i32, built iteratively.
fn deep_bytes(pk: PKind, depth: usize, hop: u8) -> Vec<u8> {
    let compact = pk == PKind::Compact;
    let le = pk == PKind::BinaryLe;
    let i32b = |x: i32| if le { x.to_le_bytes() } else { x.to_be_bytes() };
    let i16b = |x: i16| if le { x.to_le_bytes() } else { x.to_be_bytes() };
    let mut pre: Vec<u8> = vec![];
    let mut post: Vec<u8> = vec![];
    for i in 0..depth {
        let last = i + 1 == depth;
        match (hop, compact) {
            (0, false) => {
                pre.push(if last { 8 } else { 12 });
                pre.extend_from_slice(&i16b(1));
                post.push(0);
            }
            (0, true) => {
                pre.push((1 << 4) | if last { 5 } else { 12 });
                post.push(0);
            }
            (1, false) => {
                pre.push(if last { 8 } else { 15 });
                pre.extend_from_slice(&i32b(1));
            }
            (1, true) => pre.push((1 << 4) | if last { 5 } else { 9 }),
            (_, false) => {
                pre.push(3);
                pre.push(if last { 8 } else { 13 });
                pre.extend_from_slice(&i32b(1));
                pre.push(1);
            }
            (_, true) => {
                pre.push(1);
                pre.push((3 << 4) | if last { 5 } else { 11 });
                pre.push(1);
            }
        }
    }
    if compact {
        pre.push(14); // zigzag(7)
    } else {
        pre.extend_from_slice(&i32b(7));
    }
    post.reverse();
    pre.extend_from_slice(&post);
    pre
}

pub fn run(ctx: &Ctx) -> i32 {
    if ctx.args.iter().any(|a| a == "--deep-probe") {
        return deep_probe_child();
    }
    vcore::evidence::quiet_panics();
    let rec = new_rec(ctx, "C07");
    {
        let mut r = rec.borrow_mut();
        r.rule = "case = (value to skip of any wire type, following value, field ids, trailing bytes); reference-encoded, then skipped by pilota standing alone and as a struct field (read_field_begin, skip, read_field_end), sync (binary, LE, compact, unchecked) and async (binary, LE, compact, chunked stream with Pending); oracle: reported count = reference length, position = reference length, following value decodes equal; non-trivial = skipped value is a container/struct; depth chains 1..80 through struct/list/map/set hops: <=60 must succeed, >=66 must be DepthLimit; chains of 1e3..2e5 levels in a child process on a 2 MiB stack".into();
        r.assumptions = vec![
            "nesting 61..65 is accepted either way (documented limit 64, boundary not fixed by the property)".into(),
            "the unchecked skipper documents no limit: exact skip or DepthLimit accepted".into(),
        ];
    }
    if let Some(rp) = &ctx.replay {
        let sub = rp["case"]["sub"].as_str().unwrap_or("");
        if sub == "skip-big" {
            let name = rp["case"]["case"]["big"].as_str().unwrap_or("").to_string();
            let Some((_, v)) = big_cases().into_iter().find(|(n, _)| *n == name) else {
                eprintln!("replay: unknown big container {}", name);
                return 2;
            };
            let c = Case { skipped: v, next: TVal::Binary(b"tail".to_vec()), id1: 1, id2: 2, sentinel: vec![0xEE; 3] };
            return match check_case(&c) {
                Ok(()) => {
                    println!("replay: property holds on this case");
                    0
                }
                Err(f) => {
                    println!("VIOLATION property=C07 replay={}", ctx.replay_path.clone().unwrap_or_default());
                    println!("  key={} {} [{}]", f.key, vcore::evidence::truncate(&f.msg, 400), name);
                    1
                }
            };
        }
        let res = if sub == "depth" {
            check_depth(&serde_json::from_value(rp["case"]["case"].clone()).expect("replay case"))
        } else {
            check_case(&serde_json::from_value(rp["case"]["case"].clone()).expect("replay case"))
        };
        return match res {
            Ok(()) => {
                println!("replay: property holds on this case");
                0
            }
            Err(f) => {
                println!("VIOLATION property=C07 replay={}", ctx.args.first().cloned().unwrap_or_default());
                println!("  key={} {}", f.key, f.msg);
                1
            }
        };
    }
    let cases = ctx.tier.pick(20_000, 600_000);
    let res = run_prop(&rec, "c07", cases, arb_case(), |c: &Case| {
        {
            let mut r = rec.borrow_mut();
            let t = c.skipped.tt();
            r.case(fp(c), t.is_container(), || json!(format!("skip {:?} then {:?} ids=({},{}) sentinel={}", c.skipped, c.next, c.id1, c.id2, c.sentinel.len())));
            r.class(&format!("skipped {:?}", t));
            let s = vcore::tval::shape_of(&c.skipped);
            r.class_if(s.has_uuid, "contains uuid");
            r.class_if(s.empty_map, "contains empty map");
            r.class_if(s.big_payload, "payload >= 4096");
            r.class_if(s.long_collection, "collection >= 15");
            r.class_if(s.bool_field, "contains bool field");
            if let TVal::Map(k, v, es) = &c.skipped {
                if !es.is_empty() {
                    let fixed = |t: &TT| !matches!(t, TT::Binary | TT::Struct | TT::Map | TT::Set | TT::List);
                    r.class_if(fixed(k) && fixed(v), "map fixed-size entries");
                    r.class_if(!(fixed(k) && fixed(v)), "map variable-size entries");
                }
            }
            r.class_if(!c.sentinel.is_empty(), "trailing bytes");
        }
        check_case(c)
    });
    if let Some((case, f)) = res {
        report(ctx, &rec, "skip", &case, &f);
    }
    // containers of things that occupy the fewest bytes their type can (empty maps are one byte
    // under compact, empty structs one byte everywhere, empty lists / strings little more), with
    // nothing or very little behind them: a size bound derived from a wrong minimum width shows here
    {
        let empties: Vec<(&str, TT, TVal)> = vec![
            ("empty map", TT::Map, TVal::Map(TT::I32, TT::I32, vec![])),
            ("empty struct", TT::Struct, TVal::Struct(vec![])),
            ("empty list", TT::List, TVal::List(TT::I8, vec![])),
            ("empty set", TT::Set, TVal::Set(TT::Binary, vec![])),
            ("empty string", TT::Binary, TVal::Binary(vec![])),
            ("false", TT::Bool, TVal::Bool(false)),
        ];
        let mut reported = std::collections::BTreeSet::new();
        for (name, et, ev) in &empties {
            for n in [1usize, 2, 3, 5, 8, 14, 15, 16, 40] {
                let mut shapes: Vec<(String, TVal)> = vec![
                    (format!("list of {} x {}", n, name), TVal::List(*et, vec![ev.clone(); n])),
                    (format!("set of {} x {}", n, name), TVal::Set(*et, vec![ev.clone(); n])),
                    (format!("map i8 -> {} x {}", name, n), TVal::Map(TT::I8, *et, (0..n).map(|i| (TVal::I8(i as i8), ev.clone())).collect())),
                ];
                if matches!(et, TT::Binary | TT::Struct) {
                    shapes.push((format!("map {} -> i8 x {}", name, n), TVal::Map(*et, TT::I8, (0..n).map(|i| (ev.clone(), TVal::I8(i as i8))).collect())));
                }
                for (what, v) in shapes {
                    for (next, sentinel) in [(TVal::Bool(true), vec![]), (TVal::I8(1), vec![0u8]), (TVal::Binary(b"ab".to_vec()), vec![1, 2, 3])] {
                        let c = Case { skipped: v.clone(), next, id1: 1, id2: 2, sentinel };
                        {
                            let mut r = rec.borrow_mut();
                            r.case(fp(&c), true, || json!({"skipped": what, "next": format!("{:?}", c.next)}));
                            r.class("container of minimal elements");
                        }
                        if let Err(f) = check_case(&c) {
                            if reported.insert(f.key.clone()) {
                                report(ctx, &rec, "skip", &c, &f);
                            }
                        }
                    }
                }
            }
        }
    }
    // containers with more elements than fit a 16-bit counter (and around that border), of
    // variable-width elements so that no fixed-size fast path applies
    {
        let bigs = big_cases();
        for (what, v) in bigs {
            let c = Case { skipped: v, next: TVal::Binary(b"tail".to_vec()), id1: 1, id2: 2, sentinel: vec![0xEE; 3] };
            {
                let mut r = rec.borrow_mut();
                r.case(fp(&what), true, || json!({"skipped": what, "next": "bin\"tail\""}));
                r.class("container beyond 16-bit element counts");
            }
            if let Err(f) = check_case(&c) {
                // the replay carries the description, not a quarter of a megabyte of elements
                let f = Fail::new(&f.key, format!("{} [{}]", vcore::evidence::truncate(&f.msg, 400), what));
                report(ctx, &rec, "skip-big", &json!({"big": what}), &f);
                break;
            }
        }
    }
    // depth limit: every depth 1..=80, several hop patterns
    let mut depth_cases = vec![];
    for depth in 0..=80usize {
        for hops in [vec![0u8], vec![1], vec![2], vec![3], vec![0, 1, 2, 3], vec![0, 0, 1]] {
            depth_cases.push(DepthCase { depth, hops });
        }
    }
    let mut reported = std::collections::BTreeSet::new();
    for c in &depth_cases {
        {
            let mut r = rec.borrow_mut();
            r.case(fp(c), c.depth >= 1, || json!(format!("{:?}", c)));
            r.class("depth chain");
            r.class_if(c.depth + 1 >= 66, "depth chain beyond limit");
        }
        if let Err(f) = check_depth(c) {
            if reported.insert(f.key.clone()) {
                report(ctx, &rec, "depth", c, &f);
            }
        }
    }
    // far-beyond-limit chains in a child (stack exhaustion = child death)
    let exe = std::env::current_exe().unwrap();
    let out = std::process::Command::new(exe).args(["C07", "--deep-probe"]).output();
    match out {
        Ok(o) => {
            let so = String::from_utf8_lossy(&o.stdout).to_string();
            let mut r = rec.borrow_mut();
            r.case(fp(&"deep-probe"), true, || json!("deep chains 1e3,2e4,2e5 x {struct,list,map} x protocols in a 2 MiB-stack child"));
            r.class("deep chain probe (child process)");
            drop(r);
            if !(o.status.success() && so.contains("DEEP-OK")) {
                let f = Fail::new("deep-chain", format!("deep-chain probe child failed: status {:?} stdout {} stderr {}", o.status, so, String::from_utf8_lossy(&o.stderr)));
                report(ctx, &rec, "deep", &json!({"probe": "deep"}), &f);
            }
        }
        Err(e) => {
            eprintln!("INFRA: cannot spawn deep probe: {}", e);
            return 2;
        }
    }
    let _ = struct_chain;
    if rec.borrow().violations.is_empty() {
        if let Some(c) = require_classes(&rec, &["skipped Struct", "skipped Map", "skipped Uuid", "skipped Bool", "contains uuid", "contains empty map", "map fixed-size entries", "map variable-size entries", "collection >= 15", "contains bool field", "trailing bytes", "depth chain beyond limit"]) {
            rec.borrow().finish(&ctx.findings);
            return c;
        }
    }
    let code = rec.borrow().finish(&ctx.findings);
    code
}

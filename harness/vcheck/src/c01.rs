//! C01 Thrift runtime round trip on every protocol and buffer kind.
use crate::common::*;
use crate::Ctx;
use proptest::prelude::*;
use serde::{Deserialize, Serialize};
use serde_json::json;
use vcore::ensure;
use vcore::evidence::{catch, run_prop, PResult};
use vcore::shrink::Shrink;
use vcore::tval::{arb_any, arb_of, shape_of, GenCfg, TVal, TT};
use vrt::codec::*;
use vrt::interp::ReadOpts;

#[derive(Clone, Debug, Serialize, Deserialize, Hash)]
pub struct Case {
    pub items: Vec<Item>,
    pub utf8: bool,
    pub flavor_w: u8,
    pub flavor_r: u8,
}

pub fn arb_item(depth: u32, cfg: GenCfg) -> BoxedStrategy<Item> {
    prop_oneof![
        5 => arb_any(depth, cfg).prop_map(Item::Val),
        // method names: usual identifiers, the empty name, and long ones (inline-string limits,
        // one- vs two-byte length varints)
        1 => (prop_oneof![
                6 => "[a-zA-Z_][a-zA-Z0-9_.]{0,20}".boxed(),
                1 => Just(String::new()).boxed(),
                2 => (prop::sample::select(vec![23usize, 24, 25, 31, 32, 63, 64, 127, 128, 129, 300]), "[a-zA-Z]").prop_map(|(n, c)| c.repeat(n)).boxed(),
            ], 1u8..=4, vcore::tval::arb_i32(), arb_of(TT::Struct, depth, cfg))
            .prop_map(|(name, mtype, seq, body)| Item::Msg { name, mtype, seq, body }),
    ]
    .boxed()
}

pub fn arb_case(max_depth: u32) -> BoxedStrategy<Case> {
    (any::<bool>(), 0..=max_depth)
        .prop_flat_map(|(utf8, depth)| {
            let cfg = GenCfg {
                utf8,
                ..GenCfg::default()
            };
            (
                prop::collection::vec(arb_item(depth, cfg), 1..=4),
                Just(utf8),
                any::<u8>(),
                any::<u8>(),
            )
        })
        .prop_map(|(items, utf8, flavor_w, flavor_r)| Case {
            items,
            utf8,
            flavor_w,
            flavor_r,
        })
        .boxed()
}

impl vcore::shrink::Shrink for Case {
    fn candidates(&self) -> Vec<Case> {
        let mut out = vec![];
        let n = self.items.len();
        if n > 1 {
            for i in 0..n {
                let mut c = self.clone();
                c.items.remove(i);
                out.push(c);
            }
        }
        for i in 0..n {
            match &self.items[i] {
                Item::Val(v) => {
                    for cv in v.candidates() {
                        let mut c = self.clone();
                        c.items[i] = Item::Val(cv);
                        out.push(c);
                    }
                }
                Item::Msg { name, mtype, seq, body } => {
                    let mut c = self.clone();
                    c.items[i] = Item::Val(body.clone());
                    out.push(c);
                    for cv in vcore::shrink::same_type_candidates(body) {
                        let mut c = self.clone();
                        c.items[i] = Item::Msg { name: name.clone(), mtype: *mtype, seq: *seq, body: cv };
                        out.push(c);
                    }
                    if name != "m" || *seq != 0 {
                        let mut c = self.clone();
                        c.items[i] = Item::Msg { name: "m".into(), mtype: *mtype, seq: 0, body: body.clone() };
                        out.push(c);
                    }
                }
            }
        }
        if self.flavor_w != 0 || self.flavor_r != 0 {
            let mut c = self.clone();
            c.flavor_w = 0;
            c.flavor_r = 0;
            out.push(c);
        }
        out
    }
}

fn expect_item(it: &Item) -> ReadItem {
    match it {
        Item::Val(v) => ReadItem::Val(v.normalized()),
        Item::Msg { name, mtype, seq, body } => ReadItem::Msg {
            name: name.as_bytes().to_vec(),
            mtype: *mtype,
            seq: *seq,
            body: body.normalized(),
        },
    }
}

fn norm_read(r: &ReadItem) -> ReadItem {
    match r {
        ReadItem::Val(v) => ReadItem::Val(v.normalized()),
        ReadItem::Msg { name, mtype, seq, body } => ReadItem::Msg {
            name: name.clone(),
            mtype: *mtype,
            seq: *seq,
            body: body.normalized(),
        },
    }
}

pub fn check_case(c: &Case) -> PResult {
    let wants: Vec<Want> = c
        .items
        .iter()
        .map(|it| Want {
            tt: it.val().tt(),
            envelope: matches!(it, Item::Msg { .. }),
        })
        .collect();
    let ro = ReadOpts {
        flavor: c.flavor_r,
        utf8: c.utf8,
        max_depth: 200,
    };
    for pk in ALL_PK {
        let mut reference: Option<Vec<u8>> = None;
        for bk in ALL_BK {
            let tag = format!("{:?}/{:?}", pk, bk);
            let out = match catch(|| write_items(pk, bk, &c.items, c.flavor_w)) {
                Err(p) => return Err(vcore::evidence::Fail::new(&format!("write-panic-{:?}", pk), format!("{}: writer panicked: {}", tag, p))),
                Ok(Err(e)) => return Err(vcore::evidence::Fail::new(&format!("write-error-{:?}", pk), format!("{}: writer returned an error on a well-typed value: {}", tag, e))),
                Ok(Ok(o)) => o,
            };
            ensure!(out.guards_ok, &format!("guard-{:?}", pk), "{}: bytes outside the exact-size output region were modified", tag);
            // (iii) every buffer kind yields the same bytes
            match &reference {
                None => reference = Some(out.bytes.clone()),
                Some(r) => ensure!(
                    *r == out.bytes,
                    &format!("buffer-kinds-differ-{:?}", pk),
                    "{}: flattened output differs from the BytesMut output ({} vs {} bytes)",
                    tag,
                    out.bytes.len(),
                    r.len()
                ),
            }
            ensure!(
                *out.ends.last().unwrap() == out.bytes.len(),
                &format!("position-{:?}", pk),
                "{}: writer position {} != bytes on buffer {}",
                tag,
                out.ends.last().unwrap(),
                out.bytes.len()
            );
            // (i)+(ii) read everything back with one reader instance
            let rd = match catch(|| read_items(pk, &out.bytes, &wants, ro)) {
                Err(p) => return Err(vcore::evidence::Fail::new(&format!("read-panic-{:?}", pk), format!("{}: reader panicked: {}", tag, p))),
                Ok(r) => r,
            };
            for (i, it) in c.items.iter().enumerate() {
                let got = rd.items.get(i);
                match got {
                    Some(Ok(r)) => {
                        ensure!(
                            norm_read(r) == expect_item(it),
                            &format!("value-mismatch-{:?}", pk),
                            "{}: item {} read back differs:\n wrote {:?}\n read  {:?}",
                            tag,
                            i,
                            it,
                            r
                        );
                    }
                    Some(Err(e)) => {
                        return Err(vcore::evidence::Fail::new(
                            &format!("read-error-{:?}", pk),
                            format!("{}: item {} failed to read back: {} (wrote {:?})", tag, i, e, it),
                        ))
                    }
                    None => {
                        return Err(vcore::evidence::Fail::new(
                            &format!("read-error-{:?}", pk),
                            format!("{}: item {} not reached", tag, i),
                        ))
                    }
                }
                ensure!(
                    rd.consumed[i] == out.ends[i],
                    &format!("consumed-mismatch-{:?}", pk),
                    "{}: after item {} reader consumed {} bytes, writer wrote {}",
                    tag,
                    i,
                    rd.consumed[i],
                    out.ends[i]
                );
            }
        }
    }
    Ok(())
}

pub fn run(ctx: &Ctx) -> i32 {
    vcore::evidence::quiet_panics();
    let rec = new_rec(ctx, "C01");
    {
        let mut r = rec.borrow_mut();
        r.rule = "case = history of 1..4 items (value of any wire type, or message envelope + struct) written back to back with one writer instance and read with one reader instance, under 4 protocols x 3 buffer kinds; non-trivial = some item nests >= 2 levels or the history has >= 2 items; distinct by hash of the whole case".into();
        r.assumptions = vec![
            "unchecked writer is given a pre-sized exact-length region (its documented contract), guard bytes around it".into(),
            "string-typed entry points are only used for valid UTF-8 payloads".into(),
        ];
    }
    if let Some(rp) = &ctx.replay {
        let case: Case = serde_json::from_value(rp["case"]["case"].clone()).expect("replay case");
        return match check_case(&case) {
            Ok(()) => {
                println!("replay: property holds on this case");
                0
            }
            Err(f) => {
                println!("VIOLATION property=C01 replay={}", ctx.args.first().cloned().unwrap_or_default());
                println!("  key={} {}", f.key, f.msg);
                1
            }
        };
    }
    let cases = ctx.tier.pick(40_000, 1_500_000);
    let res = run_prop(&rec, "c01", cases, arb_case(4), |c: &Case| {
        {
            let mut r = rec.borrow_mut();
            let nontrivial = c.items.len() >= 2 || c.items.iter().any(|i| i.val().depth() >= 2);
            r.case(fp(c), nontrivial, || json!(format!("{:?}", c.items)));
            if !r.is_frozen() {
                for it in &c.items {
                    let s = shape_of(it.val());
                    r.class_if(s.sibling_after_nested_struct, "field after nested struct");
                    r.class_if(s.has_double, "double");
                    r.class_if(s.has_uuid, "uuid");
                    r.class_if(s.big_payload, "payload >= 4096");
                    r.class_if(s.long_form_id, "long-form field id");
                    r.class_if(s.negative_id, "negative field id");
                    r.class_if(s.empty_map, "empty map");
                    r.class_if(s.bool_field, "bool field");
                    r.class_if(s.bool_elem, "bool element");
                    r.class_if(s.long_collection, "collection >= 15");
                    r.class_if(matches!(it, Item::Msg { .. }), "envelope");
                }
                r.class_if(c.items.len() >= 2, "history >= 2");
                r.class_if(
                    c.items.len() >= 2 && matches!(c.items[0], Item::Msg { .. }),
                    "envelope followed by value",
                );
            }
        }
        check_case(c)
    });
    if let Some((case, f)) = res {
        report(ctx, &rec, "roundtrip", &case, &f);
    }
    if rec.borrow().violations.is_empty() {
        if let Some(c) = require_classes(
            &rec,
            &[
                "field after nested struct",
                "double",
                "uuid",
                "payload >= 4096",
                "long-form field id",
                "negative field id",
                "empty map",
                "bool field",
                "bool element",
                "collection >= 15",
                "envelope followed by value",
            ],
        ) {
            rec.borrow().finish(&ctx.findings);
            return c;
        }
    }
    let code = rec.borrow().finish(&ctx.findings);
    code
}

#[allow(dead_code)]
pub fn _unused(_: &TVal) {}

#!/bin/bash
# usage: harness/fuzz.sh <Cxx> [runs-per-target]
# Builds the libFuzzer targets of a property against /repo's current tree and runs each for a
# fixed number of executions. Writes work/fuzz-<id>.json. exit 0 no failure / 1 violation / 2 infrastructure.
set -u
ID="$1"; RUNS="${2:-200000}"
ROOT="$(cd "$(dirname "$0")/.." && pwd)"
export VERIF_ROOT="$ROOT" CARGO_NET_OFFLINE=true
case "$ID" in
  C01) T="c01_roundtrip";; C03) T="c03_interop";; C07) T="c07_skip";; C09) T="c09_total c09_raw";;
  C05) T="c05_pb_dyn";; C18) T="c18_pb_merge";; C10) T="c10_pb_raw";; C11) T="c11_unchecked";; C12) T="c12_async";; C15) T="c15_print_parse";; C16) T="c16_parse";;
  *) echo "no fuzz target for $ID"; exit 0;;
esac
cd "$ROOT/harness" || exit 2   # cargo-fuzz wants to start inside a cargo project; the fuzz crate is named explicitly
mkdir -p "$ROOT/work" "$ROOT/replays"
export CARGO_TARGET_DIR="$ROOT/fuzz/target"
SEED=$(( ${VERIF_SEED:-0} + 1 ))
OUT="$ROOT/work/fuzz-$ID.json"; echo "[" >"$OUT.tmp"; first=1; code=0
for t in $T; do
  LOG="$ROOT/work/fuzz-$t.log"
  if ! cargo +nightly fuzz build --fuzz-dir "$ROOT/fuzz" "$t" >"$LOG" 2>&1; then echo "INFRA: fuzz build of $t failed (see $LOG)" >&2; tail -20 "$LOG" >&2; exit 2; fi
  C="$ROOT/work/fuzz-corpus-$t"; A="$ROOT/work/fuzz-artifacts-$t"
  python3 -c "import shutil,sys; [shutil.rmtree(p, ignore_errors=True) for p in sys.argv[1:]]" "$C" "$A"; mkdir -p "$C" "$A"
  # a few seed inputs of full length so the strategies have random choices to consume from the start
  python3 - "$C" "$SEED" <<'PY'
import sys, random
r = random.Random(int(sys.argv[2]))
for i, n in enumerate([64, 256, 1024, 2048]):
    open(f"{sys.argv[1]}/seed{i}", "wb").write(bytes(r.getrandbits(8) for _ in range(n)))
PY
  EXTRA=""
  if [ "$t" = c16_parse ]; then
    # valid documents of the repository's own tests as seeds, IDL tokens as dictionary
    i=0; for f in /repo/pilota-build/test_data/thrift/*.thrift; do cp "$f" "$C/idl$i"; i=$((i+1)); done
    EXTRA="-dict=$ROOT/fuzz/idl.dict"
  fi
  timeout 3600 cargo +nightly fuzz run --fuzz-dir "$ROOT/fuzz" "$t" "$C" -- -runs="$RUNS" -seed="$SEED" -len_control=0 -max_len=4096 -malloc_limit_mb=512 -rss_limit_mb=4096 -timeout=60 -artifact_prefix="$A/" -print_final_stats=1 $EXTRA >>"$LOG" 2>&1
  rc=$?
  execs=$(grep -o "stat::number_of_executed_units: [0-9]*" "$LOG" | tail -1 | grep -o "[0-9]*$")
  cov=$(grep -Eo "cov: [0-9]+" "$LOG" | tail -1 | grep -o "[0-9]*$")
  ft=$(grep -Eo "ft: [0-9]+" "$LOG" | tail -1 | grep -o "[0-9]*$")
  corp=$(ls "$C" | wc -l)
  [ $first = 1 ] || echo "," >>"$OUT.tmp"; first=0
  echo "{\"target\":\"$t\",\"runs_requested\":$RUNS,\"executions\":${execs:-0},\"coverage_edges\":${cov:-0},\"features\":${ft:-0},\"corpus_files\":$corp,\"libfuzzer_seed\":$SEED,\"exit\":$rc}" >>"$OUT.tmp"
  if grep -q "^VIOLATION" "$LOG"; then grep -A1 "^VIOLATION" "$LOG" | head -4; code=1
  elif [ $rc = 124 ]; then echo "INCONCLUSIVE: fuzz campaign $t hit its wall-clock cap" >&2; [ $code = 0 ] && code=2
  elif grep -q "ERROR: libFuzzer: timeout\|ERROR: libFuzzer: out-of-memory" "$LOG"; then
    # a per-input time or memory budget is a resource limit of the campaign, not an oracle
    echo "INCONCLUSIVE: libFuzzer target $t stopped on a time / memory budget (input kept under $A)" >&2; [ $code = 0 ] && code=2
  elif [ $rc != 0 ]; then
    art=$(ls -t "$A" 2>/dev/null | head -1)
    echo "VIOLATION property=$ID replay=$A/$art"; echo "  libFuzzer target $t stopped (exit $rc): $(grep -m1 -E 'ERROR: (AddressSanitizer|libFuzzer)|panicked|deadly signal' "$LOG")"; code=1
  fi
done
echo "]" >>"$OUT.tmp"; mv "$OUT.tmp" "$OUT"
exit $code

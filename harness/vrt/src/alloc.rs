//! Counting global allocator. Counters are per thread; a check brackets the call under
//! observation with `begin()` / `end()`.
use std::alloc::{GlobalAlloc, Layout, System};
use std::cell::Cell;

pub struct Counting;

/// Bytes requested by all threads since process start (a monitor thread can watch a runaway
/// computation on another thread through it).
pub static GLOBAL_TOTAL: std::sync::atomic::AtomicUsize = std::sync::atomic::AtomicUsize::new(0);
/// Number of allocation requests served to all threads since process start.
pub static GLOBAL_ALLOCS: std::sync::atomic::AtomicUsize = std::sync::atomic::AtomicUsize::new(0);

thread_local! {
    static LIVE: Cell<isize> = const { Cell::new(0) };
    static PEAK: Cell<isize> = const { Cell::new(0) };
    static MAX_REQ: Cell<usize> = const { Cell::new(0) };
    static TOTAL: Cell<usize> = const { Cell::new(0) };
    static ALLOCS: Cell<usize> = const { Cell::new(0) };
    /// requests above this size are refused (null) while armed; 0 = no cap
    static HARD_CAP: Cell<usize> = const { Cell::new(0) };
    static REFUSED: Cell<usize> = const { Cell::new(0) };
}

#[inline]
fn on_alloc(size: usize) {
    let _ = LIVE.try_with(|l| {
        let v = l.get() + size as isize;
        l.set(v);
        let _ = PEAK.try_with(|p| {
            if v > p.get() {
                p.set(v)
            }
        });
    });
    let _ = MAX_REQ.try_with(|m| {
        if size > m.get() {
            m.set(size)
        }
    });
    GLOBAL_TOTAL.fetch_add(size, std::sync::atomic::Ordering::Relaxed);
    GLOBAL_ALLOCS.fetch_add(1, std::sync::atomic::Ordering::Relaxed);
    let _ = TOTAL.try_with(|t| t.set(t.get().wrapping_add(size)));
    let _ = ALLOCS.try_with(|t| t.set(t.get().wrapping_add(1)));
}

#[inline]
fn on_free(size: usize) {
    let _ = LIVE.try_with(|l| l.set(l.get() - size as isize));
}

#[inline]
fn refused(size: usize) -> bool {
    let cap = HARD_CAP.try_with(|c| c.get()).unwrap_or(0);
    if cap != 0 && size > cap {
        let _ = REFUSED.try_with(|r| r.set(size));
        true
    } else {
        false
    }
}

unsafe impl GlobalAlloc for Counting {
    unsafe fn alloc(&self, layout: Layout) -> *mut u8 {
        if refused(layout.size()) {
            return std::ptr::null_mut();
        }
        let p = System.alloc(layout);
        if !p.is_null() {
            on_alloc(layout.size());
        }
        p
    }
    unsafe fn alloc_zeroed(&self, layout: Layout) -> *mut u8 {
        if refused(layout.size()) {
            return std::ptr::null_mut();
        }
        let p = System.alloc_zeroed(layout);
        if !p.is_null() {
            on_alloc(layout.size());
        }
        p
    }
    unsafe fn dealloc(&self, ptr: *mut u8, layout: Layout) {
        System.dealloc(ptr, layout);
        on_free(layout.size());
    }
    unsafe fn realloc(&self, ptr: *mut u8, layout: Layout, new_size: usize) -> *mut u8 {
        if new_size > layout.size() && refused(new_size) {
            return std::ptr::null_mut();
        }
        let p = System.realloc(ptr, layout, new_size);
        if !p.is_null() {
            on_free(layout.size());
            on_alloc(new_size);
        }
        p
    }
}

#[derive(Clone, Copy, Debug, Default)]
pub struct Snapshot {
    pub live: isize,
    pub peak_over_start: isize,
    pub max_request: usize,
    pub total: usize,
    pub allocs: usize,
}

/// Start an observation window on this thread: resets peak / max-request to the current level.
pub fn begin() -> isize {
    let live = LIVE.with(|l| l.get());
    PEAK.with(|p| p.set(live));
    MAX_REQ.with(|m| m.set(0));
    TOTAL.with(|t| t.set(0));
    ALLOCS.with(|t| t.set(0));
    live
}

pub fn end(start_live: isize) -> Snapshot {
    Snapshot {
        live: LIVE.with(|l| l.get()) - start_live,
        peak_over_start: PEAK.with(|p| p.get()) - start_live,
        max_request: MAX_REQ.with(|m| m.get()),
        total: TOTAL.with(|t| t.get()),
        allocs: ALLOCS.with(|t| t.get()),
    }
}

pub fn live() -> isize {
    LIVE.with(|l| l.get())
}

/// While a cap is set, any single request above it is refused (allocation failure => abort),
/// which turns an attempted multi-gigabyte allocation into an attributable worker death instead
/// of an OOM kill of the whole sandbox.
pub fn set_hard_cap(bytes: usize) {
    HARD_CAP.with(|c| c.set(bytes));
}

pub fn last_refused() -> usize {
    REFUSED.with(|r| r.get())
}

//! Value interpreters: drive pilota's primitive protocol API from a `TVal` (the only
//! pilota-facing code of the runtime checks).
use bytes::Bytes;
use faststr::FastStr;
use pilota::thrift::{
    TAsyncInputProtocol, TInputProtocol, TLengthProtocol, TListIdentifier, TMapIdentifier,
    TOutputProtocol, TSetIdentifier, TStructIdentifier, TType, ThriftException,
};
use vcore::tval::{TVal, TT};

pub fn to_ttype(t: TT) -> TType {
    match t {
        TT::Bool => TType::Bool,
        TT::I8 => TType::I8,
        TT::Double => TType::Double,
        TT::I16 => TType::I16,
        TT::I32 => TType::I32,
        TT::I64 => TType::I64,
        TT::Binary => TType::Binary,
        TT::Struct => TType::Struct,
        TT::Map => TType::Map,
        TT::Set => TType::Set,
        TT::List => TType::List,
        TT::Uuid => TType::Uuid,
    }
}

pub fn from_ttype(t: TType) -> Option<TT> {
    Some(match t {
        TType::Bool => TT::Bool,
        TType::I8 => TT::I8,
        TType::Double => TT::Double,
        TType::I16 => TT::I16,
        TType::I32 => TT::I32,
        TType::I64 => TT::I64,
        TType::Binary => TT::Binary,
        TType::Struct => TT::Struct,
        TType::Map => TT::Map,
        TType::Set => TT::Set,
        TType::List => TT::List,
        TType::Uuid => TT::Uuid,
        TType::Stop | TType::Void => return None,
    })
}

static IDENT: TStructIdentifier = TStructIdentifier { name: "v" };

/// Which of the four string/binary entry points is used for a payload. Flavors 2 and 3
/// (string APIs) are only legal for valid UTF-8 and are replaced by 0/1 otherwise.
fn flavor_for(b: &[u8], flavor: u8) -> u8 {
    let f = (flavor as usize + b.len()) % 4;
    if f >= 2 && std::str::from_utf8(b).is_err() {
        (f - 2) as u8
    } else {
        f as u8
    }
}

pub fn write_val<P: TOutputProtocol>(p: &mut P, v: &TVal, flavor: u8) -> Result<(), ThriftException> {
    match v {
        TVal::Bool(b) => p.write_bool(*b),
        TVal::I8(x) => p.write_i8(*x),
        TVal::I16(x) => p.write_i16(*x),
        TVal::I32(x) => p.write_i32(*x),
        TVal::I64(x) => p.write_i64(*x),
        TVal::Double(bits) => p.write_double(f64::from_bits(*bits)),
        TVal::Binary(b) => match flavor_for(b, flavor) {
            0 => p.write_bytes(Bytes::copy_from_slice(b)),
            1 => p.write_bytes_vec(b),
            2 => p.write_string(std::str::from_utf8(b).unwrap()),
            _ => p.write_faststr(FastStr::new(std::str::from_utf8(b).unwrap())),
        },
        TVal::Uuid(u) => p.write_uuid(*u),
        TVal::Struct(fs) => {
            p.write_struct_begin(&IDENT)?;
            for (id, fv) in fs {
                p.write_field_begin(to_ttype(fv.tt()), *id)?;
                write_val(p, fv, flavor)?;
                p.write_field_end()?;
            }
            p.write_field_stop()?;
            p.write_struct_end()
        }
        TVal::List(t, es) => {
            p.write_list_begin(TListIdentifier::new(to_ttype(*t), es.len()))?;
            for e in es {
                write_val(p, e, flavor)?;
            }
            p.write_list_end()
        }
        TVal::Set(t, es) => {
            p.write_set_begin(TSetIdentifier::new(to_ttype(*t), es.len()))?;
            for e in es {
                write_val(p, e, flavor)?;
            }
            p.write_set_end()
        }
        TVal::Map(k, vt, es) => {
            p.write_map_begin(TMapIdentifier::new(to_ttype(*k), to_ttype(*vt), es.len()))?;
            for (a, b) in es {
                write_val(p, a, flavor)?;
                write_val(p, b, flavor)?;
            }
            p.write_map_end()
        }
    }
}

pub fn len_val<P: TLengthProtocol>(p: &mut P, v: &TVal, flavor: u8) -> usize {
    match v {
        TVal::Bool(b) => p.bool_len(*b),
        TVal::I8(x) => p.i8_len(*x),
        TVal::I16(x) => p.i16_len(*x),
        TVal::I32(x) => p.i32_len(*x),
        TVal::I64(x) => p.i64_len(*x),
        TVal::Double(bits) => p.double_len(f64::from_bits(*bits)),
        TVal::Binary(b) => match flavor_for(b, flavor) {
            0 => p.bytes_len(b),
            1 => p.bytes_vec_len(b),
            2 => p.string_len(std::str::from_utf8(b).unwrap()),
            _ => p.faststr_len(&FastStr::new(std::str::from_utf8(b).unwrap())),
        },
        TVal::Uuid(u) => p.uuid_len(*u),
        TVal::Struct(fs) => {
            let mut n = p.struct_begin_len(&IDENT);
            for (id, fv) in fs {
                n += p.field_begin_len(to_ttype(fv.tt()), Some(*id));
                n += len_val(p, fv, flavor);
                n += p.field_end_len();
            }
            n += p.field_stop_len();
            n + p.struct_end_len()
        }
        TVal::List(t, es) => {
            let mut n = p.list_begin_len(TListIdentifier::new(to_ttype(*t), es.len()));
            for e in es {
                n += len_val(p, e, flavor);
            }
            n + p.list_end_len()
        }
        TVal::Set(t, es) => {
            let mut n = p.set_begin_len(TSetIdentifier::new(to_ttype(*t), es.len()));
            for e in es {
                n += len_val(p, e, flavor);
            }
            n + p.set_end_len()
        }
        TVal::Map(k, vt, es) => {
            let mut n = p.map_begin_len(TMapIdentifier::new(to_ttype(*k), to_ttype(*vt), es.len()));
            for (a, b) in es {
                n += len_val(p, a, flavor);
                n += len_val(p, b, flavor);
            }
            n + p.map_end_len()
        }
    }
}

fn unsupported(t: TType) -> ThriftException {
    pilota::thrift::new_protocol_exception(
        pilota::thrift::ProtocolExceptionKind::InvalidData,
        format!("harness: no value of wire type {:?}", t),
    )
}

/// Upper bound on elements the harness reader accepts per container, so that a corrupted count
/// cannot make the *harness* loop for minutes (each iteration fails fast at end of input anyway).
const MAX_ELEMS: usize = 1 << 24;

#[derive(Clone, Copy)]
pub struct ReadOpts {
    pub flavor: u8,
    /// string-returning entry points may only be used when the payloads are valid UTF-8
    pub utf8: bool,
    pub max_depth: u32,
}

impl Default for ReadOpts {
    fn default() -> Self {
        ReadOpts {
            flavor: 0,
            utf8: false,
            max_depth: 200,
        }
    }
}

fn too_deep() -> ThriftException {
    pilota::thrift::new_protocol_exception(
        pilota::thrift::ProtocolExceptionKind::DepthLimit,
        "harness: value nests deeper than the harness reader allows",
    )
}

pub fn read_val<P: TInputProtocol>(p: &mut P, tt: TT, o: ReadOpts) -> Result<TVal, ThriftException> {
    if o.max_depth == 0 {
        return Err(too_deep());
    }
    let inner = ReadOpts {
        max_depth: o.max_depth - 1,
        ..o
    };
    Ok(match tt {
        TT::Bool => TVal::Bool(p.read_bool()?),
        TT::I8 => TVal::I8(p.read_i8()?),
        TT::I16 => TVal::I16(p.read_i16()?),
        TT::I32 => TVal::I32(p.read_i32()?),
        TT::I64 => TVal::I64(p.read_i64()?),
        TT::Double => TVal::Double(p.read_double()?.to_bits()),
        TT::Binary => {
            let f = if o.utf8 { o.flavor % 4 } else { o.flavor % 2 };
            TVal::Binary(match f {
                0 => p.read_bytes()?.to_vec(),
                1 => p.read_bytes_vec()?,
                2 => p.read_string()?.into_bytes(),
                _ => p.read_faststr()?.as_bytes().to_vec(),
            })
        }
        TT::Uuid => TVal::Uuid(p.read_uuid()?),
        TT::Struct => {
            p.read_struct_begin()?;
            let mut fs = vec![];
            loop {
                let fi = p.read_field_begin()?;
                if fi.field_type == TType::Stop {
                    break;
                }
                let ft = from_ttype(fi.field_type).ok_or_else(|| unsupported(fi.field_type))?;
                let v = read_val(p, ft, inner)?;
                p.read_field_end()?;
                fs.push((fi.id.unwrap_or(0), v));
            }
            p.read_struct_end()?;
            TVal::Struct(fs)
        }
        TT::List => {
            let li = p.read_list_begin()?;
            let et = elem_tt(li.element_type, li.size)?;
            let mut es = vec![];
            for _ in 0..li.size.min(MAX_ELEMS) {
                es.push(read_val(p, et, inner)?);
            }
            p.read_list_end()?;
            TVal::List(et, es)
        }
        TT::Set => {
            let li = p.read_set_begin()?;
            let et = elem_tt(li.element_type, li.size)?;
            let mut es = vec![];
            for _ in 0..li.size.min(MAX_ELEMS) {
                es.push(read_val(p, et, inner)?);
            }
            p.read_set_end()?;
            TVal::Set(et, es)
        }
        TT::Map => {
            let mi = p.read_map_begin()?;
            if mi.size == 0 {
                p.read_map_end()?;
                // key/value types of an empty map are not observable in compact
                TVal::Map(
                    from_ttype(mi.key_type).unwrap_or(TT::Bool),
                    from_ttype(mi.value_type).unwrap_or(TT::Bool),
                    vec![],
                )
            } else {
                let kt = from_ttype(mi.key_type).ok_or_else(|| unsupported(mi.key_type))?;
                let vt = from_ttype(mi.value_type).ok_or_else(|| unsupported(mi.value_type))?;
                let mut es = vec![];
                for _ in 0..mi.size.min(MAX_ELEMS) {
                    let k = read_val(p, kt, inner)?;
                    let v = read_val(p, vt, inner)?;
                    es.push((k, v));
                }
                p.read_map_end()?;
                TVal::Map(kt, vt, es)
            }
        }
    })
}

fn elem_tt(t: TType, size: usize) -> Result<TT, ThriftException> {
    match from_ttype(t) {
        Some(t) => Ok(t),
        None if size == 0 => Ok(TT::Bool),
        None => Err(unsupported(t)),
    }
}

pub fn read_val_async<'a, P: TAsyncInputProtocol>(
    p: &'a mut P,
    tt: TT,
    o: ReadOpts,
) -> std::pin::Pin<Box<dyn std::future::Future<Output = Result<TVal, ThriftException>> + Send + 'a>> {
    Box::pin(async move {
        if o.max_depth == 0 {
            return Err(too_deep());
        }
        let inner = ReadOpts {
            max_depth: o.max_depth - 1,
            ..o
        };
        Ok(match tt {
            TT::Bool => TVal::Bool(p.read_bool().await?),
            TT::I8 => TVal::I8(p.read_i8().await?),
            TT::I16 => TVal::I16(p.read_i16().await?),
            TT::I32 => TVal::I32(p.read_i32().await?),
            TT::I64 => TVal::I64(p.read_i64().await?),
            TT::Double => TVal::Double(p.read_double().await?.to_bits()),
            TT::Binary => {
                let f = if o.utf8 { o.flavor % 4 } else { o.flavor % 2 };
                TVal::Binary(match f {
                    0 => p.read_bytes().await?.to_vec(),
                    1 => p.read_bytes_vec().await?,
                    2 => p.read_string().await?.into_bytes(),
                    _ => p.read_faststr().await?.as_bytes().to_vec(),
                })
            }
            TT::Uuid => TVal::Uuid(p.read_uuid().await?),
            TT::Struct => {
                p.read_struct_begin().await?;
                let mut fs = vec![];
                loop {
                    let fi = p.read_field_begin().await?;
                    if fi.field_type == TType::Stop {
                        break;
                    }
                    let ft = from_ttype(fi.field_type).ok_or_else(|| unsupported(fi.field_type))?;
                    let v = read_val_async(p, ft, inner).await?;
                    p.read_field_end().await?;
                    fs.push((fi.id.unwrap_or(0), v));
                }
                p.read_struct_end().await?;
                TVal::Struct(fs)
            }
            TT::List => {
                let li = p.read_list_begin().await?;
                let et = elem_tt(li.element_type, li.size)?;
                let mut es = vec![];
                for _ in 0..li.size.min(MAX_ELEMS) {
                    es.push(read_val_async(p, et, inner).await?);
                }
                p.read_list_end().await?;
                TVal::List(et, es)
            }
            TT::Set => {
                let li = p.read_set_begin().await?;
                let et = elem_tt(li.element_type, li.size)?;
                let mut es = vec![];
                for _ in 0..li.size.min(MAX_ELEMS) {
                    es.push(read_val_async(p, et, inner).await?);
                }
                p.read_set_end().await?;
                TVal::Set(et, es)
            }
            TT::Map => {
                let mi = p.read_map_begin().await?;
                if mi.size == 0 {
                    p.read_map_end().await?;
                    TVal::Map(
                        from_ttype(mi.key_type).unwrap_or(TT::Bool),
                        from_ttype(mi.value_type).unwrap_or(TT::Bool),
                        vec![],
                    )
                } else {
                    let kt = from_ttype(mi.key_type).ok_or_else(|| unsupported(mi.key_type))?;
                    let vt = from_ttype(mi.value_type).ok_or_else(|| unsupported(mi.value_type))?;
                    let mut es = vec![];
                    for _ in 0..mi.size.min(MAX_ELEMS) {
                        let k = read_val_async(p, kt, inner).await?;
                        let v = read_val_async(p, vt, inner).await?;
                        es.push((k, v));
                    }
                    p.read_map_end().await?;
                    TVal::Map(kt, vt, es)
                }
            }
        })
    })
}

//! Scripted `AsyncRead` and a tiny single-thread executor: the harness owns every chunk
//! boundary and every `Pending`.
use std::future::Future;
use std::pin::Pin;
use std::sync::atomic::{AtomicUsize, Ordering};
use std::sync::Arc;
use std::task::{Context, Poll, RawWaker, RawWakerVTable, Waker};
use tokio::io::{AsyncRead, ReadBuf};

#[derive(Clone, Copy, Debug, PartialEq, Eq)]
pub enum Step {
    /// hand out at most this many bytes (>= 1)
    Chunk(usize),
    /// return `Poll::Pending` after waking the task
    Pending,
}

#[derive(Default, Debug)]
pub struct Stats {
    pub handed: AtomicUsize,
    pub polls: AtomicUsize,
    pub pendings: AtomicUsize,
    pub max_request: AtomicUsize,
    /// non-empty reads answered with 0 bytes after the end of the data
    pub eof_reads: AtomicUsize,
}

thread_local! {
    /// Set when a reader has been asked for data more than `EOF_READ_LIMIT` times after it
    /// reported end of input: the consumer ignores EOF and would spin forever. `block_on`
    /// turns it into its "did not finish" result.
    static EOF_SPIN: std::cell::Cell<bool> = const { std::cell::Cell::new(false) };
}
pub const EOF_READ_LIMIT: usize = 256;

/// Delivers `data` following `script` (cycled; empty script = everything at once).
/// After the data is exhausted it reports EOF (0 bytes), like a closed socket.
pub struct ScriptedReader {
    data: Vec<u8>,
    pos: usize,
    script: Vec<Step>,
    step: usize,
    /// bytes of the current chunk not yet handed out
    avail: usize,
    cycle: bool,
    pub stats: Arc<Stats>,
}

impl ScriptedReader {
    /// The script is cycled.
    pub fn new(data: Vec<u8>, script: Vec<Step>) -> (Self, Arc<Stats>) {
        Self::build(data, script, true)
    }
    /// The script is played once; afterwards everything that is left arrives at once.
    pub fn once(data: Vec<u8>, script: Vec<Step>) -> (Self, Arc<Stats>) {
        Self::build(data, script, false)
    }
    fn build(data: Vec<u8>, script: Vec<Step>, cycle: bool) -> (Self, Arc<Stats>) {
        let stats = Arc::new(Stats::default());
        (
            ScriptedReader {
                data,
                pos: 0,
                script,
                step: 0,
                avail: 0,
                cycle,
                stats: stats.clone(),
            },
            stats,
        )
    }
}

impl AsyncRead for ScriptedReader {
    fn poll_read(mut self: Pin<&mut Self>, cx: &mut Context<'_>, buf: &mut ReadBuf<'_>) -> Poll<std::io::Result<()>> {
        let me = &mut *self;
        me.stats.polls.fetch_add(1, Ordering::Relaxed);
        me.stats.max_request.fetch_max(buf.remaining(), Ordering::Relaxed);
        // A chunk models data that has arrived: reads are served from it (short reads when the
        // caller wants more than is there) until it is used up; then the next step is taken.
        if me.avail == 0 {
            let step = if me.script.is_empty() || (!me.cycle && me.step >= me.script.len()) {
                Step::Chunk(usize::MAX)
            } else {
                let s = me.script[me.step % me.script.len()];
                me.step += 1;
                s
            };
            match step {
                Step::Pending => {
                    me.stats.pendings.fetch_add(1, Ordering::Relaxed);
                    cx.waker().wake_by_ref();
                    return Poll::Pending;
                }
                Step::Chunk(n) => me.avail = n.max(1),
            }
        }
        let left = me.data.len() - me.pos;
        let k = me.avail.min(left).min(buf.remaining());
        buf.put_slice(&me.data[me.pos..me.pos + k]);
        me.pos += k;
        me.avail -= k.min(me.avail);
        if k == 0 {
            // EOF (or a zero-sized request): the chunk is spent
            me.avail = 0;
            if left == 0 && buf.remaining() > 0 && me.stats.eof_reads.fetch_add(1, Ordering::Relaxed) >= EOF_READ_LIMIT {
                // a consumer that keeps reading after EOF never terminates on its own: break
                // its loop with an error and remember why
                EOF_SPIN.with(|f| f.set(true));
                return Poll::Ready(Err(std::io::Error::new(std::io::ErrorKind::Other, "harness: reader polled again and again after end of input")));
            }
        }
        me.stats.handed.fetch_add(k, Ordering::Relaxed);
        Poll::Ready(Ok(()))
    }
}

fn noop_waker() -> Waker {
    fn clone(_: *const ()) -> RawWaker {
        RawWaker::new(std::ptr::null(), &VTABLE)
    }
    fn noop(_: *const ()) {}
    static VTABLE: RawWakerVTable = RawWakerVTable::new(clone, noop, noop, noop);
    unsafe { Waker::from_raw(RawWaker::new(std::ptr::null(), &VTABLE)) }
}

#[derive(Debug)]
pub struct PollBudgetExceeded(pub usize);

/// Polls `fut` to completion on the current thread; every `Pending` is followed by an immediate
/// re-poll (the scripted reader wakes itself). Gives up after `budget` polls.
pub fn block_on<F: Future>(fut: F, budget: usize) -> Result<F::Output, PollBudgetExceeded> {
    let waker = noop_waker();
    let mut cx = Context::from_waker(&waker);
    let mut fut = std::pin::pin!(fut);
    EOF_SPIN.with(|f| f.set(false));
    for _ in 0..budget {
        if let Poll::Ready(v) = fut.as_mut().poll(&mut cx) {
            if EOF_SPIN.with(|f| f.replace(false)) {
                // the future only came back because the reader broke an endless read loop
                return Err(PollBudgetExceeded(usize::MAX));
            }
            return Ok(v);
        }
    }
    Err(PollBudgetExceeded(budget))
}

pub mod alloc;
pub mod codec;
pub mod interp;
pub mod gen;
pub mod io;
pub mod pdyn;
pub mod pgen;
pub mod total;

//! Type-erased operations on generated `pilota::thrift::Message` types ("the wire is the
//! reflection layer"): the driver emitted next to the generated code only names Rust paths.
use crate::codec::{carve, guards_intact, linked_flatten, PKind};
use crate::io::{block_on, ScriptedReader, Step};
use bytes::{Buf, BufMut, Bytes, BytesMut};
use linkedbytes::LinkedBytes;
use pilota::thrift::{
    binary::TBinaryProtocol,
    binary_le::TBinaryProtocol as TBinaryLeProtocol,
    binary_unsafe::{TBinaryUnsafeInputProtocol, TBinaryUnsafeOutputProtocol},
    compact::{TCompactInputProtocol, TCompactOutputProtocol},
    Message, TAsyncBinaryProtocol, TAsyncCompactProtocol, TLengthProtocol,
};
use std::fmt::Debug;

#[derive(Clone, Debug)]
pub enum Mode {
    Sync,
    /// async decode under a delivery script (cycled?)
    Async(Vec<Step>, bool),
}

#[derive(Clone, Debug)]
pub struct RtReq<'a> {
    pub pk: PKind,
    pub mode: Mode,
    pub bytes: &'a [u8],
    /// extra bytes appended after the message (must stay unread)
    pub sentinel: usize,
    /// encode into a LinkedBytes with zero-copy instead of a BytesMut
    pub linked_zc: bool,
    pub poll_budget: usize,
}

#[derive(Clone, Debug, Default)]
pub struct RtOut {
    pub decode_err: Option<String>,
    pub hang: bool,
    /// bytes consumed by the decoder (sync: buffer advance; async: bytes taken from the stream)
    pub consumed: usize,
    pub reencoded: Option<Vec<u8>>,
    pub encode_err: Option<String>,
    /// Message::size with a fresh protocol instance
    pub size_fresh: usize,
    /// Message::size called on the writing instance right before encode
    pub size_same: usize,
    /// decode(reencoded) == first decode (generated PartialEq); None if not attempted
    pub second_equal: Option<bool>,
    pub second_err: Option<String>,
    pub guards_ok: bool,
    pub debug: String,
    pub has_nan: bool,
}

fn decode_sync<T: Message>(pk: PKind, data: &mut Bytes) -> (Result<T, String>, usize) {
    let total = data.len();
    let r = match pk {
        PKind::Binary => T::decode(&mut TBinaryProtocol::new(&mut *data, true)).map_err(|e| format!("{:?}", e)),
        PKind::BinaryLe => T::decode(&mut TBinaryLeProtocol::new(&mut *data, true)).map_err(|e| format!("{:?}", e)),
        PKind::Compact => T::decode(&mut TCompactInputProtocol::new(&mut *data)).map_err(|e| format!("{:?}", e)),
        PKind::Unsafe => {
            let mut p = unsafe { TBinaryUnsafeInputProtocol::new(&mut *data) };
            let r = T::decode(&mut p).map_err(|e| format!("{:?}", e));
            let idx = p.index();
            drop(p);
            return (r, total - data.len() + idx);
        }
    };
    (r, total - data.remaining())
}

fn decode_async<T: Message>(pk: PKind, data: Vec<u8>, script: Vec<Step>, cycle: bool, budget: usize) -> (Result<Result<T, String>, ()>, usize) {
    let (reader, stats) = if cycle { ScriptedReader::new(data, script) } else { ScriptedReader::once(data, script) };
    let r = match pk {
        PKind::Binary | PKind::Unsafe => {
            let mut p = TAsyncBinaryProtocol::new(reader);
            block_on(T::decode_async(&mut p), budget)
        }
        PKind::BinaryLe => {
            let mut p = pilota::thrift::binary_le::TAsyncBinaryProtocol::new(reader);
            block_on(T::decode_async(&mut p), budget)
        }
        PKind::Compact => {
            let mut p = TAsyncCompactProtocol::new(reader);
            block_on(T::decode_async(&mut p), budget)
        }
    };
    let handed = stats.handed.load(std::sync::atomic::Ordering::Relaxed);
    (r.map(|x| x.map_err(|e| format!("{:?}", e))).map_err(|_| ()), handed)
}

pub fn size_fresh<T: Message>(pk: PKind, t: &T) -> usize {
    match pk {
        PKind::Binary => t.size(&mut TBinaryProtocol::new((), false)),
        PKind::BinaryLe => t.size(&mut TBinaryLeProtocol::new((), false)),
        PKind::Compact => t.size(&mut TCompactOutputProtocol::new((), false)),
        PKind::Unsafe => {
            // volo sizes the unchecked writer's buffer with the binary length protocol
            t.size(&mut TBinaryProtocol::new((), true))
        }
    }
}

/// (bytes, size on the same instance, guards ok)
pub fn encode<T: Message>(pk: PKind, t: &T, linked_zc: bool) -> Result<(Vec<u8>, usize, bool), String> {
    macro_rules! bm {
        ($mk:expr) => {{
            let mut buf = BytesMut::new();
            let same;
            {
                let mut p = $mk(&mut buf);
                same = t.size(&mut p);
                t.encode(&mut p).map_err(|e| format!("{:?}", e))?;
            }
            Ok((buf.to_vec(), same, true))
        }};
    }
    macro_rules! lb {
        ($mk:expr) => {{
            let mut lbuf = LinkedBytes::with_capacity(64);
            let same;
            {
                let mut p = $mk(&mut lbuf);
                same = t.size(&mut p);
                p.reset();
                t.encode(&mut p).map_err(|e| format!("{:?}", e))?;
            }
            Ok((linked_flatten(&lbuf), same, true))
        }};
    }
    match (pk, linked_zc) {
        (PKind::Binary, false) => bm!(|b| TBinaryProtocol::new(b, false)),
        (PKind::BinaryLe, false) => bm!(|b| TBinaryLeProtocol::new(b, false)),
        (PKind::Compact, false) => bm!(|b| TCompactOutputProtocol::new(b, false)),
        (PKind::Binary, true) => lb!(|b| TBinaryProtocol::new(b, true)),
        (PKind::BinaryLe, true) => lb!(|b| TBinaryLeProtocol::new(b, true)),
        (PKind::Compact, true) => lb!(|b| TCompactOutputProtocol::new(b, true)),
        (PKind::Unsafe, false) => {
            let total = size_fresh(PKind::Unsafe, t);
            let c = carve(total);
            let (pre, mut mid, post) = (c.pre, c.mid, c.post);
            let idx;
            {
                let buf: &'static mut [u8] = unsafe { std::slice::from_raw_parts_mut(mid.as_mut_ptr(), total) };
                let mut p = unsafe { TBinaryUnsafeOutputProtocol::new(&mut mid, buf, false) };
                t.encode(&mut p).map_err(|e| format!("{:?}", e))?;
                idx = p.index();
            }
            let ok = guards_intact(&pre, &post);
            if idx != total {
                return Err(format!("unchecked writer advanced {} bytes, reported size {}", idx, total));
            }
            Ok((mid.to_vec(), total, ok))
        }
        (PKind::Unsafe, true) => {
            let total = size_fresh(PKind::Unsafe, t);
            let c = carve(total);
            let (pre, mut mid, post) = (c.pre, c.mid, c.post);
            mid.clear();
            let mut lbuf = LinkedBytes::with_capacity(0);
            *lbuf.bytes_mut() = mid;
            let idx;
            {
                let buf: &'static mut [u8] = unsafe {
                    let l = lbuf.bytes_mut().len();
                    std::slice::from_raw_parts_mut(lbuf.bytes_mut().as_mut_ptr().add(l), lbuf.bytes_mut().capacity() - l)
                };
                let mut p = unsafe { TBinaryUnsafeOutputProtocol::new(&mut lbuf, buf, true) };
                t.encode(&mut p).map_err(|e| format!("{:?}", e))?;
                idx = p.index();
            }
            unsafe { lbuf.bytes_mut().advance_mut(idx) };
            let ok = guards_intact(&pre, &post);
            let flat = linked_flatten(&lbuf);
            if flat.len() != total {
                return Err(format!("unchecked writer produced {} bytes, reported size {}", flat.len(), total));
            }
            Ok((flat, total, ok))
        }
    }
}

fn roundtrip<T: Message + PartialEq + Debug>(req: &RtReq) -> RtOut {
    let mut out = RtOut { guards_ok: true, ..Default::default() };
    let mut data = req.bytes.to_vec();
    data.extend(std::iter::repeat(0xEE).take(req.sentinel));
    if req.pk == PKind::Unsafe {
        // contract of the unchecked reader: never asked to look beyond complete input; a few
        // spare bytes keep an (illegal) overread inside our own allocation
        data.extend_from_slice(&[0u8; 16]);
    }
    let t: T = match &req.mode {
        Mode::Sync => {
            let mut b = Bytes::from(data);
            let (r, consumed) = decode_sync::<T>(req.pk, &mut b);
            out.consumed = consumed;
            match r {
                Ok(t) => t,
                Err(e) => {
                    out.decode_err = Some(e);
                    return out;
                }
            }
        }
        Mode::Async(script, cycle) => {
            let (r, handed) = decode_async::<T>(req.pk, data, script.clone(), *cycle, req.poll_budget);
            out.consumed = handed;
            match r {
                Err(()) => {
                    out.hang = true;
                    return out;
                }
                Ok(Err(e)) => {
                    out.decode_err = Some(e);
                    return out;
                }
                Ok(Ok(t)) => t,
            }
        }
    };
    out.debug = crate::gen::truncate_dbg(&t);
    out.size_fresh = size_fresh(req.pk, &t);
    match encode(req.pk, &t, req.linked_zc) {
        Err(e) => {
            out.encode_err = Some(e);
            return out;
        }
        Ok((bytes, same, guards)) => {
            out.size_same = same;
            out.guards_ok = guards;
            // second decode: equal value under the generated PartialEq
            let mut d2 = bytes.clone();
            if req.pk == PKind::Unsafe {
                d2.extend_from_slice(&[0u8; 16]);
            }
            let mut b = Bytes::from(d2);
            let (r2, _) = decode_sync::<T>(req.pk, &mut b);
            match r2 {
                Ok(t2) => out.second_equal = Some(t2 == t),
                Err(e) => out.second_err = Some(e),
            }
            out.reencoded = Some(bytes);
        }
    }
    out
}

pub fn truncate_dbg<T: Debug>(t: &T) -> String {
    let s = format!("{:?}", t);
    vcore::evidence::truncate(&s, 400)
}

fn default_bytes<T: Message + Default>(pk: PKind) -> Result<Vec<u8>, String> {
    let t = T::default();
    encode(pk, &t, false).map(|(b, _, _)| b)
}

/// decode(bytes) == T::default() ?  (None if decode fails)
fn decodes_to_default<T: Message + Default + PartialEq>(pk: PKind, bytes: &[u8]) -> Option<bool> {
    let mut d = bytes.to_vec();
    if pk == PKind::Unsafe {
        d.extend_from_slice(&[0u8; 16]);
    }
    let mut b = Bytes::from(d);
    decode_sync::<T>(pk, &mut b).0.ok().map(|t| t == T::default())
}

/// Runs decode only (sync or async), dropping the value: for totality / leak checks.
fn decode_only<T: Message>(req: &RtReq) -> (Option<bool>, usize) {
    let mut data = req.bytes.to_vec();
    data.extend(std::iter::repeat(0xEE).take(req.sentinel));
    match &req.mode {
        Mode::Sync => {
            let mut b = Bytes::from(data);
            let (r, c) = decode_sync::<T>(req.pk, &mut b);
            (Some(r.is_ok()), c)
        }
        Mode::Async(script, cycle) => {
            let (r, h) = decode_async::<T>(req.pk, data, script.clone(), *cycle, req.poll_budget);
            (r.ok().map(|x| x.is_ok()), h)
        }
    }
}

#[derive(Clone, Debug)]
pub struct CrossOut {
    pub checked_err: Option<String>,
    pub unchecked_err: Option<String>,
    pub consumed_checked: usize,
    pub consumed_unchecked: usize,
    pub values_equal: bool,
    pub enc_checked: Vec<u8>,
    /// checked encoding of the value the UNCHECKED reader produced
    pub enc_of_unchecked_value: Vec<u8>,
    pub enc_unchecked_bm: Result<Vec<u8>, String>,
    pub enc_unchecked_lb: Result<Vec<u8>, String>,
    pub guards_ok: bool,
    pub debug: String,
}

/// Checked vs unchecked binary codec on the same input and on the SAME in-memory value.
fn cross<T: Message + PartialEq + Debug>(bytes: &[u8]) -> CrossOut {
    let mut out = CrossOut {
        checked_err: None,
        unchecked_err: None,
        consumed_checked: 0,
        consumed_unchecked: 0,
        values_equal: false,
        enc_checked: vec![],
        enc_of_unchecked_value: vec![],
        enc_unchecked_bm: Err("not run".into()),
        enc_unchecked_lb: Err("not run".into()),
        guards_ok: true,
        debug: String::new(),
    };
    let mut b1 = Bytes::copy_from_slice(bytes);
    let (r1, c1) = decode_sync::<T>(PKind::Binary, &mut b1);
    // exact-size input for the unchecked reader (complete well-formed encodings only)
    let mut b2 = Bytes::copy_from_slice(bytes);
    let (r2, c2) = decode_sync::<T>(PKind::Unsafe, &mut b2);
    out.consumed_checked = c1;
    out.consumed_unchecked = c2;
    match (r1, r2) {
        (Ok(t1), Ok(t2)) => {
            out.values_equal = t1 == t2;
            if let Ok((b, _, _)) = encode(PKind::Binary, &t2, false) {
                out.enc_of_unchecked_value = b;
            }
            out.debug = truncate_dbg(&t1);
            match encode(PKind::Binary, &t1, false) {
                Ok((b, _, _)) => out.enc_checked = b,
                Err(e) => out.checked_err = Some(e),
            }
            let mut guards = true;
            out.enc_unchecked_bm = encode(PKind::Unsafe, &t1, false).map(|(b, _, g)| {
                guards &= g;
                b
            });
            out.enc_unchecked_lb = encode(PKind::Unsafe, &t1, true).map(|(b, _, g)| {
                guards &= g;
                b
            });
            out.guards_ok = guards;
        }
        (a, b) => {
            out.checked_err = a.err();
            out.unchecked_err = b.err();
            out.enc_unchecked_bm = Err("not decoded".into());
            out.enc_unchecked_lb = Err("not decoded".into());
        }
    }
    out
}

#[derive(Clone, Copy, Debug, Default)]
pub struct LeakOut {
    pub decode_ok: Option<bool>,
    /// the harness-held handle to the input buffer is the only one again
    pub input_unique: bool,
}

fn leak_probe<T: Message>(req: &RtReq) -> LeakOut {
    let mut data = req.bytes.to_vec();
    data.extend(std::iter::repeat(0xEE).take(req.sentinel));
    match &req.mode {
        Mode::Sync => {
            let held = Bytes::from(data);
            let mut b = held.clone();
            let (r, _) = decode_sync::<T>(req.pk, &mut b);
            let ok = r.is_ok();
            drop(r);
            drop(b);
            LeakOut { decode_ok: Some(ok), input_unique: held.is_unique() }
        }
        Mode::Async(script, cycle) => {
            let (r, _) = decode_async::<T>(req.pk, data, script.clone(), *cycle, req.poll_budget);
            LeakOut { decode_ok: r.ok().map(|x| x.is_ok()), input_unique: true }
        }
    }
}

#[derive(Clone)]
pub struct TypeOps {
    pub roundtrip: fn(&RtReq) -> RtOut,
    /// Some(is_ok) or None on poll-budget exhaustion; bytes consumed
    pub decode_only: fn(&RtReq) -> (Option<bool>, usize),
    pub cross: fn(&[u8]) -> CrossOut,
    pub leak_probe: fn(&RtReq) -> LeakOut,
    pub default_bytes: Option<fn(PKind) -> Result<Vec<u8>, String>>,
    pub decodes_to_default: Option<fn(PKind, &[u8]) -> Option<bool>>,
    pub mem_size: usize,
}

#[derive(Clone)]
pub struct Entry {
    /// "<doc key>/<config key>"
    pub unit: &'static str,
    /// Rust path below the unit's wrapper module, e.g. "alpha0::Bak3"
    pub path: &'static str,
    pub ops: TypeOps,
}

pub fn entry<T: Message + PartialEq + Debug + 'static>(unit: &'static str, path: &'static str) -> Entry {
    Entry {
        unit,
        path,
        ops: TypeOps { roundtrip: roundtrip::<T>, decode_only: decode_only::<T>, cross: cross::<T>, leak_probe: leak_probe::<T>, default_bytes: None, decodes_to_default: None, mem_size: std::mem::size_of::<T>() },
    }
}

pub fn entry_default<T: Message + PartialEq + Debug + Default + 'static>(unit: &'static str, path: &'static str) -> Entry {
    Entry {
        unit,
        path,
        ops: TypeOps {
            roundtrip: roundtrip::<T>,
            decode_only: decode_only::<T>,
            cross: cross::<T>,
            leak_probe: leak_probe::<T>,
            default_bytes: Some(default_bytes::<T>),
            decodes_to_default: Some(decodes_to_default::<T>),
            mem_size: std::mem::size_of::<T>(),
        },
    }
}

//! `pilota::prost::Message` over run-time described messages (`vcore::pdyn`): every field is
//! encoded, sized and merged by calling the field codec module generated code would call for it
//! (`int32`, `sint64`, `fixed32`, `string`, `faststr`, `bytes`, `message`, `group`,
//! `hash_map`, `btree_map`; singular, repeated, packed).
use bytes::{Buf, BufMut, Bytes};
use faststr::FastStr;
use pilota::prost::encoding::{self, DecodeContext, WireType};
use pilota::prost::{DecodeError, Message};
use std::cell::RefCell;
use std::collections::BTreeMap;
use std::sync::Arc;
use vcore::pdyn::*;

#[derive(Debug, PartialEq)]
pub struct RS {
    pub fields: Vec<RF>,
}
#[derive(Debug, PartialEq)]
pub struct RF {
    pub tag: u32,
    pub kind: RK,
    pub card: DCard,
}
#[derive(Debug, PartialEq)]
pub enum RK {
    Sc(Sk),
    Msg(Arc<RS>),
    Group(Arc<RS>),
}

pub fn compile(s: &DSchema) -> Arc<RS> {
    Arc::new(RS {
        fields: s
            .fields
            .iter()
            .map(|f| RF {
                tag: f.tag,
                kind: match &f.kind {
                    DKind::Sc(k) => RK::Sc(*k),
                    DKind::Msg(n) => RK::Msg(compile(n)),
                    DKind::Group(n) => RK::Group(compile(n)),
                },
                card: f.card.clone(),
            })
            .collect(),
    })
}

impl RS {
    fn empty(&self) -> DMsg {
        DMsg {
            vals: self
                .fields
                .iter()
                .map(|f| match f.card {
                    DCard::Single => DFV::Single(f.kind.default()),
                    DCard::Optional => DFV::Opt(None),
                    DCard::Repeated | DCard::Packed => DFV::Rep(vec![]),
                    DCard::BTreeMap(_) | DCard::HashMap(_) => DFV::Map(vec![]),
                })
                .collect(),
        }
    }
}

impl RK {
    fn default(&self) -> DV {
        match self {
            RK::Sc(s) => s.default(),
            RK::Msg(s) | RK::Group(s) => DV::Msg(s.empty()),
        }
    }
}

/// An owned message together with its schema.
#[derive(Debug, Clone, PartialEq)]
pub struct OM {
    pub s: Arc<RS>,
    pub m: DMsg,
}

thread_local! {
    /// schema of the next `OM::default()`: `merge_repeated` of message / group fields and
    /// `Message::decode` create the value through `Default`
    static DEFAULT_SCHEMA: RefCell<Option<Arc<RS>>> = const { RefCell::new(None) };
}

fn set_default_schema(s: &Arc<RS>) {
    DEFAULT_SCHEMA.with(|d| *d.borrow_mut() = Some(s.clone()));
}

impl Default for OM {
    fn default() -> Self {
        let s = DEFAULT_SCHEMA.with(|d| d.borrow().clone()).expect("default schema set");
        let m = s.empty();
        OM { s, m }
    }
}

impl OM {
    pub fn new(s: &Arc<RS>, m: &DMsg) -> OM {
        OM { s: s.clone(), m: m.clone() }
    }
    pub fn empty(s: &Arc<RS>) -> OM {
        OM { s: s.clone(), m: s.empty() }
    }
    /// `Message::decode` (through `Default`)
    pub fn decode_with(s: &Arc<RS>, bytes: Bytes) -> Result<OM, DecodeError> {
        set_default_schema(s);
        OM::decode(bytes)
    }
    pub fn decode_length_delimited_with<B: Buf>(s: &Arc<RS>, buf: B) -> Result<OM, DecodeError> {
        set_default_schema(s);
        OM::decode_length_delimited(buf)
    }
}

// ---------------------------------------------------------------------------------------------
// scalar codecs behind one trait

pub trait Codec {
    type T: Clone + PartialEq + Default;
    fn to(v: &DV) -> Self::T;
    fn from(t: Self::T) -> DV;
    fn enc<B: BufMut>(tag: u32, v: &Self::T, b: &mut B);
    fn len(tag: u32, v: &Self::T) -> usize;
    fn mrg<B: Buf>(wt: WireType, v: &mut Self::T, b: &mut B, ctx: DecodeContext) -> Result<(), DecodeError>;
    fn enc_rep<B: BufMut>(tag: u32, v: &[Self::T], b: &mut B);
    fn len_rep(tag: u32, v: &[Self::T]) -> usize;
    fn mrg_rep<B: Buf>(wt: WireType, v: &mut Vec<Self::T>, b: &mut B, ctx: DecodeContext) -> Result<(), DecodeError>;
    /// packed forms exist for the numeric codecs only
    fn enc_packed<B: BufMut>(_tag: u32, _v: &[Self::T], _b: &mut B) {
        unreachable!("no packed form")
    }
    fn len_packed(_tag: u32, _v: &[Self::T]) -> usize {
        unreachable!("no packed form")
    }
}

macro_rules! codec {
    ($name:ident, $module:ident, $ty:ty, |$v:ident| $to:expr, |$t:ident| $from:expr, packed) => {
        pub struct $name;
        impl Codec for $name {
            codec!(@common $module, $ty, |$v| $to, |$t| $from);
            fn enc_packed<B: BufMut>(tag: u32, v: &[$ty], b: &mut B) {
                encoding::$module::encode_packed(tag, v, b)
            }
            fn len_packed(tag: u32, v: &[$ty]) -> usize {
                encoding::$module::encoded_len_packed(tag, v)
            }
        }
    };
    ($name:ident, $module:ident, $ty:ty, |$v:ident| $to:expr, |$t:ident| $from:expr) => {
        pub struct $name;
        impl Codec for $name {
            codec!(@common $module, $ty, |$v| $to, |$t| $from);
        }
    };
    (@common $module:ident, $ty:ty, |$v:ident| $to:expr, |$t:ident| $from:expr) => {
        type T = $ty;
        fn to($v: &DV) -> $ty {
            $to
        }
        fn from($t: $ty) -> DV {
            $from
        }
        fn enc<B: BufMut>(tag: u32, v: &$ty, b: &mut B) {
            encoding::$module::encode(tag, v, b)
        }
        fn len(tag: u32, v: &$ty) -> usize {
            encoding::$module::encoded_len(tag, v)
        }
        fn mrg<B: Buf>(wt: WireType, v: &mut $ty, b: &mut B, ctx: DecodeContext) -> Result<(), DecodeError> {
            encoding::$module::merge(wt, v, b, ctx)
        }
        fn enc_rep<B: BufMut>(tag: u32, v: &[$ty], b: &mut B) {
            encoding::$module::encode_repeated(tag, v, b)
        }
        fn len_rep(tag: u32, v: &[$ty]) -> usize {
            encoding::$module::encoded_len_repeated(tag, v)
        }
        fn mrg_rep<B: Buf>(wt: WireType, v: &mut Vec<$ty>, b: &mut B, ctx: DecodeContext) -> Result<(), DecodeError> {
            encoding::$module::merge_repeated(wt, v, b, ctx)
        }
    };
}

fn bad(v: &DV) -> ! {
    panic!("value {:?} does not fit the field kind", v)
}

codec!(CBool, bool, bool, |v| match v { DV::Bool(x) => *x, o => bad(o) }, |t| DV::Bool(t), packed);
codec!(CInt32, int32, i32, |v| match v { DV::I32(x) => *x, o => bad(o) }, |t| DV::I32(t), packed);
codec!(CInt64, int64, i64, |v| match v { DV::I64(x) => *x, o => bad(o) }, |t| DV::I64(t), packed);
codec!(CUint32, uint32, u32, |v| match v { DV::U32(x) => *x, o => bad(o) }, |t| DV::U32(t), packed);
codec!(CUint64, uint64, u64, |v| match v { DV::U64(x) => *x, o => bad(o) }, |t| DV::U64(t), packed);
codec!(CSint32, sint32, i32, |v| match v { DV::I32(x) => *x, o => bad(o) }, |t| DV::I32(t), packed);
codec!(CSint64, sint64, i64, |v| match v { DV::I64(x) => *x, o => bad(o) }, |t| DV::I64(t), packed);
codec!(CFixed32, fixed32, u32, |v| match v { DV::U32(x) => *x, o => bad(o) }, |t| DV::U32(t), packed);
codec!(CFixed64, fixed64, u64, |v| match v { DV::U64(x) => *x, o => bad(o) }, |t| DV::U64(t), packed);
codec!(CSfixed32, sfixed32, i32, |v| match v { DV::I32(x) => *x, o => bad(o) }, |t| DV::I32(t), packed);
codec!(CSfixed64, sfixed64, i64, |v| match v { DV::I64(x) => *x, o => bad(o) }, |t| DV::I64(t), packed);
codec!(CFloat, float, f32, |v| match v { DV::F32(x) => f32::from_bits(*x), o => bad(o) }, |t| DV::F32(t.to_bits()), packed);
codec!(CDouble, double, f64, |v| match v { DV::F64(x) => f64::from_bits(*x), o => bad(o) }, |t| DV::F64(t.to_bits()), packed);
codec!(CStr, string, String, |v| match v { DV::Str(x) => x.clone(), o => bad(o) }, |t| DV::Str(t));
codec!(CFastStr, faststr, FastStr, |v| match v { DV::Str(x) => FastStr::new(x), o => bad(o) }, |t| DV::Str(t.to_string()));
codec!(CBytes, bytes, Bytes, |v| match v { DV::Bytes(x) => Bytes::copy_from_slice(x), o => bad(o) }, |t| DV::Bytes(t.to_vec()));
codec!(CBytesVec, bytes, Vec<u8>, |v| match v { DV::Bytes(x) => x.clone(), o => bad(o) }, |t| DV::Bytes(t));

/// NaN-carrying floats compare by bits in the model; the typed maps need `PartialEq` only.
macro_rules! disp {
    ($sk:expr, $f:ident ( $($args:expr),* )) => {
        match $sk {
            Sk::Bool => $f::<CBool, _>($($args),*),
            Sk::Int32 => $f::<CInt32, _>($($args),*),
            Sk::Int64 => $f::<CInt64, _>($($args),*),
            Sk::Uint32 => $f::<CUint32, _>($($args),*),
            Sk::Uint64 => $f::<CUint64, _>($($args),*),
            Sk::Sint32 => $f::<CSint32, _>($($args),*),
            Sk::Sint64 => $f::<CSint64, _>($($args),*),
            Sk::Fixed32 => $f::<CFixed32, _>($($args),*),
            Sk::Fixed64 => $f::<CFixed64, _>($($args),*),
            Sk::Sfixed32 => $f::<CSfixed32, _>($($args),*),
            Sk::Sfixed64 => $f::<CSfixed64, _>($($args),*),
            Sk::Float => $f::<CFloat, _>($($args),*),
            Sk::Double => $f::<CDouble, _>($($args),*),
            Sk::Str => $f::<CStr, _>($($args),*),
            Sk::FastStr => $f::<CFastStr, _>($($args),*),
            Sk::Bytes => $f::<CBytes, _>($($args),*),
            Sk::BytesVec => $f::<CBytesVec, _>($($args),*),
        }
    };
}

// per-field operations on scalars ------------------------------------------------------------

enum Op<'a, B> {
    Enc(&'a mut B),
    Len(&'a mut usize),
}

fn sc_write<C: Codec, B: BufMut>(tag: u32, card: &DCard, v: &DFV, op: Op<'_, B>) {
    match (card, v) {
        (DCard::Single, DFV::Single(x)) | (DCard::Optional, DFV::Opt(Some(x))) => match op {
            Op::Enc(b) => C::enc(tag, &C::to(x), b),
            Op::Len(n) => *n += C::len(tag, &C::to(x)),
        },
        (DCard::Optional, DFV::Opt(None)) => {}
        (DCard::Repeated, DFV::Rep(xs)) => {
            let t: Vec<C::T> = xs.iter().map(C::to).collect();
            match op {
                Op::Enc(b) => C::enc_rep(tag, &t, b),
                Op::Len(n) => *n += C::len_rep(tag, &t),
            }
        }
        (DCard::Packed, DFV::Rep(xs)) => {
            let t: Vec<C::T> = xs.iter().map(C::to).collect();
            match op {
                Op::Enc(b) => C::enc_packed(tag, &t, b),
                Op::Len(n) => *n += C::len_packed(tag, &t),
            }
        }
        (c, v) => panic!("value {:?} does not fit cardinality {:?}", v, c),
    }
}

fn sc_merge<C: Codec, B: Buf>(card: &DCard, v: &mut DFV, wt: WireType, buf: &mut B, ctx: DecodeContext) -> Result<(), DecodeError> {
    match (card, v) {
        (DCard::Single, DFV::Single(x)) => {
            let mut t = C::to(x);
            C::mrg(wt, &mut t, buf, ctx)?;
            *x = C::from(t);
        }
        (DCard::Optional, DFV::Opt(x)) => {
            let mut t = x.as_ref().map(C::to).unwrap_or_default();
            C::mrg(wt, &mut t, buf, ctx)?;
            *x = Some(C::from(t));
        }
        (DCard::Repeated | DCard::Packed, DFV::Rep(xs)) => {
            let mut t: Vec<C::T> = vec![];
            C::mrg_rep(wt, &mut t, buf, ctx)?;
            xs.extend(t.into_iter().map(C::from));
        }
        (c, v) => panic!("value {:?} does not fit cardinality {:?}", v, c),
    }
    Ok(())
}

// maps ------------------------------------------------------------------------------------------

trait MapVal: Sized {
    type V: PartialEq + Clone;
    fn to(&self, v: &DV) -> Self::V;
    fn from(&self, t: Self::V) -> DV;
    fn default(&self) -> Self::V;
    fn enc<B: BufMut>(tag: u32, v: &Self::V, b: &mut B);
    fn len(tag: u32, v: &Self::V) -> usize;
    fn mrg<B: Buf>(wt: WireType, v: &mut Self::V, b: &mut B, ctx: DecodeContext) -> Result<(), DecodeError>;
}

struct ScVal<C: Codec>(std::marker::PhantomData<C>);
impl<C: Codec> MapVal for ScVal<C> {
    type V = C::T;
    fn to(&self, v: &DV) -> C::T {
        C::to(v)
    }
    fn from(&self, t: C::T) -> DV {
        C::from(t)
    }
    fn default(&self) -> C::T {
        C::T::default()
    }
    fn enc<B: BufMut>(tag: u32, v: &C::T, b: &mut B) {
        C::enc(tag, v, b)
    }
    fn len(tag: u32, v: &C::T) -> usize {
        C::len(tag, v)
    }
    fn mrg<B: Buf>(wt: WireType, v: &mut C::T, b: &mut B, ctx: DecodeContext) -> Result<(), DecodeError> {
        C::mrg(wt, v, b, ctx)
    }
}

struct MsgVal(Arc<RS>);
impl MapVal for MsgVal {
    type V = OM;
    fn to(&self, v: &DV) -> OM {
        match v {
            DV::Msg(m) => OM::new(&self.0, m),
            o => bad(o),
        }
    }
    fn from(&self, t: OM) -> DV {
        DV::Msg(t.m)
    }
    fn default(&self) -> OM {
        OM::empty(&self.0)
    }
    fn enc<B: BufMut>(tag: u32, v: &OM, b: &mut B) {
        encoding::message::encode(tag, v, b)
    }
    fn len(tag: u32, v: &OM) -> usize {
        encoding::message::encoded_len(tag, v)
    }
    fn mrg<B: Buf>(wt: WireType, v: &mut OM, b: &mut B, ctx: DecodeContext) -> Result<(), DecodeError> {
        encoding::message::merge(wt, v, b, ctx)
    }
}

enum MapOp<'a, B> {
    Enc(&'a mut B),
    Len(&'a mut usize),
}

fn map_write<KC: Codec, MV: MapVal, B: BufMut>(mv: &MV, btree: bool, tag: u32, es: &[(DV, DV)], op: MapOp<'_, B>)
where
    KC::T: Ord + std::hash::Hash + Eq,
{
    let dv = mv.default();
    if btree {
        let m: BTreeMap<KC::T, MV::V> = es.iter().map(|(a, b)| (KC::to(a), mv.to(b))).collect();
        match op {
            MapOp::Enc(b) => encoding::btree_map::encode_with_default(KC::enc, KC::len, MV::enc, MV::len, &dv, tag, &m, b),
            MapOp::Len(n) => *n += encoding::btree_map::encoded_len_with_default(KC::len, MV::len, &dv, tag, &m),
        }
    } else {
        let m: pilota::AHashMap<KC::T, MV::V> = es.iter().map(|(a, b)| (KC::to(a), mv.to(b))).collect();
        match op {
            MapOp::Enc(b) => encoding::hash_map::encode_with_default(KC::enc, KC::len, MV::enc, MV::len, &dv, tag, &m, b),
            MapOp::Len(n) => *n += encoding::hash_map::encoded_len_with_default(KC::len, MV::len, &dv, tag, &m),
        }
    }
}

fn map_merge<KC: Codec, MV: MapVal, B: Buf>(mv: &MV, ksk: Sk, btree: bool, es: &mut Vec<(DV, DV)>, buf: &mut B, ctx: DecodeContext) -> Result<(), DecodeError>
where
    KC::T: Ord + std::hash::Hash + Eq,
{
    // the existing entries go in first: a later entry with an equal key replaces
    let out: Vec<(DV, DV)> = if btree {
        let mut m: BTreeMap<KC::T, MV::V> = es.iter().map(|(a, b)| (KC::to(a), mv.to(b))).collect();
        encoding::btree_map::merge_with_default(KC::mrg, MV::mrg, mv.default(), &mut m, buf, ctx)?;
        m.into_iter().map(|(a, b)| (KC::from(a), mv.from(b))).collect()
    } else {
        let mut m: pilota::AHashMap<KC::T, MV::V> = es.iter().map(|(a, b)| (KC::to(a), mv.to(b))).collect();
        encoding::hash_map::merge_with_default(KC::mrg, MV::mrg, mv.default(), &mut m, buf, ctx)?;
        m.into_iter().map(|(a, b)| (KC::from(a), mv.from(b))).collect()
    };
    *es = out;
    es.sort_by_key(|(a, _)| key_bytes(ksk, a));
    Ok(())
}

macro_rules! disp_key {
    ($k:expr, $f:ident :: < $mv:ty > ( $($args:expr),* )) => {
        match $k {
            Sk::Int32 => $f::<CInt32, $mv, _>($($args),*),
            Sk::Uint64 => $f::<CUint64, $mv, _>($($args),*),
            Sk::Sfixed32 => $f::<CSfixed32, $mv, _>($($args),*),
            Sk::Bool => $f::<CBool, $mv, _>($($args),*),
            Sk::Str => $f::<CStr, $mv, _>($($args),*),
            o => panic!("map key kind {:?} is not instantiated", o),
        }
    };
}

macro_rules! disp_map {
    ($k:expr, $kind:expr, $f:ident ( $($args:expr),* )) => {
        match $kind {
            RK::Sc(Sk::Int32) => { let mv = ScVal::<CInt32>(std::marker::PhantomData); disp_key!($k, $f::<ScVal<CInt32>>(&mv, $($args),*)) }
            RK::Sc(Sk::Sint64) => { let mv = ScVal::<CSint64>(std::marker::PhantomData); disp_key!($k, $f::<ScVal<CSint64>>(&mv, $($args),*)) }
            RK::Sc(Sk::Double) => { let mv = ScVal::<CDouble>(std::marker::PhantomData); disp_key!($k, $f::<ScVal<CDouble>>(&mv, $($args),*)) }
            RK::Sc(Sk::Str) => { let mv = ScVal::<CStr>(std::marker::PhantomData); disp_key!($k, $f::<ScVal<CStr>>(&mv, $($args),*)) }
            RK::Sc(Sk::Bytes) => { let mv = ScVal::<CBytes>(std::marker::PhantomData); disp_key!($k, $f::<ScVal<CBytes>>(&mv, $($args),*)) }
            RK::Msg(s) => { let mv = MsgVal(s.clone()); disp_key!($k, $f::<MsgVal>(&mv, $($args),*)) }
            o => panic!("map value kind {:?} is not instantiated", o),
        }
    };
}

// the message ---------------------------------------------------------------------------------

fn write_field<B: BufMut>(f: &RF, v: &DFV, buf: Option<&mut B>, len: &mut usize) {
    match (&f.kind, &f.card) {
        (kind, DCard::BTreeMap(k) | DCard::HashMap(k)) => {
            let DFV::Map(es) = v else { panic!("map value expected") };
            let btree = matches!(f.card, DCard::BTreeMap(_));
            match buf {
                Some(b) => disp_map!(*k, kind, map_write(btree, f.tag, es, MapOp::Enc(b))),
                None => disp_map!(*k, kind, map_write(btree, f.tag, es, MapOp::<B>::Len(len))),
            }
        }
        (RK::Sc(sk), card) => match buf {
            Some(b) => disp!(*sk, sc_write(f.tag, card, v, Op::Enc(b))),
            None => disp!(*sk, sc_write(f.tag, card, v, Op::<B>::Len(len))),
        },
        (RK::Msg(s) | RK::Group(s), card) => {
            let group = matches!(f.kind, RK::Group(_));
            let of = |x: &DV| match x {
                DV::Msg(m) => OM::new(s, m),
                o => bad(o),
            };
            let ms: Vec<OM> = match (card, v) {
                (DCard::Single, DFV::Single(x)) | (DCard::Optional, DFV::Opt(Some(x))) => vec![of(x)],
                (DCard::Optional, DFV::Opt(None)) => vec![],
                (DCard::Repeated, DFV::Rep(xs)) => xs.iter().map(of).collect(),
                (c, v) => panic!("value {:?} does not fit cardinality {:?}", v, c),
            };
            let repeated = matches!(card, DCard::Repeated);
            match (buf, group, repeated) {
                (Some(b), false, false) => ms.iter().for_each(|m| encoding::message::encode(f.tag, m, b)),
                (Some(b), false, true) => encoding::message::encode_repeated(f.tag, &ms, b),
                (Some(b), true, false) => ms.iter().for_each(|m| encoding::group::encode(f.tag, m, b)),
                (Some(b), true, true) => encoding::group::encode_repeated(f.tag, &ms, b),
                (None, false, false) => *len += ms.iter().map(|m| encoding::message::encoded_len(f.tag, m)).sum::<usize>(),
                (None, false, true) => *len += encoding::message::encoded_len_repeated(f.tag, &ms),
                (None, true, false) => *len += ms.iter().map(|m| encoding::group::encoded_len(f.tag, m)).sum::<usize>(),
                (None, true, true) => *len += encoding::group::encoded_len_repeated(f.tag, &ms),
            }
        }
    }
}

impl Message for OM {
    fn encode_raw<B: BufMut>(&self, buf: &mut B) {
        let mut unused = 0usize;
        for (f, v) in self.s.fields.iter().zip(&self.m.vals) {
            write_field(f, v, Some(buf), &mut unused);
        }
    }

    fn encoded_len(&self) -> usize {
        let mut n = 0usize;
        for (f, v) in self.s.fields.iter().zip(&self.m.vals) {
            write_field::<Vec<u8>>(f, v, None, &mut n);
        }
        n
    }

    fn merge_field<B: Buf>(&mut self, tag: u32, wt: WireType, buf: &mut B, ctx: DecodeContext) -> Result<(), DecodeError> {
        let s = self.s.clone();
        let Some(i) = s.fields.iter().position(|f| f.tag == tag) else {
            return encoding::skip_field(wt, tag, buf, ctx);
        };
        let f = &s.fields[i];
        let v = &mut self.m.vals[i];
        match (&f.kind, &f.card) {
            (kind, DCard::BTreeMap(k) | DCard::HashMap(k)) => {
                let DFV::Map(es) = v else { panic!("map value expected") };
                let btree = matches!(f.card, DCard::BTreeMap(_));
                disp_map!(*k, kind, map_merge(*k, btree, es, buf, ctx))
            }
            (RK::Sc(sk), card) => disp!(*sk, sc_merge(card, v, wt, buf, ctx)),
            (RK::Msg(ns) | RK::Group(ns), card) => {
                let group = matches!(f.kind, RK::Group(_));
                match (card, v) {
                    (DCard::Single, DFV::Single(x)) => {
                        let mut om = match x {
                            DV::Msg(m) => OM { s: ns.clone(), m: std::mem::take(m) },
                            o => bad(o),
                        };
                        let r = if group { encoding::group::merge(tag, wt, &mut om, buf, ctx) } else { encoding::message::merge(wt, &mut om, buf, ctx) };
                        *x = DV::Msg(om.m);
                        r
                    }
                    (DCard::Optional, DFV::Opt(x)) => {
                        let mut om = match x.take() {
                            Some(DV::Msg(m)) => OM { s: ns.clone(), m },
                            _ => OM::empty(ns),
                        };
                        let r = if group { encoding::group::merge(tag, wt, &mut om, buf, ctx) } else { encoding::message::merge(wt, &mut om, buf, ctx) };
                        *x = Some(DV::Msg(om.m));
                        r
                    }
                    (DCard::Repeated, DFV::Rep(xs)) => {
                        let mut got: Vec<OM> = vec![];
                        set_default_schema(ns);
                        let r = if group { encoding::group::merge_repeated(tag, wt, &mut got, buf, ctx) } else { encoding::message::merge_repeated(wt, &mut got, buf, ctx) };
                        xs.extend(got.into_iter().map(|o| DV::Msg(o.m)));
                        r
                    }
                    (c, v) => panic!("value {:?} does not fit cardinality {:?}", v, c),
                }
            }
        }
    }
}

//! Uniform access to pilota's four Thrift codecs over the supported buffer kinds.
use crate::interp::{len_val, read_val, write_val, ReadOpts};
use bytes::{Buf, BufMut, Bytes, BytesMut};
use faststr::FastStr;
use linkedbytes::LinkedBytes;
use pilota::thrift::{
    binary::TBinaryProtocol,
    binary_le::TBinaryProtocol as TBinaryLeProtocol,
    binary_unsafe::{TBinaryUnsafeInputProtocol, TBinaryUnsafeOutputProtocol},
    compact::{TCompactInputProtocol, TCompactOutputProtocol},
    TInputProtocol, TLengthProtocol, TMessageIdentifier, TMessageType, TOutputProtocol,
};
use serde::{Deserialize, Serialize};
use vcore::tval::{TVal, TT};

#[derive(Clone, Copy, Debug, PartialEq, Eq, Hash, Serialize, Deserialize)]
pub enum PKind {
    Binary,
    BinaryLe,
    Compact,
    Unsafe,
}

pub const ALL_PK: [PKind; 4] = [PKind::Binary, PKind::BinaryLe, PKind::Compact, PKind::Unsafe];

impl PKind {
    pub fn ref_proto(self) -> vcore::refthrift::Proto {
        match self {
            PKind::Binary | PKind::Unsafe => vcore::refthrift::Proto::Binary,
            PKind::BinaryLe => vcore::refthrift::Proto::BinaryLe,
            PKind::Compact => vcore::refthrift::Proto::Compact,
        }
    }
}

#[derive(Clone, Copy, Debug, PartialEq, Eq, Hash, Serialize, Deserialize)]
pub enum BKind {
    BytesMut,
    Linked,
    LinkedZc,
}

pub const ALL_BK: [BKind; 3] = [BKind::BytesMut, BKind::Linked, BKind::LinkedZc];

#[derive(Clone, Debug, PartialEq, Eq, Hash, Serialize, Deserialize)]
pub enum Item {
    Val(TVal),
    /// message envelope followed by a struct body
    Msg { name: String, mtype: u8, seq: i32, body: TVal },
}

impl Item {
    pub fn val(&self) -> &TVal {
        match self {
            Item::Val(v) => v,
            Item::Msg { body, .. } => body,
        }
    }
}

pub fn mtype_of(b: u8) -> TMessageType {
    match b {
        1 => TMessageType::Call,
        2 => TMessageType::Reply,
        3 => TMessageType::Exception,
        _ => TMessageType::OneWay,
    }
}

fn ident(name: &str, mtype: u8, seq: i32) -> TMessageIdentifier {
    TMessageIdentifier::new(FastStr::new(name), mtype_of(mtype), seq)
}

pub fn item_len<P: TLengthProtocol>(p: &mut P, it: &Item, flavor: u8) -> usize {
    match it {
        Item::Val(v) => len_val(p, v, flavor),
        Item::Msg { name, mtype, seq, body } => {
            let id = ident(name, *mtype, *seq);
            p.message_begin_len(&id) + len_val(p, body, flavor) + p.message_end_len()
        }
    }
}

pub fn write_item<P: TOutputProtocol>(p: &mut P, it: &Item, flavor: u8) -> Result<(), String> {
    match it {
        Item::Val(v) => write_val(p, v, flavor).map_err(|e| format!("{:?}", e)),
        Item::Msg { name, mtype, seq, body } => {
            let id = ident(name, *mtype, *seq);
            p.write_message_begin(&id).map_err(|e| format!("{:?}", e))?;
            write_val(p, body, flavor).map_err(|e| format!("{:?}", e))?;
            p.write_message_end().map_err(|e| format!("{:?}", e))
        }
    }
}

/// An exact-size region with guard bytes on both sides, all inside one allocation.
pub struct Carved {
    pub pre: BytesMut,
    pub mid: BytesMut,
    pub post: BytesMut,
}

pub const GUARD: usize = 64;
pub const CANARY: u8 = 0xA5;

pub fn carve(size: usize) -> Carved {
    let mut big = BytesMut::with_capacity(size + 2 * GUARD);
    big.resize(size + 2 * GUARD, CANARY);
    let mut mid = big.split_off(GUARD);
    let post = mid.split_off(size);
    Carved { pre: big, mid, post }
}

pub fn guards_intact(pre: &BytesMut, post: &BytesMut) -> bool {
    pre.iter().all(|b| *b == CANARY) && post.iter().all(|b| *b == CANARY)
}

pub fn linked_total(lb: &LinkedBytes) -> usize {
    lb.iter_list().map(|n| n.as_ref().len()).sum::<usize>() + lb.bytes().len()
}

pub fn linked_flatten(lb: &LinkedBytes) -> Vec<u8> {
    let mut v = Vec::with_capacity(linked_total(lb));
    for n in lb.iter_list() {
        v.extend_from_slice(n.as_ref());
    }
    v.extend_from_slice(lb.bytes());
    v
}

#[derive(Debug, Clone, Default)]
pub struct WriteOut {
    pub bytes: Vec<u8>,
    /// cumulative number of bytes on the buffer after each item
    pub ends: Vec<usize>,
    /// length reported by a fresh length-protocol instance, per item
    pub lens: Vec<usize>,
    pub zero_copy_len: usize,
    pub nodes: usize,
    pub guards_ok: bool,
}

/// Length of every item as reported by a *fresh* protocol instance (how callers size buffers).
pub fn fresh_lens(pk: PKind, items: &[Item], flavor: u8) -> Vec<usize> {
    items
        .iter()
        .map(|it| match pk {
            PKind::Binary => item_len(&mut TBinaryProtocol::new((), false), it, flavor),
            PKind::BinaryLe => item_len(&mut TBinaryLeProtocol::new((), false), it, flavor),
            PKind::Compact => item_len(&mut TCompactOutputProtocol::new((), false), it, flavor),
            PKind::Unsafe => {
                // the unchecked codec is sized with its own TLengthProtocol
                let mut dummy = BytesMut::new();
                let buf: &'static mut [u8] = &mut [];
                let mut p = unsafe { TBinaryUnsafeOutputProtocol::new(&mut dummy, buf, false) };
                item_len(&mut p, it, flavor)
            }
        })
        .collect()
}

/// Writes all items back to back with ONE protocol instance on ONE buffer.
pub fn write_items(pk: PKind, bk: BKind, items: &[Item], flavor: u8) -> Result<WriteOut, String> {
    let lens = fresh_lens(pk, items, flavor);
    let total: usize = lens.iter().sum();
    let mut out = WriteOut {
        lens,
        guards_ok: true,
        ..Default::default()
    };
    let zc = bk == BKind::LinkedZc;
    macro_rules! run_bm {
        ($mk:expr) => {{
            let mut buf = BytesMut::new();
            {
                let mut p = $mk(&mut buf);
                for it in items {
                    write_item(&mut p, it, flavor)?;
                    let n = p.buf_mut().len();
                    out.ends.push(n);
                }
                out.zero_copy_len = p.zero_copy_len();
            }
            out.bytes = buf.to_vec();
        }};
    }
    macro_rules! run_lb {
        ($mk:expr) => {{
            let mut lb = LinkedBytes::with_capacity(total.max(16));
            {
                let mut p = $mk(&mut lb);
                for it in items {
                    write_item(&mut p, it, flavor)?;
                    let n = linked_total(p.buf_mut());
                    out.ends.push(n);
                }
                out.zero_copy_len = p.zero_copy_len();
            }
            out.nodes = lb.iter_list().count();
            out.bytes = linked_flatten(&lb);
        }};
    }
    match (pk, bk) {
        (PKind::Binary, BKind::BytesMut) => run_bm!(|b| TBinaryProtocol::new(b, zc)),
        (PKind::BinaryLe, BKind::BytesMut) => run_bm!(|b| TBinaryLeProtocol::new(b, zc)),
        (PKind::Compact, BKind::BytesMut) => run_bm!(|b| TCompactOutputProtocol::new(b, zc)),
        (PKind::Binary, _) => run_lb!(|b| TBinaryProtocol::new(b, zc)),
        (PKind::BinaryLe, _) => run_lb!(|b| TBinaryLeProtocol::new(b, zc)),
        (PKind::Compact, _) => run_lb!(|b| TCompactOutputProtocol::new(b, zc)),
        (PKind::Unsafe, BKind::BytesMut) => {
            // contract: the BytesMut is pre-sized (len == size) and `buf` is its slice
            let Carved { pre, mut mid, post } = carve(total);
            {
                let buf: &'static mut [u8] = unsafe { std::slice::from_raw_parts_mut(mid.as_mut_ptr(), total) };
                let mut p = unsafe { TBinaryUnsafeOutputProtocol::new(&mut mid, buf, false) };
                for it in items {
                    write_item(&mut p, it, flavor)?;
                    out.ends.push(p.index());
                }
            }
            out.guards_ok = guards_intact(&pre, &post);
            out.bytes = mid.to_vec();
        }
        (PKind::Unsafe, _) => {
            // contract: `buf` is the spare capacity of the current BytesMut of the LinkedBytes,
            // and the caller advances it by index() afterwards (benches/unknown.rs, volo)
            let Carved { pre, mut mid, post } = carve(total);
            mid.clear();
            let mut lb = LinkedBytes::with_capacity(0);
            *lb.bytes_mut() = mid;
            let idx;
            {
                let buf: &'static mut [u8] = unsafe {
                    let l = lb.bytes_mut().len();
                    std::slice::from_raw_parts_mut(lb.bytes_mut().as_mut_ptr().add(l), lb.bytes_mut().capacity() - l)
                };
                let mut p = unsafe { TBinaryUnsafeOutputProtocol::new(&mut lb, buf, zc) };
                for it in items {
                    write_item(&mut p, it, flavor)?;
                    let i = p.index();
                    let n = linked_total(p.buf_mut()) + i;
                    out.ends.push(n);
                }
                out.zero_copy_len = p.zero_copy_len();
                idx = p.index();
            }
            unsafe { lb.bytes_mut().advance_mut(idx) };
            out.guards_ok = guards_intact(&pre, &post);
            out.nodes = lb.iter_list().count();
            out.bytes = linked_flatten(&lb);
        }
    }
    Ok(out)
}

#[derive(Debug, Clone, PartialEq)]
pub enum ReadItem {
    Val(TVal),
    Msg { name: Vec<u8>, mtype: u8, seq: i32, body: TVal },
}

#[derive(Debug, Clone)]
pub struct ReadOut {
    pub items: Vec<Result<ReadItem, String>>,
    /// cumulative bytes consumed after each item
    pub consumed: Vec<usize>,
}

/// What to read: wire type of the value, and whether an envelope precedes it.
#[derive(Clone, Copy, Debug)]
pub struct Want {
    pub tt: TT,
    pub envelope: bool,
}

fn read_one<P: TInputProtocol>(p: &mut P, w: Want, o: ReadOpts) -> Result<ReadItem, String> {
    if w.envelope {
        let id = p.read_message_begin().map_err(|e| format!("{:?}", e))?;
        let body = read_val(p, w.tt, o).map_err(|e| format!("{:?}", e))?;
        p.read_message_end().map_err(|e| format!("{:?}", e))?;
        Ok(ReadItem::Msg {
            name: id.name.as_bytes().to_vec(),
            mtype: id.message_type as u8,
            seq: id.sequence_number,
            body,
        })
    } else {
        Ok(ReadItem::Val(read_val(p, w.tt, o).map_err(|e| format!("{:?}", e))?))
    }
}

/// Reads all wanted items with ONE protocol instance from ONE buffer; stops at the first error.
/// The unchecked reader requires complete well-formed input (its documented contract).
pub fn read_items(pk: PKind, data: &[u8], wants: &[Want], o: ReadOpts) -> ReadOut {
    let mut bytes = Bytes::copy_from_slice(data);
    let total = bytes.len();
    let mut out = ReadOut {
        items: vec![],
        consumed: vec![],
    };
    macro_rules! run {
        ($p:expr, $pos:expr) => {{
            let mut p = $p;
            for w in wants {
                let r = read_one(&mut p, *w, o);
                let failed = r.is_err();
                out.items.push(r);
                #[allow(clippy::redundant_closure_call)]
                out.consumed.push($pos(&mut p));
                if failed {
                    break;
                }
            }
        }};
    }
    match pk {
        PKind::Binary => run!(TBinaryProtocol::new(&mut bytes, true), |p: &mut TBinaryProtocol<&mut Bytes>| total - p.buf().remaining()),
        PKind::BinaryLe => run!(TBinaryLeProtocol::new(&mut bytes, true), |p: &mut TBinaryLeProtocol<&mut Bytes>| total - p.buf().remaining()),
        PKind::Compact => run!(TCompactInputProtocol::new(&mut bytes), |p: &mut TCompactInputProtocol<&mut Bytes>| total - p.buf().remaining()),
        PKind::Unsafe => run!(unsafe { TBinaryUnsafeInputProtocol::new(&mut bytes) }, |p: &mut TBinaryUnsafeInputProtocol| {
            let i = p.index();
            total - p.buf().remaining() + i
        }),
    }
    out
}

/// Runs `$body` with `$p` bound to a sync reader of kind `$pk` over `$bytes: &mut Bytes`.
#[macro_export]
macro_rules! with_reader {
    ($pk:expr, $bytes:expr, |$p:ident| $body:expr) => {
        match $pk {
            $crate::codec::PKind::Binary => {
                let mut $p = ::pilota::thrift::binary::TBinaryProtocol::new($bytes, true);
                $body
            }
            $crate::codec::PKind::BinaryLe => {
                let mut $p = ::pilota::thrift::binary_le::TBinaryProtocol::new($bytes, true);
                $body
            }
            $crate::codec::PKind::Compact => {
                let mut $p = ::pilota::thrift::compact::TCompactInputProtocol::new($bytes);
                $body
            }
            $crate::codec::PKind::Unsafe => {
                let mut $p = unsafe { ::pilota::thrift::binary_unsafe::TBinaryUnsafeInputProtocol::new($bytes) };
                $body
            }
        }
    };
}

/// Runs `$body` with `$p` bound to an async reader of kind `$pk` (Binary, BinaryLe, Compact)
/// over `$reader` (an `AsyncRead`).
#[macro_export]
macro_rules! with_async_reader {
    ($pk:expr, $reader:expr, |$p:ident| $body:expr) => {
        match $pk {
            $crate::codec::PKind::Binary | $crate::codec::PKind::Unsafe => {
                let mut $p = ::pilota::thrift::binary::TAsyncBinaryProtocol::new($reader);
                $body
            }
            $crate::codec::PKind::BinaryLe => {
                let mut $p = ::pilota::thrift::binary_le::TAsyncBinaryProtocol::new($reader);
                $body
            }
            $crate::codec::PKind::Compact => {
                let mut $p = ::pilota::thrift::compact::TAsyncCompactProtocol::new($reader);
                $body
            }
        }
    };
}

/// Runs `$body` with `$p` bound to a writer of kind `$pk` (checked protocols only) over
/// `$buf: &mut BytesMut`.
#[macro_export]
macro_rules! with_writer {
    ($pk:expr, $buf:expr, |$p:ident| $body:expr) => {
        match $pk {
            $crate::codec::PKind::Binary | $crate::codec::PKind::Unsafe => {
                let mut $p = ::pilota::thrift::binary::TBinaryProtocol::new($buf, false);
                $body
            }
            $crate::codec::PKind::BinaryLe => {
                let mut $p = ::pilota::thrift::binary_le::TBinaryProtocol::new($buf, false);
                $body
            }
            $crate::codec::PKind::Compact => {
                let mut $p = ::pilota::thrift::compact::TCompactOutputProtocol::new($buf, false);
                $body
            }
        }
    };
}

/// Bytes consumed so far by a sync reader created over a buffer of `total` bytes.
pub fn consumed_of<P: TInputProtocol<Buf = Bytes>>(p: &mut P, total: usize, unsafe_index: usize) -> usize {
    total - p.buf().remaining() + unsafe_index
}

pub fn is_depth_limit(e: &pilota::thrift::ThriftException) -> bool {
    matches!(e, pilota::thrift::ThriftException::Protocol(pe) if pe.kind() == pilota::thrift::ProtocolExceptionKind::DepthLimit)
}

impl vcore::shrink::Shrink for Item {
    fn candidates(&self) -> Vec<Item> {
        use vcore::shrink::Shrink;
        match self {
            Item::Val(v) => v.candidates().into_iter().map(Item::Val).collect(),
            Item::Msg { name, mtype, seq, body } => {
                let mut out = vec![Item::Val(body.clone())];
                for c in vcore::shrink::same_type_candidates(body) {
                    out.push(Item::Msg { name: name.clone(), mtype: *mtype, seq: *seq, body: c });
                }
                if name != "m" || *seq != 0 {
                    out.push(Item::Msg { name: "m".into(), mtype: *mtype, seq: 0, body: body.clone() });
                }
                out
            }
        }
    }
}

//! Type-erased operations on generated `pilota::prost::Message` types.
use bytes::Bytes;
use pilota::prost::Message;
use std::fmt::Debug;

#[derive(Clone, Debug, Default)]
pub struct PRt {
    pub decode_err: Option<String>,
    pub reencoded: Vec<u8>,
    pub encoded_len: usize,
    /// decode(reencoded) == first decode under the generated PartialEq
    pub second_equal: Option<bool>,
    pub second_err: Option<String>,
    /// encode_length_delimited / decode_length_delimited round trip reproduces `reencoded`
    pub framed_ok: bool,
    pub debug: String,
    /// decoding the same bytes from a segmented buffer disagreed with the contiguous decode
    pub chain_mismatch: Option<String>,
    /// (split point, re-encoding of what the segmented decode produced) where PartialEq said "different"
    pub chain_suspects: Vec<(usize, Vec<u8>)>,
    /// a frame followed by more data was not decoded like the framed slice on its own
    pub frame_mismatch: Option<String>,
    /// (announced length, re-encoding of the slice decoded alone, re-encoding of the framed decode)
    /// where PartialEq said "different" (NaN, too): the caller compares through the reference decoder
    pub frame_suspects: Vec<(usize, Vec<u8>, Vec<u8>)>,
}

#[derive(Clone, Debug, Default)]
pub struct FrameDiff {
    pub mismatch: Option<String>,
    pub suspects: Vec<(usize, Vec<u8>, Vec<u8>)>,
}

fn put_varint(out: &mut Vec<u8>, mut v: u64) {
    while v >= 0x80 {
        out.push((v as u8) | 0x80);
        v >>= 7;
    }
    out.push(v as u8);
}

/// Length-delimited framing is "decode exactly the announced slice": for announced lengths
/// len, len-1, len-2, len/2 the frame `varint(n) ++ bytes ++ more data` must be accepted iff
/// `decode(bytes[..n])` is, give the same message, and leave the reader right behind the frame.
fn frame_diff<M: Message + Default + PartialEq + Debug>(bytes: &[u8]) -> FrameDiff {
    use bytes::Buf;
    let mut out = FrameDiff::default();
    let fail = |m: String| FrameDiff { mismatch: Some(m), suspects: vec![] };
    let len = bytes.len();
    let mut cuts = vec![0usize, 1, 2, len / 2];
    cuts.sort();
    cuts.dedup();
    for k in cuts {
        if k > len {
            continue;
        }
        let n = len - k;
        let alone = M::decode(Bytes::copy_from_slice(&bytes[..n]));
        let mut framed = vec![];
        put_varint(&mut framed, n as u64);
        let head = framed.len();
        framed.extend_from_slice(bytes);
        // what follows the frame looks like further records
        framed.extend_from_slice(&bytes[..len.min(16)]);
        framed.extend_from_slice(&[0x08, 0x01, 0x08, 0x01]);
        let total = framed.len();
        let mut buf = Bytes::from(framed);
        let got = M::decode_length_delimited(&mut buf);
        let consumed = total - buf.remaining();
        match (alone, got) {
            (Ok(a), Ok(g)) => {
                if a != g && out.suspects.len() < 2 {
                    out.suspects.push((n, a.encode_to_vec(), g.encode_to_vec()));
                }
                if consumed != head + n {
                    return fail(format!("frame announcing {} of {} bytes: {} bytes consumed, the frame occupies {}", n, len, consumed, head + n));
                }
            }
            (Err(_), Err(_)) => {}
            (Ok(_), Err(e)) => return fail(format!("frame announcing {} of {} bytes rejected ({:?}) although those {} bytes decode alone", n, len, e, n)),
            (Err(e), Ok(_)) => return fail(format!("frame announcing {} of {} bytes accepted ({} bytes consumed) although those {} bytes alone are rejected: {:?}", n, len, consumed, n, e)),
        }
    }
    out
}

fn roundtrip<M: Message + Default + PartialEq + Debug>(bytes: &[u8]) -> PRt {
    let mut out = PRt::default();
    let m = match M::decode(Bytes::copy_from_slice(bytes)) {
        Ok(m) => m,
        Err(e) => {
            out.decode_err = Some(format!("{:?}", e));
            return out;
        }
    };
    out.debug = vcore::evidence::truncate(&format!("{:?}", m), 200_000);
    out.encoded_len = m.encoded_len();
    out.reencoded = m.encode_to_vec();
    match M::decode(Bytes::copy_from_slice(&out.reencoded)) {
        Ok(m2) => out.second_equal = Some(m2 == m),
        Err(e) => out.second_err = Some(format!("{:?}", e)),
    }
    // the same bytes as a segmented buffer (Buf::chain): every decoder takes `impl Buf`, and a
    // varint, a length prefix or a short string may straddle a chunk boundary
    for k in split_points(bytes.len()) {
        use bytes::Buf;
        let chained = (&bytes[..k]).chain(&bytes[k..]);
        match M::decode(chained) {
            Ok(mc) if mc == m => {}
            // not equal under PartialEq (NaN, too): the caller compares the re-encodings
            // through the reference decoder
            Ok(mc) => {
                if out.chain_suspects.len() < 2 {
                    out.chain_suspects.push((k, mc.encode_to_vec()));
                }
            }
            Err(e) => {
                out.chain_mismatch = Some(format!("split at {} of {}: decode error {:?}", k, bytes.len(), e));
                break;
            }
        }
    }
    let framed = m.encode_length_delimited_to_vec();
    out.framed_ok = match M::decode_length_delimited(Bytes::from(framed)) {
        Ok(m3) => m3.encode_to_vec().len() == out.reencoded.len(),
        Err(_) => false,
    };
    let fd = frame_diff::<M>(bytes);
    out.frame_mismatch = fd.mismatch;
    out.frame_suspects = fd.suspects;
    out
}

#[derive(Clone, Debug)]
pub struct PMerge {
    pub concat: Result<Vec<u8>, String>,
    pub merged: Result<Vec<u8>, String>,
}

/// decode(A ++ B) versus { m = decode(A); m.merge(B) }, both re-encoded.
fn merge2<M: Message + Default + PartialEq + Debug>(a: &[u8], b: &[u8]) -> PMerge {
    let mut ab = a.to_vec();
    ab.extend_from_slice(b);
    let concat = M::decode(Bytes::from(ab)).map(|m| m.encode_to_vec()).map_err(|e| format!("{:?}", e));
    let merged = (|| {
        let mut m = M::decode(Bytes::copy_from_slice(a)).map_err(|e| format!("{:?}", e))?;
        m.merge(Bytes::copy_from_slice(b)).map_err(|e| format!("{:?}", e))?;
        Ok(m.encode_to_vec())
    })();
    PMerge { concat, merged }
}

fn decode_only<M: Message + Default>(bytes: &[u8]) -> bool {
    use bytes::Buf;
    // also as a segmented buffer; only the contiguous outcome is reported
    for k in split_points(bytes.len()) {
        let _ = M::decode((&bytes[..k]).chain(&bytes[k..]));
    }
    M::decode(Bytes::copy_from_slice(bytes)).is_ok()
}

/// A handful of split points spread over the input (every one for short inputs).
fn split_points(len: usize) -> Vec<usize> {
    if len < 2 {
        return vec![];
    }
    if len <= 24 {
        return (1..len).collect();
    }
    let mut v = vec![1, 2, 3, len / 4, len / 3, len / 2, len / 2 + 1, 2 * len / 3, len - 3, len - 2, len - 1];
    v.sort();
    v.dedup();
    v.retain(|k| *k > 0 && *k < len);
    v
}

fn decode_delimited_only<M: Message + Default>(bytes: &[u8]) -> bool {
    M::decode_length_delimited(Bytes::copy_from_slice(bytes)).is_ok()
}

/// (decode ok?, the harness's handle to the input is unique again)
fn leak_probe<M: Message + Default>(bytes: &[u8]) -> (bool, bool) {
    let held = Bytes::copy_from_slice(bytes);
    let r = M::decode(held.clone());
    let ok = r.is_ok();
    drop(r);
    (ok, bytes.is_empty() || held.is_unique())
}

#[derive(Clone)]
pub struct POps {
    pub roundtrip: fn(&[u8]) -> PRt,
    pub merge2: fn(&[u8], &[u8]) -> PMerge,
    pub decode_only: fn(&[u8]) -> bool,
    pub decode_delimited_only: fn(&[u8]) -> bool,
    pub frame_diff: fn(&[u8]) -> FrameDiff,
    pub leak_probe: fn(&[u8]) -> (bool, bool),
}

#[derive(Clone)]
pub struct PEntry {
    pub unit: &'static str,
    pub path: &'static str,
    pub ops: POps,
}

pub fn pentry<M: Message + Default + PartialEq + Debug + 'static>(unit: &'static str, path: &'static str) -> PEntry {
    PEntry { unit, path, ops: POps { roundtrip: roundtrip::<M>, merge2: merge2::<M>, decode_only: decode_only::<M>, decode_delimited_only: decode_delimited_only::<M>, frame_diff: frame_diff::<M>, leak_probe: leak_probe::<M> } }
}
